#!/bin/sh
# Offline setup: nothing to download or compile; check that the specification parses and the harness imports.
set -e
cd "$(dirname "$0")"
for m in SQDecimal SQValues SQBuiltins SQVM SQGen MCVM TraceVM SQLexer SQGrammar TraceParse MC_Parse MC_Lex MC_C01 MC_C02 MC_C03 MC_C04 MC_C07 MC_C09 MC_C10 MC_C12 MC_C13 MC_C14 MC_C16 MC_C19 SQSession TraceSession SQRegexTimer MC_Decimal TraceDecimal SQRepl MC_Repl TraceRepl SQLexerSM SQGrammarValid MC_LexSM MC_ParseValid; do
  ( cd spec && java -cp /opt/veriftools/tla/tla2tools.jar:/opt/veriftools/tla/CommunityModules-deps.jar tla2sany.SANY $m.tla >/tmp/sany_$m.log 2>&1 ) || { cat /tmp/sany_$m.log; exit 1; }
  if grep -q "Parse Error\|Semantic errors\|Fatal errors\|\*\*\* Errors" /tmp/sany_$m.log; then cat /tmp/sany_$m.log; exit 1; fi
  rm -f /tmp/sany_$m.log
done
/venv/bin/python -c "import sys; sys.path.insert(0, '.'); import harness.common, harness.engine, harness.checks, harness.vmrun, harness.vmtrace"
echo setup ok
