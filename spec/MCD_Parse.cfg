CONSTANTS
  ExtraInfo <- MCExtraInfo
  Deviations <- CfgDeviations
INIT Init
NEXT Next
INVARIANT InvC06
INVARIANT InvC15
INVARIANT InvC16
INVARIANT InvC20
CHECK_DEADLOCK FALSE
