SPECIFICATION Spec
CONSTANT Deviations = {}
CONSTANT Cap = 10000
CONSTANT Scenarios <- AllScenarios
CONSTANT ScCalls <- C07Calls
CONSTANT ScHost <- C07Host
CONSTANT ScNames0 <- C07Names0
CONSTANT ScHeap0 <- C07Heap0
CONSTANT ScBound <- C07Bound
CONSTANT KeepHist = FALSE
CONSTANT Tier = "quick"
INVARIANT ResultInv
INVARIANT TypeInv
INVARIANT ScopeBalance
INVARIANT Lockstep
INVARIANT SizeInv
INVARIANT Terminates
INVARIANT Emit
CHECK_DEADLOCK FALSE
