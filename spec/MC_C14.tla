------------------------------- MODULE MC_C14 -------------------------------
(***************************************************************************)
(* Property C14: lists and dicts behave like their mathematical models     *)
(* under any sequence of container operations.  Classic model-based        *)
(* exploration: the state is the heap (one list L, one dict D), every      *)
(* operation of the alphabet is enabled in every state, TLC explores all   *)
(* sequences up to MaxOps.  (No VIEW: TLC evaluates invariants only on      *)
(* states that are new under the view, and the laws speak about the last   *)
(* operation; measured: hiding it silently skipped the laws.)              *)
(***************************************************************************)
EXTENDS SQBuiltins, TLC, Json

CONSTANT MaxOps

VARIABLES h, hist
vars == <<h, hist>>
\* the history is bookkeeping for the replay: container states are explored once per depth
view == <<h, Len(hist)>>

D(sign, digs, exp, sub) == [t |-> "dec", sub |-> sub, sign |-> sign, digs |-> digs, exp |-> exp]
N(n) == D(0, <<n>>, 0, TRUE)
S(c) == [t |-> "str", s |-> c]
L == [t |-> "list", addr |-> 1]
Dd == [t |-> "dict", addr |-> 2]

\* keys: 0 1 1.0 1.7 -1 -1.5 5 "1" "a" True None  (negative numbers are unary-minus results: plain Decimal)
Keys == << N(0), N(1), D(0, <<1, 0>>, -1, TRUE), D(0, <<1, 7>>, -1, TRUE), D(1, <<1>>, 0, FALSE), D(1, <<1, 5>>, -1, FALSE),
           N(5), S(<<49>>), S(<<97>>), Bool(TRUE), None, D(1, <<3>>, 0, FALSE), D(1, <<4>>, 0, FALSE) >>
Vals == << N(7), S(<<122>>) >>

Ops == [f : {"read", "del", "get", "in"}, c : {"L", "D"}, k : 1..Len(Keys), v : {1}]
       \cup [f : {"write", "plus", "getd", "insert"}, c : {"L", "D"}, k : 1..Len(Keys), v : 1..Len(Vals)]
       \cup [f : {"push", "remove", "index_of"}, c : {"L", "D"}, k : {1}, v : 1..Len(Vals)]
       \cup [f : {"pop", "len", "keys", "values", "items"}, c : {"L", "D"}, k : {1}, v : {1}]
       \cup [f : {"popi"}, c : {"L"}, k : 1..Len(Keys), v : {1}]

C(o) == IF o.c = "L" THEN L ELSE Dd
PlusEq == S(<<43, 61>>)
Apply(hp, o) ==
    LET c == C(o)  k == Keys[o.k]  v == Vals[o.v] IN
    CASE o.f = "read" -> CallAtomic(hp, "__getitem__", <<c, k>>)
      [] o.f = "write" -> CallAtomic(hp, "__setitem__", <<c, k, v>>)
      [] o.f = "plus" -> CallAtomic(hp, "__setitem_with_op__", <<c, k, PlusEq, v>>)
      [] o.f = "del" -> CallAtomic(hp, "__delitem__", <<c, k>>)
      [] o.f = "get" -> CallAtomic(hp, "get", <<c, k>>)
      [] o.f = "getd" -> CallAtomic(hp, "get", <<c, k, v>>)
      [] o.f = "in" -> BinApply(hp, "in", k, c)
      [] o.f = "insert" -> CallAtomic(hp, "insert", <<c, k, v>>)
      [] o.f = "push" -> CallAtomic(hp, "push", <<c, v>>)
      [] o.f = "remove" -> CallAtomic(hp, "remove", <<c, v>>)
      [] o.f = "index_of" -> CallAtomic(hp, "index_of", <<c, v>>)
      [] o.f = "pop" -> CallAtomic(hp, "pop", <<c>>)
      [] o.f = "popi" -> CallAtomic(hp, "pop", <<c, k>>)
      [] OTHER -> CallAtomic(hp, o.f, <<c>>)

Heap0 == << NewList(<<N(1), N(2)>>), NewDict(<< <<<<49>>, N(3)>> >>) >>
NoOp == [f |-> "none", c |-> "L", k |-> 1, v |-> 1]

Init == h = Heap0 /\ hist = <<>>
Do(o) == /\ Len(hist) < MaxOps
         /\ LET r == Apply(h, o) IN
            /\ ~IsUnspec(r.r)
            /\ h' = r.h
            /\ hist' = Append(hist, o)
Next == \E o \in Ops : Do(o)
Spec == Init /\ [][Next]_vars

(***************************************************************************)
(* The laws: for the current container state h and EVERY operation o of    *)
(* the alphabet, about the outcome r and the heap h2 after applying o.     *)
(* (Stated per state over all operations rather than over the transition   *)
(* taken, because TLC evaluates invariants only on states that are new     *)
(* under the VIEW.)                                                        *)
(***************************************************************************)
Ok(r) == IsVal(r)
IsPE(r) == IsExc(r) /\ r.exc = "ParserError"
\* dict keys are unique strings; the two containers keep their addresses
Repr == /\ h[1].t = "list" /\ h[2].t = "dict"
        /\ \A i, j \in 1..Len(h[2].items) : i # j => h[2].items[i][1] # h[2].items[j][1]
ToStrV(hp, k) == S(ToStr(hp, k))
\* a value stored under a key is what a later read / get / in observe, through the same key cast
WriteRead(o, r, h2) == (o.f \in {"write", "plus"} /\ Ok(r)) =>
                LET c == C(o)  k == Keys[o.k]
                    rd == CallAtomic(h2, "__getitem__", <<c, k>>).r IN
                /\ Ok(rd)
                /\ (o.f = "write" => Eq(h2, rd, Vals[o.v]) = T3)
                /\ (o.c = "D" => /\ Eq(h2, CallAtomic(h2, "get", <<c, k>>).r, rd) = T3
                                 /\ BinApply(h2, "in", ToStrV(h2, k), c).r = Bool(TRUE)
                                 /\ \E i \in 1..Len(h2[2].items) : h2[2].items[i][1] = ToStr(h2, k))
\* read and get agree on present keys; a missing key is a ParserError for read, the default for get
ReadGet(o, r, h2) == o.f = "read" /\ o.c = "D" =>
              LET g == CallAtomic(h2, "get", <<Dd, Keys[o.k], S(<<63>>)>>).r IN
              IF Ok(r) THEN g = r ELSE IsPE(r) /\ g = S(<<63>>)
\* after a successful del the key is gone (dict) / the list is at most one shorter
DelGone(o, r, h2) == (o.f = "del" /\ Ok(r)) =>
              IF o.c = "D" THEN ~DHas(h2[2].items, ToStr(h2, Keys[o.k]))
              ELSE Len(h2[1].items) \in {Len(h[1].items), Len(h[1].items) - 1}
\* a failed operation changes nothing (every pre-existing object is as it was)
FailedNoChange(o, r, h2) == ~Ok(r) => \A a \in 1..Len(h) : h2[a] = h[a]
\* language-level failures are ParserErrors: missing key / out-of-range read, empty or out-of-range pop
ReadFailsPE(o, r, h2) == (o.f = "read" /\ ~Ok(r) /\ (o.c = "D" \/ Keys[o.k].t \in {"dec", "bool"})) => IsPE(r)
PopFailsPE(o, r, h2) == (o.f \in {"pop", "popi"} /\ o.c = "L" /\ ~Ok(r) /\ Keys[o.k].t \in {"dec", "bool"}) => IsPE(r)
\* decimal indices address the truncated position, negative ones count from the end
IndexLaw(o, r, h2) == (o.f = "read" /\ o.c = "L" /\ Ok(r) /\ Keys[o.k].t = "dec") =>
               LET k == Keys[o.k]  n == Len(h[1].items)
                   i == IF k.sign = 0 THEN k.digs[1] ELSE n - k.digs[1] IN
               r = h[1].items[i + 1]
\* observers agree with the sequence of pairs and return new lists, not views
Observers(o, r, h2) == o.f \in {"len", "keys", "values", "items"} /\ Ok(r) =>
                LET c == C(o)  n == Len(h[c.addr].items) IN
                IF o.f = "len" THEN r = NatInt(n)
                ELSE /\ Len(h2[r.addr].items) = n
                     /\ r.addr > Len(h)
                     /\ \A i \in 1..n : LET p == h[2].items[i]  x == h2[r.addr].items[i] IN
                            CASE o.f = "keys" -> x = S(p[1]) [] o.f = "values" -> x = p[2] [] OTHER -> x = Tuple(<<S(p[1]), p[2]>>)
LawsAt(o) == LET res == Apply(h, o)  r == res.r  h2 == res.h IN
             IsUnspec(r) \/ ( /\ WriteRead(o, r, h2) /\ ReadGet(o, r, h2) /\ DelGone(o, r, h2) /\ FailedNoChange(o, r, h2)
                              /\ ReadFailsPE(o, r, h2) /\ PopFailsPE(o, r, h2) /\ IndexLaw(o, r, h2) /\ Observers(o, r, h2) )
Laws == \A o \in Ops : LawsAt(o)
SizeOk == \A a \in 1..Len(h) : Len(h[a].items) <= MaxOps + 2

Emit == PrintT(ToJson([hist |-> hist]))
=============================================================================
