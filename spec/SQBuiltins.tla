----------------------------- MODULE SQBuiltins -----------------------------
(***************************************************************************)
(* Semantics of the operators and of the entries of FUNCTIONS              *)
(* (smartquery/functions.py) as pure operators over values and the heap.   *)
(*                                                                         *)
(* Every operator returns [h |-> heap', r |-> result] where result is a    *)
(* value, an exception record or an unspec record (see SQValues).          *)
(* Higher-order builtins (map filter reduce sorted) and the relational     *)
(* ones (rand shuffle regex float-of-fraction power) are handled by SQVM.      *)
(*                                                                         *)
(* CONSTANT Deviations: names of the places where the shipped code departs *)
(* from the normative reading of the properties (DESIGN.md 1.2).           *)
(***************************************************************************)
EXTENDS SQValues

CONSTANTS Deviations,
          Cap      \* the container size cap (MAX_ARRAY_SIZE = 10000 in the code; small in exhaustive models of the cap logic)

Dev(d) == d \in Deviations


R(h, r) == [h |-> h, r |-> r]

BuiltinNames == {"len", "int", "float", "str", "dict", "list", "startswith", "endswith", "lower", "upper",
                 "strip", "replace", "match", "match_groups", "match_all", "pretty", "keys", "values",
                 "items", "sum", "get", "__getitem__", "__delitem__", "__setitem__", "__setitem_with_op__",
                 "map", "filter", "reduce", "join", "split", "round", "floor", "ceil", "abs", "min", "max",
                 "rand", "push", "pop", "insert", "remove", "sorted", "reversed", "enumerate", "shuffle",
                 "index_of"}
Mutators      == {"push", "pop", "insert", "remove", "__setitem__", "__setitem_with_op__", "__delitem__"}
HigherOrder   == {"map", "filter", "reduce", "sorted"}
Relational    == {"rand", "shuffle", "match", "match_groups", "match_all"}
RegexBuiltins == {"match", "match_groups", "match_all"}
ImplicitNames == {"list", "dict", "__getitem__", "__setitem__", "__delitem__", "__setitem_with_op__"}

Builtin(n) == [t |-> "builtin", name |-> n]

(***************************************************************************)
(* Native Python arithmetic on the numeric tower                           *)
(***************************************************************************)
DecRes(r) == IF IsSig(r) THEN SigToExc(r) ELSE MkDec(r, FALSE)

\* op in {"+", "-", "/"}  (native operators; "*" is separate because the code guards it)
NumArith(op, a, b) ==
    IF a.t = "float" \/ b.t = "float"
    THEN (IF a.t = "dec" \/ b.t = "dec" THEN TypeErr ELSE Unspec("binary float arithmetic"))
    ELSE IF a.t = "dec" \/ b.t = "dec"
    THEN DecRes(CASE op = "+" -> DecAdd(AsDec(a), AsDec(b), Prec)
                  [] op = "-" -> DecSub(AsDec(a), AsDec(b), Prec)
                  [] op = "/" -> DecDiv(AsDec(a), AsDec(b), Prec))
    ELSE \* int/bool with int/bool
         CASE op = "+" -> MkInt(IntAdd(AsIntRep(a), AsIntRep(b)))
           [] op = "-" -> MkInt(IntSub(AsIntRep(a), AsIntRep(b)))
           [] op = "/" -> IF AsIntRep(b).digs = <<0>> THEN OtherErr("ZeroDivisionError") ELSE Unspec("int / int gives a float")

\* Decimal(a) * Decimal(b) in the context: the guarded multiply of BinOp
GuardedMul(a, b) ==
    IF ~IsNum(a) \/ ~IsNum(b) THEN ParserErr
    ELSE DecRes(DecMul(AsDec(a), AsDec(b), Prec))

RepeatSeq(s, n) == IF n <= 0 \/ Len(s) = 0 THEN <<>> ELSE [i \in 1..(n * Len(s)) |-> s[((i - 1) % Len(s)) + 1]]

\* native a * b as Python computes it (only reachable through *= in the shipped code)
NativeMul(h, a, b) ==
    IF IsNum(a) /\ IsNum(b) THEN
        R(h, IF a.t = "float" \/ b.t = "float"
             THEN (IF a.t = "dec" \/ b.t = "dec" THEN TypeErr ELSE Unspec("binary float arithmetic"))
             ELSE IF a.t = "dec" \/ b.t = "dec" THEN DecRes(DecMul(AsDec(a), AsDec(b), Prec))
             ELSE MkInt(IntMul(AsIntRep(a), AsIntRep(b))))
    ELSE IF a.t \in {"str", "tuple"} /\ IsIntLike(b) THEN
        (IF ~IsSmall(AsIntRep(b)) THEN R(h, Unspec("huge repeat"))
         ELSE IF a.t = "str" THEN R(h, Str(RepeatSeq(a.s, IntVal(AsIntRep(b)))))
         ELSE R(h, Tuple(RepeatSeq(a.items, IntVal(AsIntRep(b))))))
    ELSE IF IsIntLike(a) /\ b.t \in {"str", "tuple"} THEN
        (IF ~IsSmall(AsIntRep(a)) THEN R(h, Unspec("huge repeat"))
         ELSE IF b.t = "str" THEN R(h, Str(RepeatSeq(b.s, IntVal(AsIntRep(a)))))
         ELSE R(h, Tuple(RepeatSeq(b.items, IntVal(AsIntRep(a))))))
    ELSE IF a.t = "list" /\ IsIntLike(b) THEN
        (IF ~IsSmall(AsIntRep(b)) THEN R(h, Unspec("huge repeat"))
         ELSE LET al == Alloc(h, NewList(RepeatSeq(Items(h, a), IntVal(AsIntRep(b))))) IN R(al.h, ListRef(al.a)))
    ELSE IF IsIntLike(a) /\ b.t = "list" THEN
        (IF ~IsSmall(AsIntRep(a)) THEN R(h, Unspec("huge repeat"))
         ELSE LET al == Alloc(h, NewList(RepeatSeq(Items(h, b), IntVal(AsIntRep(a))))) IN R(al.h, ListRef(al.a)))
    ELSE IF a.t = "opaque" \/ b.t = "opaque" THEN R(h, Unspec("opaque operand"))
    ELSE R(h, TypeErr)

\* native a + b
PyAdd(h, a, b) ==
    IF IsNum(a) /\ IsNum(b) THEN R(h, NumArith("+", a, b))
    ELSE IF a.t = "str" /\ b.t = "str" THEN R(h, Str(a.s \o b.s))
    ELSE IF a.t = "list" /\ b.t = "list" THEN
         LET al == Alloc(h, NewList(Items(h, a) \o Items(h, b))) IN R(al.h, ListRef(al.a))
    ELSE IF a.t = "tuple" /\ b.t = "tuple" THEN R(h, Tuple(a.items \o b.items))
    ELSE IF a.t = "opaque" \/ b.t = "opaque" THEN R(h, Unspec("opaque operand"))
    ELSE R(h, TypeErr)
PySub(h, a, b) ==
    IF IsNum(a) /\ IsNum(b) THEN R(h, NumArith("-", a, b))
    ELSE IF a.t = "opaque" \/ b.t = "opaque" THEN R(h, Unspec("opaque operand"))
    ELSE R(h, TypeErr)
PyDiv(h, a, b) ==
    IF IsNum(a) /\ IsNum(b) THEN R(h, NumArith("/", a, b))
    ELSE IF a.t = "opaque" \/ b.t = "opaque" THEN R(h, Unspec("opaque operand"))
    ELSE R(h, TypeErr)

(***************************************************************************)
(* Exact small powers (a ** n is otherwise specified relationally)         *)
(***************************************************************************)
RECURSIVE DecPowExact(_, _)
DecPowExact(a, n) == IF n = 0 THEN [sign |-> 0, digs |-> <<1>>, exp |-> 0]
                     ELSE DecMul(a, DecPowExact(a, n - 1), BigPrec)
\* Decimal(a) ** Decimal(b): defined here when b is a small non-negative integer and
\* the exact power fits the precision (then every correctly rounding implementation
\* returns it); otherwise the caller needs an oracle.
NoPow == [t |-> "nopow"]
PowExactOrNone(a, b) ==
    LET da == AsDec(a)  db == AsDec(b) IN
    IF db.sign = 0 /\ db.exp = 0 /\ Len(db.digs) <= 2 /\ DigsNat(db.digs) <= 12 /\ DigsNat(db.digs) >= 1 /\ da.digs # <<0>>
       /\ Len(da.digs) * DigsNat(db.digs) <= Prec
    THEN LET p == DecPowExact(da, DigsNat(db.digs)) IN
         IF IsSig(p) \/ Len(p.digs) > Prec THEN NoPow ELSE MkDec(p, FALSE)
    ELSE NoPow

(***************************************************************************)
(* Binary operators of BinOp.eval (and/or are control flow: SQVM)          *)
(***************************************************************************)
CmpRes(x) == IF x = U3 THEN Unspec("comparison") ELSE IF x = TY3 THEN TypeErr ELSE Bool(x = T3)
NotRes(r) == IF IsVal(r) THEN Bool(~r.b) ELSE r

\* p occurs in s at position i (1-based)
SubAt(s, p, i) == i + Len(p) - 1 <= Len(s) /\ \A j \in 1..Len(p) : s[i + j - 1] = p[j]
\* first position >= from where p occurs in s, 0 if none
FindFrom(s, p, from) == LET S == {i \in from..(Len(s) - Len(p) + 1) : SubAt(s, p, i)} IN
                        IF S = {} THEN 0 ELSE CHOOSE i \in S : \A k \in S : i <= k

\* first index i with xs[i] == v (Python: identity or equality); 0 none; -1 unspec.  Not recursive over the elements.
AnyEq(h, xs, v, i) ==
    LET S == {j \in i..Len(xs) : Eq(h, xs[j], v) # F3} IN
    IF S = {} THEN 0
    ELSE LET j == CHOOSE j \in S : \A k \in S : j <= k IN IF Eq(h, xs[j], v) = U3 THEN -1 ELSE j

Hashable(v) == v.t \in {"none", "bool", "dec", "int", "float", "str", "lambda", "builtin", "hostfn"}
               \/ (v.t = "tuple" /\ \A i \in 1..Len(v.items) : v.items[i].t \in {"none", "bool", "dec", "int", "float", "str"})

\* a in b
\* position of the int key of a host dict that a number equals (and hashes like); 0 if none
HasIntKeys(ps) == \E i \in 1..Len(ps) : IsIntKey(ps[i][1])
DictFindNum(h, ps, a) ==
    IF a.t \notin {"dec", "int", "bool"} THEN 0
    ELSE LET S == {i \in 1..Len(ps) : IsIntKey(ps[i][1]) /\ ValEq(h, a, KeyVal(ps[i][1]), Fuel) = T3} IN
         IF S = {} THEN 0 ELSE CHOOSE i \in S : TRUE
PyContains(h, a, b) ==
    CASE b.t = "str" -> IF a.t = "str" THEN Bool(Len(a.s) = 0 \/ FindFrom(b.s, a.s, 1) # 0)
                        ELSE IF a.t = "opaque" THEN Unspec("opaque") ELSE TypeErr
      [] b.t = "list" -> LET i == AnyEq(h, Items(h, b), a, 1) IN IF i = -1 THEN Unspec("eq") ELSE Bool(i # 0)
      [] b.t = "tuple" -> LET i == AnyEq(h, b.items, a, 1) IN IF i = -1 THEN Unspec("eq") ELSE Bool(i # 0)
      [] b.t = "dict" -> IF a.t = "str" THEN Bool(DHas(Items(h, b), a.s))
                         ELSE IF a.t = "opaque" THEN Unspec("opaque")
                         ELSE IF a.t = "float" /\ HasIntKeys(Items(h, b)) THEN Unspec("float against int keys")
                         ELSE IF Hashable(a) THEN Bool(DictFindNum(h, Items(h, b), a) # 0)
                         ELSE TypeErr
      [] b.t = "opaque" -> Unspec("opaque")
      [] OTHER -> TypeErr

BinApply(h, op, a, b) ==
    CASE op = "+" ->
            IF a.t = "str" /\ b.t # "str"
            THEN (LET sb == ToStr(h, b) IN IF IsBadStr(sb) THEN R(h, Unspec("str() of operand")) ELSE R(h, Str(a.s \o sb)))
            ELSE PyAdd(h, a, b)
      [] op = "-" -> PySub(h, a, b)
      [] op = "*" -> IF a.t = "opaque" \/ b.t = "opaque" THEN R(h, Unspec("opaque")) ELSE R(h, GuardedMul(a, b))
      [] op = "/" -> PyDiv(h, a, b)
      [] op = "**" -> IF IsNum(a) /\ IsNum(b)
                      THEN (LET p == PowExactOrNone(a, b) IN IF p = NoPow THEN R(h, [oracle |-> "pow"]) ELSE R(h, p))
                      ELSE R(h, Unspec("** on non-numbers"))
      [] op = "==" -> R(h, CmpRes(Eq(h, a, b)))
      [] op = "!=" -> R(h, NotRes(CmpRes(Eq(h, a, b))))
      [] op = "<"  -> R(h, CmpRes(Lt(h, a, b)))
      [] op = ">"  -> R(h, CmpRes(Lt(h, b, a)))
      \* Python evaluates a <= b natively; for the totally ordered types we specify it is not (b < a)
      [] op = "<=" -> R(h, NotRes(CmpRes(Lt(h, b, a))))
      [] op = ">=" -> R(h, NotRes(CmpRes(Lt(h, a, b))))
      [] op = "in" -> R(h, PyContains(h, a, b))
      [] op = "not in" -> R(h, NotRes(PyContains(h, a, b)))
      [] OTHER -> R(h, ParserErr)

UnaryApply(h, op, a) ==
    IF op = "not" THEN R(h, Bool(~Truthy(h, a)))
    ELSE CASE a.t = "dec" -> R(h, DecRes(DecNeg(DRep(a), Prec)))
           [] a.t \in {"int", "bool"} -> R(h, MkInt(IntNeg(AsIntRep(a))))
           [] a.t = "float" -> R(h, Unspec("float negation"))
           [] a.t = "opaque" -> R(h, Unspec("opaque"))
           [] OTHER -> R(h, TypeErr)

(***************************************************************************)
(* In-place operators: x op= v (ShortOp) and c[k] op= v                    *)
(***************************************************************************)
Iterable(v) == v.t \in {"list", "tuple", "str", "dict"}
IterItems(h, v) == \* the element sequence Python iterates over (only for Iterable values)
    CASE v.t = "list" -> Items(h, v)
      [] v.t = "tuple" -> v.items
      [] v.t = "str" -> [i \in 1..Len(v.s) |-> Str(<<v.s[i]>>)]
      [] v.t = "dict" -> [i \in 1..LenOf(h, v) |-> KeyVal(Items(h, v)[i][1])]
      [] OTHER -> <<>>

InplaceApply(h, op, cur, v) ==
    CASE op = "+=" ->
            IF cur.t = "list"
            THEN (LET its == IterItems(h, v) IN
                  IF v.t = "opaque" THEN R(h, Unspec("opaque"))
                  ELSE IF ~Iterable(v) THEN R(h, TypeErr)
                  ELSE R([h EXCEPT ![cur.addr].items = @ \o its], cur))
            ELSE PyAdd(h, cur, v)
      [] op = "-=" -> PySub(h, cur, v)
      [] op = "/=" -> PyDiv(h, cur, v)
      [] op = "*=" ->
            IF Dev("ShortMulNative")
            THEN (IF cur.t = "list" /\ IsIntLike(v)
                  THEN (IF ~IsSmall(AsIntRep(v)) THEN R(h, Unspec("huge repeat"))
                        ELSE R([h EXCEPT ![cur.addr].items = RepeatSeq(@, IntVal(AsIntRep(v)))], cur))
                  ELSE NativeMul(h, cur, v))
            ELSE IF cur.t = "opaque" \/ v.t = "opaque" THEN R(h, Unspec("opaque")) ELSE R(h, GuardedMul(cur, v))
      [] OTHER -> R(h, ParserErr)

(***************************************************************************)
(* Indexing                                                                *)
(***************************************************************************)
Big == 100000000
BoundVal(i) == IF IsSmall(i) THEN IntVal(i) ELSE IF i.sign = 1 THEN -Big ELSE Big
Min2(a, b) == IF a < b THEN a ELSE b
Max2(a, b) == IF a > b THEN a ELSE b

\* indices (0-based) selected by slice(a, b, c) on a sequence of length n; ZeroStep if step = 0
ZeroStep == <<-1>>
SliceIdx(n, sa, sb, sc) ==
    LET step == IF sc.t = "none" THEN 1 ELSE BoundVal(IRep(sc)) IN
    IF step = 0 THEN ZeroStep
    ELSE IF step > 0 THEN
        LET st0 == IF sa.t = "none" THEN 0 ELSE BoundVal(IRep(sa))
            st1 == IF st0 < 0 THEN Max2(st0 + n, 0) ELSE Min2(st0, n)
            sp0 == IF sb.t = "none" THEN n ELSE BoundVal(IRep(sb))
            sp1 == IF sp0 < 0 THEN Max2(sp0 + n, 0) ELSE Min2(sp0, n)
            cnt == IF sp1 > st1 THEN (sp1 - st1 + step - 1) \div step ELSE 0
        IN [j \in 1..cnt |-> st1 + (j - 1) * step]
    ELSE
        LET st0 == IF sa.t = "none" THEN n - 1 ELSE BoundVal(IRep(sa))
            st1 == IF sa.t = "none" THEN n - 1 ELSE IF st0 < 0 THEN Max2(st0 + n, -1) ELSE Min2(st0, n - 1)
            sp0 == IF sb.t = "none" THEN -1 ELSE BoundVal(IRep(sb))
            sp1 == IF sb.t = "none" THEN -1 ELSE IF sp0 < 0 THEN Max2(sp0 + n, -1) ELSE Min2(sp0, n - 1)
            cnt == IF st1 > sp1 THEN (st1 - sp1 + (-step) - 1) \div (-step) ELSE 0
        IN [j \in 1..cnt |-> st1 + (j - 1) * step]

\* normalise an int index against length n: 1-based position, or 0 when out of range
\* list.pop / list.insert take a C ssize_t: an index of 20 or more digits does not fit (OverflowError, not IndexError)
SsizeFit(i) == IF Len(i.digs) < 19 THEN "fits" ELSE IF Len(i.digs) > 19 THEN "no" ELSE "edge"
NormIdx(i, n) == LET x == BoundVal(i) IN
                 IF x < 0 THEN (IF x + n < 0 THEN 0 ELSE x + n + 1) ELSE IF x >= n THEN 0 ELSE x + 1

\* Python sequence[key] for a key after _list_key_cast
IndexMiss == [miss |-> TRUE]
SeqGet(h, xs, key, wrap(_), one(_)) ==
    CASE key.t \in {"int", "bool"} ->
            LET p == NormIdx(AsIntRep(key), Len(xs)) IN IF p = 0 THEN IndexMiss ELSE one(xs[p])
      [] key.t = "slice" ->
            LET idx == SliceIdx(Len(xs), key.a, key.b, key.c) IN
            IF idx = ZeroStep THEN OtherErr("ValueError") ELSE wrap([j \in 1..Len(idx) |-> xs[idx[j] + 1]])
      [] key.t = "opaque" -> Unspec("opaque key")
      [] OTHER -> TypeErr

\* _get_item(container, key)
GetItem(h, c, key) ==
    CASE c.t = "dict" ->
            LET ks == DictKeyCast(h, key) IN
            IF IsBadStr(ks) THEN R(h, Unspec("str(key)"))
            ELSE IF DHas(Items(h, c), ks) THEN R(h, DGet(Items(h, c), ks)) ELSE R(h, ParserErr)
      [] c.t = "list" ->
            LET k2 == ListKeyCast(key) IN
            IF ~IsVal(k2) THEN R(h, k2)
            ELSE IF k2.t = "slice"
            THEN (LET idx == SliceIdx(LenOf(h, c), k2.a, k2.b, k2.c) IN
                  IF idx = ZeroStep THEN R(h, OtherErr("ValueError"))
                  ELSE LET al == Alloc(h, NewList([j \in 1..Len(idx) |-> Items(h, c)[idx[j] + 1]])) IN R(al.h, ListRef(al.a)))
            ELSE LET g == SeqGet(h, Items(h, c), k2, LAMBDA sq : None, LAMBDA x : x) IN
                 IF g = IndexMiss THEN R(h, ParserErr) ELSE R(h, g)
      [] c.t = "str" ->
            LET k2 == ListKeyCast(key) IN
            IF ~IsVal(k2) THEN R(h, k2)
            ELSE LET g == SeqGet(h, c.s, k2, LAMBDA sq : Str(sq), LAMBDA x : Str(<<x>>)) IN
                 IF g = IndexMiss THEN R(h, ParserErr) ELSE R(h, g)
      [] c.t = "tuple" ->
            LET k2 == ListKeyCast(key) IN
            IF ~IsVal(k2) THEN R(h, k2)
            ELSE LET g == SeqGet(h, c.items, k2, LAMBDA sq : Tuple(sq), LAMBDA x : x) IN
                 IF g = IndexMiss THEN R(h, ParserErr) ELSE R(h, g)
      [] c.t = "opaque" -> R(h, Unspec("opaque container"))
      [] OTHER -> \* key cast happens first and can itself fail
            LET k2 == ListKeyCast(key) IN IF ~IsVal(k2) THEN R(h, k2) ELSE R(h, TypeErr)

\* _check_array_size
SizeCheck(h, c) ==
    CASE c.t \in {"list", "dict"} -> IF LenOf(h, c) >= Cap THEN "cap" ELSE "ok"
      [] c.t = "str" -> IF Len(c.s) >= Cap THEN "cap" ELSE "ok"
      [] c.t = "tuple" -> IF Len(c.items) >= Cap THEN "cap" ELSE "ok"
      [] c.t = "opaque" -> "unspec"
      [] OTHER -> "type"

\* container[key] = v  (native item assignment; key already cast)
NativeSetItem(h, c, key, v) ==
    CASE c.t = "dict" -> R([h EXCEPT ![c.addr].items = DSet(@, key.s, v)], None)
      [] c.t = "list" ->
            IF key.t \in {"int", "bool"}
            THEN (LET p == NormIdx(AsIntRep(key), LenOf(h, c)) IN
                  IF p = 0 THEN R(h, OtherErr("IndexError")) ELSE R([h EXCEPT ![c.addr].items[p] = v], None))
            ELSE IF key.t = "slice" THEN R(h, Unspec("slice assignment"))
            ELSE IF key.t = "opaque" THEN R(h, Unspec("opaque")) ELSE R(h, TypeErr)
      [] c.t = "opaque" -> R(h, Unspec("opaque"))
      [] OTHER -> R(h, TypeErr)

\* _key_cast: result is a value/cps-for-dict, or exc/unspec
\* for a dict container the result is Str(key string); failures are exc/unspec records
KeyCast(h, c, key) ==
    IF c.t = "dict" THEN (LET ks == DictKeyCast(h, key) IN IF IsBadStr(ks) THEN Unspec("str(key)") ELSE Str(ks))
    ELSE ListKeyCast(key)
KeyCastFailed(k) == ~IsVal(k)

\* _set(container, key, value): returns the ORIGINAL value (shipped) / None (normative reading of
\* "statements yield None" is not claimed: the property text is about eval of statement lines;
\* the specification follows the code and records the fact as deviation SetItemYieldsValue)
SetItem(h, c, key, v) ==
    LET sc == SizeCheck(h, c) IN
    IF sc = "cap" THEN R(h, ParserErr)
    ELSE IF sc = "unspec" THEN R(h, Unspec("opaque container"))
    ELSE IF sc = "type" THEN R(h, TypeErr)
    ELSE LET k2 == KeyCast(h, c, key) IN
         IF KeyCastFailed(k2) THEN R(h, k2)
         ELSE IF HasNoCopy(h, v) THEN R(h, TypeErr)
         ELSE LET cp == DeepCopy(h, v)
                  st == NativeSetItem(cp.h, c, k2, cp.v) IN
              IF IsVal(st.r) THEN R(st.h, v) ELSE R(h, st.r)

\* container[key] (native; raw LookupError) for the compound form
NativeGetItem(h, c, key) ==
    CASE c.t = "dict" -> IF DHas(Items(h, c), key.s) THEN DGet(Items(h, c), key.s) ELSE OtherErr("KeyError")
      [] c.t = "list" ->
            IF key.t \in {"int", "bool"}
            THEN (LET p == NormIdx(AsIntRep(key), LenOf(h, c)) IN IF p = 0 THEN OtherErr("IndexError") ELSE Items(h, c)[p])
            ELSE IF key.t \in {"slice", "opaque"} THEN Unspec("slice/opaque key") ELSE TypeErr
      [] c.t = "str" -> IF key.t \in {"int", "bool"}
                        THEN (LET p == NormIdx(AsIntRep(key), Len(c.s)) IN IF p = 0 THEN OtherErr("IndexError") ELSE Str(<<c.s[p]>>))
                        ELSE Unspec("str key")
      [] c.t = "tuple" -> IF key.t \in {"int", "bool"}
                          THEN (LET p == NormIdx(AsIntRep(key), Len(c.items)) IN IF p = 0 THEN OtherErr("IndexError") ELSE c.items[p])
                          ELSE IF key.t \in {"slice", "opaque"} THEN Unspec("slice/opaque key") ELSE TypeErr
      [] c.t = "opaque" -> Unspec("opaque")
      [] OTHER -> TypeErr

\* _set_with_op(container, key, op, value): returns the deep copy of value
SetItemWithOp(h, c, key, op, v) ==
    LET sc == SizeCheck(h, c) IN
    IF sc = "cap" THEN R(h, ParserErr)
    ELSE IF sc = "unspec" THEN R(h, Unspec("opaque container"))
    ELSE IF sc = "type" THEN R(h, TypeErr)
    ELSE LET k2 == KeyCast(h, c, key) IN
         IF KeyCastFailed(k2) THEN R(h, k2)
         ELSE IF HasNoCopy(h, v) THEN R(h, TypeErr)
         ELSE LET cp == DeepCopy(h, v) IN
              IF op.t # "str" \/ ~(op.s \in {<<43, 61>>, <<45, 61>>, <<42, 61>>, <<47, 61>>}) THEN R(cp.h, ParserErr)
              ELSE LET opn == CASE op.s = <<43, 61>> -> "+=" [] op.s = <<45, 61>> -> "-=" [] op.s = <<42, 61>> -> "*=" [] OTHER -> "/="
                       cur == NativeGetItem(cp.h, c, k2) IN
                   \* reading the missing key / index: normatively a ParserError like a plain read (property C16);
                   \* the shipped code lets the raw KeyError / IndexError escape (deviation SetWithOpLookupError)
                   IF IsExc(cur) /\ cur.name \in {"KeyError", "IndexError"} /\ ~Dev("SetWithOpLookupError") THEN R(cp.h, ParserErr)
                   ELSE IF ~IsVal(cur) THEN R(cp.h, cur)
                   ELSE LET ip == InplaceApply(cp.h, opn, cur, cp.v) IN
                        IF ~IsVal(ip.r) THEN R(ip.h, ip.r)
                        ELSE LET st == NativeSetItem(ip.h, c, k2, ip.r) IN
                             IF IsVal(st.r) THEN R(st.h, cp.v) ELSE R(st.h, st.r)

\* _del(container, key)
DelItem(h, c, key) ==
    LET k2 == KeyCast(h, c, key) IN
    IF KeyCastFailed(k2) THEN R(h, k2)
    ELSE IF c.t = "dict" THEN (IF DHas(Items(h, c), k2.s) THEN R([h EXCEPT ![c.addr].items = DDel(@, k2.s)], None) ELSE R(h, None))
    ELSE IF c.t = "list" THEN
        (IF k2.t \in {"int", "bool"}
         THEN (LET x == BoundVal(AsIntRep(k2))  n == LenOf(h, c) IN
               IF n > x
               THEN (LET p == NormIdx(AsIntRep(k2), n) IN
                     IF p = 0 THEN R(h, OtherErr("IndexError")) ELSE R([h EXCEPT ![c.addr].items = SeqRemoveAt(@, p)], None))
               ELSE R(h, None))
         \* a host float as key: "len(container) > key" is an ordinary comparison; only if it holds is the deletion attempted (TypeError)
         ELSE IF k2.t = "float" THEN R(h, IF DecCmp(IntToDec([sign |-> 0, digs |-> NatDigs(LenOf(h, c))]), k2.dec) = 1 THEN TypeErr ELSE None)
         ELSE IF k2.t = "opaque" THEN R(h, Unspec("opaque")) ELSE R(h, TypeErr))
    ELSE IF c.t \in {"str", "tuple"} THEN
        (IF k2.t \in {"int", "bool"}
         THEN (IF (IF c.t = "str" THEN Len(c.s) ELSE Len(c.items)) > BoundVal(AsIntRep(k2)) THEN R(h, TypeErr) ELSE R(h, None))
         ELSE IF k2.t = "float"
         THEN R(h, IF DecCmp(IntToDec([sign |-> 0, digs |-> NatDigs(IF c.t = "str" THEN Len(c.s) ELSE Len(c.items))]), k2.dec) = 1 THEN TypeErr ELSE None)
         ELSE IF k2.t = "opaque" THEN R(h, Unspec("opaque")) ELSE R(h, TypeErr))
    ELSE IF c.t = "opaque" THEN R(h, Unspec("opaque"))
    ELSE R(h, TypeErr)

(***************************************************************************)
(* String builtins                                                         *)
(***************************************************************************)
Ascii(s) == \A i \in 1..Len(s) : s[i] < 128
LowerCp(c) == IF c >= 65 /\ c <= 90 THEN c + 32 ELSE c
UpperCp(c) == IF c >= 97 /\ c <= 122 THEN c - 32 ELSE c

RECURSIVE StripSetL(_, _)
StripSetL(s, cs) == IF Len(s) > 0 /\ s[1] \in cs THEN StripSetL(Tail(s), cs) ELSE s
RECURSIVE StripSetR(_, _)
StripSetR(s, cs) == IF Len(s) > 0 /\ s[Len(s)] \in cs THEN StripSetR(SubSeq(s, 1, Len(s) - 1), cs) ELSE s
PyWs == {9, 10, 11, 12, 13, 28, 29, 30, 31, 32}

RECURSIVE PyReplaceAll(_, _, _, _, _)
\* s.replace(old, new, count) for non-empty old; count < 0: all
PyReplaceAll(s, old, new, count, from) ==
    IF count = 0 THEN SubSeq(s, from, Len(s))
    ELSE LET p == FindFrom(s, old, from) IN
         IF p = 0 THEN SubSeq(s, from, Len(s))
         ELSE SubSeq(s, from, p - 1) \o new \o PyReplaceAll(s, old, new, count - 1, p + Len(old))

RECURSIVE SplitOn(_, _, _, _)
\* s.split(sep, maxsplit) for non-empty sep: sequence of cps
SplitOn(s, sep, count, from) ==
    IF count = 0 THEN <<SubSeq(s, from, Len(s))>>
    ELSE LET p == FindFrom(s, sep, from) IN
         IF p = 0 THEN <<SubSeq(s, from, Len(s))>>
         ELSE <<SubSeq(s, from, p - 1)>> \o SplitOn(s, sep, count - 1, p + Len(sep))

RECURSIVE JoinCps(_, _, _)
JoinCps(parts, sep, i) == IF i > Len(parts) THEN <<>>
                          ELSE (IF i = 1 THEN <<>> ELSE sep) \o parts[i] \o JoinCps(parts, sep, i + 1)

RECURSIVE StrAll(_, _, _, _)
\* str() of every element; BadStrs if any is unspecified
BadStrs == <<BadStr>>
StrAll(h, xs, i, acc) ==
    IF i > Len(xs) THEN acc
    ELSE LET s == ToStr(h, xs[i]) IN IF IsBadStr(s) THEN BadStrs ELSE StrAll(h, xs, i + 1, Append(acc, s))

StartsEnds(ends, s, p) ==
    IF ends THEN Len(p) <= Len(s) /\ SubSeq(s, Len(s) - Len(p) + 1, Len(s)) = p
    ELSE Len(p) <= Len(s) /\ SubSeq(s, 1, Len(p)) = p

\* pretty() of a Decimal: transcription of functions.py:37-56
RECURSIVE PrettyChunks(_, _, _)
PrettyChunks(nm, n, i) == \* chunks for i = 0, 3, 6, ... < n, each inserted at the front
    IF i >= n THEN <<>>
    ELSE LET idFrom == IF n - i - 3 < 0 THEN 0 ELSE n - i - 3 IN
         PrettyChunks(nm, n, i + 3) \o <<SubSeq(nm, idFrom + 1, n - i)>>
PrettyDec(d, sep) ==
    LET value == DecToStr(d)
        nm == IF value[1] # 45 THEN value ELSE Tail(value)
        n == Len(nm) IN
    IF n < 5 THEN value
    ELSE LET j == JoinCps(PrettyChunks(nm, n, 0), sep, 1) IN
         IF nm = value THEN j ELSE <<45>> \o j

(***************************************************************************)
(* Numeric builtins                                                        *)
(***************************************************************************)
IntRes(r) == IF IsIntRep(r) THEN MkDec(IntToDec(r), TRUE) ELSE IF IsSig(r) THEN SigToExc(r) ELSE r

\* Decimal(str(x)) of a Decimal keeps sign/digits/exponent
\* Normative (property C04): a numeric builtin never returns more significant digits than the larger of 28 and
\* one more than its widest numeric argument; a conversion whose integer value would be longer is an arithmetic
\* error.  The shipped code goes through Python int (deviation IntViaPyInt: int(1E+100) has 101 digits).
ArgDigits(v) == CASE v.t = "dec" -> Len(v.digs) [] v.t \in {"int", "bool"} -> Len(AsIntRep(v).digs) [] v.t = "float" -> Len(v.dec.digs) [] OTHER -> 0
DigitLimit(v) == IF ArgDigits(v) + 1 > Prec THEN ArgDigits(v) + 1 ELSE Prec
Bounded(v, res) == IF IsVal(res) /\ res.t = "dec" /\ Len(res.digs) > DigitLimit(v) /\ ~Dev("IntViaPyInt")
                   THEN OtherErr("?") ELSE res
BI_int(v) == LET r == PyInt(v) IN IF IsIntRep(r) THEN Bounded(v, MkDec(IntToDec(r), TRUE)) ELSE r

BI_round(v, nd) ==
    IF nd.t = "none" THEN
        CASE v.t = "dec" -> IntRes(DecToIntegral(DRep(v), "half_even"))
          [] v.t \in {"int", "bool"} -> MkDec(IntToDec(AsIntRep(v)), TRUE)
          [] v.t = "float" -> IntRes(DecToIntegral(v.dec, "half_even"))
          [] v.t = "opaque" -> Unspec("opaque")
          [] OTHER -> TypeErr
    ELSE LET n == PyInt(nd) IN
         IF ~IsIntRep(n) THEN n
         ELSE IF ~IsSmall(n) THEN Unspec("huge ndigits")
         ELSE CASE v.t = "dec" -> (LET q == DecQuantize(DRep(v), IntVal(n), Prec) IN
                                   IF IsSig(q) THEN SigToExc(q) ELSE MkDec(q, TRUE))
                [] v.t \in {"int", "bool"} -> IF n.sign = 0 THEN MkDec(IntToDec(AsIntRep(v)), TRUE) ELSE Unspec("round(int, negative)")
                [] v.t = "float" -> Unspec("round(float, n)")
                [] v.t = "opaque" -> Unspec("opaque")
                [] OTHER -> TypeErr

BI_floorceil(mode, v) ==
    CASE v.t = "dec" -> IntRes(DecToIntegral(DRep(v), mode))
      [] v.t \in {"int", "bool"} -> MkDec(IntToDec(AsIntRep(v)), TRUE)
      [] v.t = "float" -> IntRes(DecToIntegral(v.dec, mode))
      [] v.t = "opaque" -> Unspec("opaque")
      [] OTHER -> TypeErr

BI_abs(v) ==
    CASE v.t = "dec" -> (LET r == DecAbs(DRep(v), Prec) IN IF IsSig(r) THEN SigToExc(r) ELSE MkDec(r, TRUE))
      [] v.t \in {"int", "bool"} -> MkDec(IntToDec([sign |-> 0, digs |-> AsIntRep(v).digs]), TRUE)
      [] v.t = "float" -> MkDec([v.dec EXCEPT !.sign = 0], TRUE)
      [] v.t = "opaque" -> Unspec("opaque")
      [] OTHER -> TypeErr

\* float(v) where the binary value is exactly the decimal value (integers below 2^53)
BI_float(v) ==
    CASE v.t = "float" -> MkDec(v.dec, TRUE)
      [] v.t \in {"int", "bool"} -> IF Len(AsIntRep(v).digs) <= 15 THEN MkDec(IntToDec(AsIntRep(v)), TRUE) ELSE [oracle |-> "float"]
      [] v.t = "dec" -> IF v.exp >= 0 /\ Len(v.digs) + v.exp <= 15
                        THEN (LET i == DecToIntegral(DRep(v), "trunc") IN MkDec(IntToDec(i), TRUE))
                        ELSE [oracle |-> "float"]
      [] v.t = "str" -> [oracle |-> "float"]
      [] v.t = "opaque" -> Unspec("opaque")
      [] OTHER -> TypeErr

LongSeq == 2500       \* element-wise recursive operators are specified up to this length (left-domain beyond)
RECURSIVE FoldSum(_, _, _, _)
FoldSum(h, xs, i, acc) ==
    IF i > Len(xs) THEN R(h, acc)
    ELSE LET s == PyAdd(h, acc, xs[i]) IN IF IsVal(s.r) THEN FoldSum(s.h, xs, i + 1, s.r) ELSE s

RECURSIVE FoldMin(_, _, _, _, _)
\* Python min/max: keep the first extreme element
FoldMin(h, xs, i, best, isMax) ==
    IF i > Len(xs) THEN best
    ELSE LET c == IF isMax THEN Lt(h, best, xs[i]) ELSE Lt(h, xs[i], best) IN
         IF c = U3 THEN Unspec("comparison") ELSE IF c = TY3 THEN TypeErr
         ELSE FoldMin(h, xs, i + 1, IF c = T3 THEN xs[i] ELSE best, isMax)

BI_minmax(h, isMax, args) ==
    IF Len(args) = 0 THEN TypeErr
    ELSE IF Len(args) = 1 THEN
        (LET its == IterItems(h, args[1]) IN
         IF args[1].t = "opaque" THEN Unspec("opaque")
         ELSE IF ~Iterable(args[1]) THEN TypeErr
         ELSE IF Len(its) = 0 THEN OtherErr("ValueError")
         ELSE FoldMin(h, its, 2, its[1], isMax))
    ELSE FoldMin(h, args, 2, args[1], isMax)

(***************************************************************************)
(* The atomic builtins.  args: sequence of values.                         *)
(***************************************************************************)
Arg(args, i, dflt) == IF Len(args) >= i THEN args[i] ELSE dflt
ArityErr == TypeErr

\* operands too long for the element-wise recursive operators of this specification (left-domain)
TooLong(h, v) == CASE v.t = "str" -> Len(v.s) > LongSeq [] v.t \in {"list", "dict"} -> LenOf(h, v) > LongSeq [] v.t = "tuple" -> Len(v.items) > LongSeq [] OTHER -> FALSE
CallAtomic(h, name, args) ==
  LET n == Len(args)
      a1 == Arg(args, 1, None)  a2 == Arg(args, 2, None)  a3 == Arg(args, 3, None)  a4 == Arg(args, 4, None)
      AnyOpaque == \E i \in 1..n : args[i].t = "opaque"
  IN
  IF AnyOpaque THEN R(h, Unspec("opaque argument"))
  \* a builtin passed as the DATA argument: str and dict are Python types with attributes of their own
  \* (split(str) calls str.split(" ")), the others are functions; what Python does with them is not specified here
  ELSE IF n >= 1 /\ a1.t \in {"builtin", "hostfn"} /\ name \notin {"list", "__setitem__", "push", "insert"} THEN R(h, Unspec("function object as data argument"))
  ELSE IF name # "list" /\ \E i \in 1..n : args[i] = Builtin("str") THEN R(h, Unspec("the type str as an argument"))
  ELSE IF name \in {"join", "pretty", "split", "replace", "min", "max", "str", "strip", "lower", "upper"} /\ \E i \in 1..n : TooLong(h, args[i])
  THEN R(h, Unspec("operand too long for the specification's sequence functions"))
  ELSE
  CASE name = "len" ->
        IF n # 1 THEN R(h, ArityErr)
        ELSE CASE a1.t = "str" -> R(h, NatInt(Len(a1.s)))
               [] a1.t \in {"list", "dict"} -> R(h, NatInt(LenOf(h, a1)))
               [] a1.t = "tuple" -> R(h, NatInt(Len(a1.items)))
               [] OTHER -> R(h, TypeErr)
    [] name = "int" -> IF n # 1 THEN R(h, ArityErr) ELSE R(h, BI_int(a1))
    [] name = "float" -> IF n # 1 THEN R(h, ArityErr) ELSE R(h, BI_float(a1))
    [] name = "str" ->
        IF n = 0 THEN R(h, Str(<<>>))
        ELSE IF n = 1 THEN (LET s == ToStr(h, a1) IN IF IsBadStr(s) THEN R(h, Unspec("str()")) ELSE R(h, Str(s)))
        ELSE R(h, Unspec("str with encoding arguments"))
    [] name = "dict" ->
        IF n = 0 THEN (LET al == Alloc(h, NewDict(<<>>)) IN R(al.h, DictRef(al.a)))
        ELSE IF n = 1 /\ a1.t = "dict" THEN (LET al == Alloc(h, NewDict(Items(h, a1))) IN R(al.h, DictRef(al.a)))
        ELSE R(h, Unspec("dict(iterable)"))
    [] name = "list" -> LET al == Alloc(h, NewList(args)) IN R(al.h, ListRef(al.a))
    [] name \in {"startswith", "endswith"} ->
        IF n < 2 THEN R(h, ArityErr)
        ELSE IF n > 2 THEN R(h, Unspec("start/end arguments"))
        ELSE IF a1.t # "str" THEN R(h, TypeErr)
        ELSE IF a2.t = "str" THEN R(h, Bool(StartsEnds(name = "endswith", a1.s, a2.s)))
        ELSE IF a2.t = "tuple" THEN
            (IF \E i \in 1..Len(a2.items) : a2.items[i].t # "str" THEN R(h, TypeErr)
             ELSE R(h, Bool(\E i \in 1..Len(a2.items) : StartsEnds(name = "endswith", a1.s, a2.items[i].s))))
        ELSE R(h, TypeErr)
    [] name \in {"lower", "upper"} ->
        IF n # 1 THEN R(h, ArityErr)
        ELSE IF a1.t # "str" THEN R(h, TypeErr)
        ELSE IF ~Ascii(a1.s) THEN R(h, Unspec("non-ASCII case mapping"))
        ELSE R(h, Str([i \in 1..Len(a1.s) |-> IF name = "lower" THEN LowerCp(a1.s[i]) ELSE UpperCp(a1.s[i])]))
    [] name = "strip" ->
        IF n = 0 \/ n > 2 THEN R(h, ArityErr)
        ELSE IF a1.t # "str" THEN R(h, TypeErr)
        ELSE IF n = 1 \/ a2.t = "none" THEN
            (IF ~Ascii(a1.s) THEN R(h, Unspec("non-ASCII whitespace")) ELSE R(h, Str(StripSetR(StripSetL(a1.s, PyWs), PyWs))))
        ELSE IF a2.t = "str" THEN
            (LET cs == {a2.s[i] : i \in 1..Len(a2.s)} IN R(h, Str(StripSetR(StripSetL(a1.s, cs), cs))))
        ELSE R(h, TypeErr)
    [] name = "replace" ->
        IF n < 3 \/ n > 4 THEN R(h, ArityErr)
        ELSE IF a1.t # "str" THEN R(h, OtherErr("AttributeError"))
        ELSE LET cnt == IF n = 4 THEN PyInt(a4) ELSE [sign |-> 1, digs |-> <<1>>] IN
             IF ~IsIntRep(cnt) THEN R(h, cnt)
             ELSE IF a2.t # "str" \/ a3.t # "str" THEN R(h, TypeErr)
             ELSE IF Len(a2.s) = 0 THEN R(h, Unspec("replace of empty string"))
             ELSE R(h, Str(PyReplaceAll(a1.s, a2.s, a3.s, IF cnt.sign = 1 THEN -1 ELSE BoundVal(cnt), 1)))
    [] name = "pretty" ->
        IF n = 0 \/ n > 2 THEN R(h, ArityErr)
        ELSE IF a1.t = "dict" THEN
            (LET sep == IF n = 2 THEN a2 ELSE Str(<<10>>)
                 vs == StrAll(h, [i \in 1..LenOf(h, a1) |-> Items(h, a1)[i][2]], 1, <<>>) IN
             IF sep.t # "str" THEN R(h, OtherErr("AttributeError"))
             ELSE IF vs = BadStrs THEN R(h, Unspec("str() of element"))
             ELSE R(h, Str(JoinCps([i \in 1..Len(vs) |-> KeyText(Items(h, a1)[i][1]) \o cColonSp \o vs[i]], sep.s, 1))))
        ELSE IF a1.t = "list" THEN
            (LET sep == IF n = 2 THEN a2 ELSE Str(cCommaSp)
                 vs == StrAll(h, Items(h, a1), 1, <<>>) IN
             IF sep.t # "str" THEN R(h, OtherErr("AttributeError"))
             ELSE IF vs = BadStrs THEN R(h, Unspec("str() of element"))
             ELSE R(h, Str(JoinCps(vs, sep.s, 1))))
        ELSE IF a1.t = "dec" THEN
            (LET sep == IF n = 2 THEN a2 ELSE Str(<<32>>) IN
             IF Len(DecToStr(DRep(a1))) - (IF a1.sign = 1 THEN 1 ELSE 0) < 5 THEN R(h, Str(DecToStr(DRep(a1))))
             ELSE IF sep.t # "str" THEN R(h, OtherErr("AttributeError"))
             ELSE R(h, Str(PrettyDec(DRep(a1), sep.s))))
        ELSE (LET s == ToStr(h, a1) IN IF IsBadStr(s) THEN R(h, Unspec("str()")) ELSE R(h, Str(s)))
    [] name \in {"keys", "values", "items"} ->
        IF n # 1 THEN R(h, ArityErr)
        ELSE IF a1.t # "dict" THEN R(h, OtherErr("AttributeError"))
        ELSE LET ps == Items(h, a1)
                 xs == [i \in 1..Len(ps) |-> CASE name = "keys" -> KeyVal(ps[i][1])
                                               [] name = "values" -> ps[i][2]
                                               [] OTHER -> Tuple(<<KeyVal(ps[i][1]), ps[i][2]>>)]
                 al == Alloc(h, NewList(xs)) IN R(al.h, ListRef(al.a))
    [] name = "sum" ->
        IF n # 1 THEN R(h, ArityErr)
        ELSE IF a1.t = "list" THEN (IF LenOf(h, a1) > LongSeq THEN R(h, Unspec("sum of a very long list")) ELSE FoldSum(h, Items(h, a1), 1, NatInt(0)))
        ELSE R(h, a1)
    [] name = "get" ->
        IF n < 2 \/ n > 3 THEN R(h, ArityErr)
        ELSE LET k2 == KeyCast(h, a1, a2) IN
             IF KeyCastFailed(k2) THEN R(h, k2)
             ELSE IF a1.t = "dict" /\ Dev("MutGetNoCast") /\ a2.t # "str" THEN R(h, a3)      \* specification mutant (non-vacuity of C14)
             ELSE IF a1.t = "dict" THEN R(h, IF DHas(Items(h, a1), k2.s) THEN DGet(Items(h, a1), k2.s) ELSE a3)
             ELSE R(h, OtherErr("AttributeError"))
    [] name = "__getitem__" -> IF n # 2 THEN R(h, ArityErr) ELSE GetItem(h, a1, a2)
    [] name = "__delitem__" -> IF n # 2 THEN R(h, ArityErr) ELSE DelItem(h, a1, a2)
    [] name = "__setitem__" -> IF n # 3 THEN R(h, ArityErr) ELSE SetItem(h, a1, a2, a3)
    [] name = "__setitem_with_op__" -> IF n # 4 THEN R(h, ArityErr) ELSE SetItemWithOp(h, a1, a2, a3, a4)
    [] name = "join" ->
        IF n = 0 \/ n > 2 THEN R(h, ArityErr)
        ELSE LET sep == IF n = 2 THEN a2 ELSE Str(<<10>>)
                 its == IterItems(h, a1) IN
             IF sep.t # "str" THEN R(h, OtherErr("AttributeError"))
             ELSE IF ~Iterable(a1) THEN R(h, TypeErr)
             ELSE LET vs == StrAll(h, its, 1, <<>>) IN
                  IF vs = BadStrs THEN R(h, Unspec("str() of element")) ELSE R(h, Str(JoinCps(vs, sep.s, 1)))
    [] name = "split" ->
        IF n = 0 \/ n > 3 THEN R(h, ArityErr)
        ELSE IF a1.t # "str" THEN R(h, OtherErr("AttributeError"))
        ELSE LET sep == IF n >= 2 THEN a2 ELSE Str(<<32>>)
                 ms == IF n = 3 THEN PyInt(a3) ELSE [sign |-> 1, digs |-> <<1>>] IN
             IF ~IsIntRep(ms) THEN R(h, ms)
             ELSE IF sep.t = "none" THEN R(h, Unspec("whitespace split"))
             ELSE IF sep.t # "str" THEN R(h, TypeErr)
             ELSE IF Len(sep.s) = 0 THEN R(h, OtherErr("ValueError"))
             ELSE LET parts == SplitOn(a1.s, sep.s, IF ms.sign = 1 THEN -1 ELSE BoundVal(ms), 1)
                      al == Alloc(h, NewList([i \in 1..Len(parts) |-> Str(parts[i])])) IN R(al.h, ListRef(al.a))
    [] name = "round" -> IF n = 0 \/ n > 2 THEN R(h, ArityErr) ELSE R(h, Bounded(a1, BI_round(a1, a2)))
    [] name = "floor" -> IF n # 1 THEN R(h, ArityErr) ELSE R(h, Bounded(a1, BI_floorceil("floor", a1)))
    [] name = "ceil" -> IF n # 1 THEN R(h, ArityErr) ELSE R(h, Bounded(a1, BI_floorceil("ceil", a1)))
    [] name = "abs" -> IF n # 1 THEN R(h, ArityErr) ELSE R(h, BI_abs(a1))
    [] name = "min" -> R(h, BI_minmax(h, FALSE, args))
    [] name = "max" -> R(h, BI_minmax(h, TRUE, args))
    [] name = "push" ->
        IF n # 2 THEN R(h, ArityErr)
        ELSE LET sc == SizeCheck(h, a1) IN
             IF sc = "cap" THEN R(h, ParserErr)
             ELSE IF sc = "type" THEN R(h, TypeErr)
             ELSE IF a1.t # "list" THEN R(h, OtherErr("AttributeError"))
             ELSE R([h EXCEPT ![a1.addr].items = Append(@, a2)], None)
    [] name = "insert" ->
        IF n # 3 THEN R(h, ArityErr)
        ELSE LET sc == SizeCheck(h, a1) IN
             IF sc = "cap" THEN R(h, ParserErr)
             ELSE IF sc = "type" THEN R(h, TypeErr)
             ELSE IF a1.t # "list" THEN R(h, OtherErr("AttributeError"))
             ELSE LET i == PyInt(a2) IN
                  IF ~IsIntRep(i) THEN R(h, i)
                  ELSE IF SsizeFit(i) # "fits" THEN R(h, IF SsizeFit(i) = "no" THEN OtherErr("OverflowError") ELSE Unspec("index near 2^63"))
                  ELSE LET x == BoundVal(i)  len == LenOf(h, a1)
                           p == IF x < 0 THEN Max2(x + len, 0) ELSE Min2(x, len) IN
                       R([h EXCEPT ![a1.addr].items = SeqInsertAt(@, p + 1, a3)], None)
    [] name = "pop" ->
        IF n = 0 \/ n > 2 THEN R(h, ArityErr)
        ELSE IF a1.t # "list" THEN R(h, IF a1.t = "dict" THEN Unspec("dict.pop") ELSE OtherErr("AttributeError"))
        ELSE IF n = 1 \/ a2.t = "none" THEN
            (LET len == LenOf(h, a1) IN
             IF len = 0 THEN R(h, ParserErr)
             ELSE R([h EXCEPT ![a1.addr].items = SubSeq(@, 1, len - 1)], Items(h, a1)[len]))
        ELSE LET i == PyInt(a2) IN
             IF ~IsIntRep(i) THEN R(h, i)
             ELSE IF SsizeFit(i) # "fits" THEN R(h, IF SsizeFit(i) = "no" THEN OtherErr("OverflowError") ELSE Unspec("index near 2^63"))
             ELSE LET p == NormIdx(i, LenOf(h, a1)) IN
                  IF p = 0 THEN R(h, ParserErr)
                  ELSE R([h EXCEPT ![a1.addr].items = SeqRemoveAt(@, p)], Items(h, a1)[p])
    [] name = "remove" ->
        IF n # 2 THEN R(h, ArityErr)
        ELSE IF a1.t = "list" THEN
            (LET i == AnyEq(h, Items(h, a1), a2, 1) IN
             IF i = -1 THEN R(h, Unspec("eq"))
             ELSE IF i = 0 THEN R(h, None)
             ELSE R([h EXCEPT ![a1.addr].items = SeqRemoveAt(@, i)], None))
        ELSE IF a1.t = "dict" THEN
            (IF a2.t = "str" THEN (IF DHas(Items(h, a1), a2.s) THEN R([h EXCEPT ![a1.addr].items = DDel(@, a2.s)], None) ELSE R(h, None))
             ELSE IF a2.t = "float" /\ HasIntKeys(Items(h, a1)) THEN R(h, Unspec("float against int keys"))
             ELSE IF Hashable(a2)
             THEN (LET i == DictFindNum(h, Items(h, a1), a2) IN
                   IF i = 0 THEN R(h, None) ELSE R([h EXCEPT ![a1.addr].items = SeqRemoveAt(@, i)], None))
             ELSE R(h, TypeErr))
        ELSE IF a1.t = "str" THEN R(h, IF a2.t = "str" THEN (IF Len(a2.s) = 0 \/ FindFrom(a1.s, a2.s, 1) # 0 THEN TypeErr ELSE None) ELSE TypeErr)
        ELSE IF a1.t = "tuple" THEN
            (LET i == AnyEq(h, a1.items, a2, 1) IN
             IF i = -1 THEN R(h, Unspec("eq")) ELSE IF i = 0 THEN R(h, None) ELSE R(h, TypeErr))
        ELSE R(h, TypeErr)
    [] name = "reversed" ->
        IF n # 1 THEN R(h, ArityErr)
        ELSE IF a1.t = "str" THEN R(h, Str([i \in 1..Len(a1.s) |-> a1.s[Len(a1.s) + 1 - i]]))
        ELSE IF a1.t \in {"list", "tuple", "dict"} THEN
            (LET its == IterItems(h, a1)
                 al == Alloc(h, NewList([i \in 1..Len(its) |-> its[Len(its) + 1 - i]])) IN R(al.h, ListRef(al.a)))
        ELSE R(h, TypeErr)
    [] name = "enumerate" ->
        IF n # 1 THEN R(h, ArityErr)
        ELSE LET its == IterItems(h, a1) IN
             IF ~Iterable(a1) THEN R(h, TypeErr)
             ELSE LET al == Alloc(h, NewList([i \in 1..Len(its) |-> Tuple(<<NatInt(i - 1), its[i]>>)])) IN R(al.h, ListRef(al.a))
    [] name = "index_of" ->
        IF n # 2 THEN R(h, ArityErr)
        ELSE IF a1.t = "list" \/ a1.t = "tuple" THEN
            (LET i == AnyEq(h, IterItems(h, a1), a2, 1) IN
             IF i = -1 THEN R(h, Unspec("eq")) ELSE IF i = 0 THEN R(h, None) ELSE R(h, NatInt(i - 1)))
        ELSE IF a1.t = "str" THEN
            (IF a2.t # "str" THEN R(h, TypeErr)
             ELSE LET p == IF Len(a2.s) = 0 THEN 1 ELSE FindFrom(a1.s, a2.s, 1) IN
                  IF p = 0 THEN R(h, None) ELSE R(h, NatInt(p - 1)))
        ELSE R(h, OtherErr("AttributeError"))
    [] OTHER -> R(h, Unspec("builtin not specified: " \o name))

(***************************************************************************)
(* Stable sort used by sorted(): insertion sort on <<key, element>> pairs  *)
(***************************************************************************)
RECURSIVE InsertSorted(_, _, _, _, _)
\* sorted is a sorted sequence of pairs; insert pair x after all elements not "after" it.
\* Only used when all keys are pairwise comparable (AllComparable).
InsertSorted(h, sorted, x, rev, i) ==
    \* i: candidate position from the right; x goes after sorted[i] unless x must precede it
    IF i = 0 THEN <<x>> \o sorted
    ELSE LET before == IF rev THEN Lt(h, sorted[i][1], x[1]) ELSE Lt(h, x[1], sorted[i][1]) IN
         IF before = T3 THEN InsertSorted(h, sorted, x, rev, i - 1)
         ELSE SubSeq(sorted, 1, i) \o <<x>> \o SubSeq(sorted, i + 1, Len(sorted))
RECURSIVE SortPairs(_, _, _, _, _)
SortPairs(h, pairs, rev, i, acc) ==
    IF i > Len(pairs) THEN acc
    ELSE SortPairs(h, pairs, rev, i + 1, InsertSorted(h, acc, pairs[i], rev, Len(acc)))
\* all keys pairwise comparable (then the result does not depend on the sorting algorithm)
AllComparable(h, pairs) ==
    \A i, j \in 1..Len(pairs) : i < j => Lt(h, pairs[i][1], pairs[j][1]) \in {T3, F3} /\ Lt(h, pairs[j][1], pairs[i][1]) \in {T3, F3}

=============================================================================
