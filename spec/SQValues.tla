------------------------------ MODULE SQValues ------------------------------
(***************************************************************************)
(* Value universe and heap of the smartquery abstract machine.             *)
(*                                                                         *)
(* Values are records tagged by t (see CONVENTIONS.md).  Lists and dicts *)
(* live in a heap (sequence of objects, address = index) because programs  *)
(* can alias and mutate them; everything else is immutable.                *)
(*                                                                         *)
(* Results of partial operations are one of                                *)
(*   a value                        (has field t)                          *)
(*   [exc |-> class, name |-> n]    a Python exception: class is           *)
(*        "ParserError" | "OpsLimit" | "Other"; name the Python class name *)
(*        or "?" when the specification does not pin it down               *)
(*   [unspec |-> why]               the program left the part of Python's  *)
(*        semantics this specification defines ("left-domain")             *)
(***************************************************************************)
EXTENDS Integers, Sequences, FiniteSets, SQDecimal

Prec == 28
Fuel == 12          \* nesting depth of containers the specification follows

IsVal(r)    == "t" \in DOMAIN r
\* three-valued results of comparisons (TLC cannot compare booleans with strings)
T3 == 1   F3 == 0   U3 == 2   TY3 == 3      \* true, false, unspecified, TypeError
B3(b) == IF b THEN T3 ELSE F3
\* "no string": the sentinel of operators that return code points
BadStr == <<-1>>
IsBadStr(s) == s = BadStr
IsExc(r)    == "exc" \in DOMAIN r
IsUnspec(r) == "unspec" \in DOMAIN r

None       == [t |-> "none"]
Bool(b)    == [t |-> "bool", b |-> b]
Str(cp)    == [t |-> "str", s |-> cp]
MkDec(d, sub) == [t |-> "dec", sub |-> sub, sign |-> d.sign, digs |-> d.digs, exp |-> d.exp]
MkInt(i)   == [t |-> "int", sign |-> i.sign, digs |-> i.digs]
Tuple(xs)  == [t |-> "tuple", items |-> xs]
ListRef(a) == [t |-> "list", addr |-> a]
DictRef(a) == [t |-> "dict", addr |-> a]
DRep(v)    == [sign |-> v.sign, digs |-> v.digs, exp |-> v.exp]
IRep(v)    == [sign |-> v.sign, digs |-> v.digs]

ParserErr      == [exc |-> "ParserError", name |-> "ParserError"]
OpsLimitErr    == [exc |-> "OpsLimit", name |-> "OpsExecutionLimitExceededError"]
OtherErr(n)    == [exc |-> "Other", name |-> n]
TypeErr        == OtherErr("TypeError")
Unspec(why)    == [unspec |-> why]

SigToExc(s) == IF s.sig = "Unspecified" \/ s.sig = "Huge" THEN Unspec("decimal:" \o s.sig)
               ELSE OtherErr(s.sig)

(***************************************************************************)
(* Small naturals <-> digit sequences                                      *)
(***************************************************************************)
RECURSIVE NatDigs(_)
NatDigs(n) == IF n < 10 THEN <<n>> ELSE Append(NatDigs(n \div 10), n % 10)
NatInt(n)  == MkInt([sign |-> 0, digs |-> NatDigs(n)])
SmallInt(n) == IF n >= 0 THEN NatInt(n) ELSE MkInt([sign |-> 1, digs |-> NatDigs(-n)])

RECURSIVE DigsNat(_)
DigsNat(ds) == IF Len(ds) = 0 THEN 0 ELSE DigsNat(SubSeq(ds, 1, Len(ds) - 1)) * 10 + ds[Len(ds)]
\* an int value as a TLC integer; only meaningful when IsSmall
IsSmall(i)   == Len(i.digs) <= 8
IntVal(i)    == IF i.sign = 1 THEN -DigsNat(i.digs) ELSE DigsNat(i.digs)
BoolInt(v)   == IF v.b THEN NatInt(1) ELSE NatInt(0)

IsIntLike(v) == v.t \in {"int", "bool"}
AsIntRep(v)  == IF v.t = "bool" THEN IRep(BoolInt(v)) ELSE IRep(v)
IsNum(v)     == v.t \in {"dec", "int", "bool", "float"}
\* Decimal(x) for a number x: exact
AsDec(v) == CASE v.t = "dec"   -> DRep(v)
              [] v.t = "int"   -> IntToDec(IRep(v))
              [] v.t = "bool"  -> IntToDec(IRep(BoolInt(v)))
              [] v.t = "float" -> v.dec

(***************************************************************************)
(* Exact integer arithmetic on IntReps via the decimal module at a         *)
(* precision that cannot round (ints in programs stay small; host ints can *)
(* be long, the precision bound below is checked).                         *)
(***************************************************************************)
BigPrec == 4000
DecToIntRep(d) == \* d has exp >= 0 here or is integral; used after exact int arithmetic
    DecToIntegral(d, "trunc")
IntAdd(a, b) == DecToIntRep(DecAdd(IntToDec(a), IntToDec(b), BigPrec))
IntSub(a, b) == DecToIntRep(DecSub(IntToDec(a), IntToDec(b), BigPrec))
IntMul(a, b) == DecToIntRep(DecMul(IntToDec(a), IntToDec(b), BigPrec))
IntCmp(a, b) == DecCmp(IntToDec(a), IntToDec(b))
IntNeg(a)    == IF a.digs = <<0>> THEN a ELSE [sign |-> 1 - a.sign, digs |-> a.digs]

(***************************************************************************)
(* Heap                                                                    *)
(***************************************************************************)
NewList(xs) == [t |-> "list", items |-> xs]
NewDict(ps) == [t |-> "dict", items |-> ps]
Alloc(h, obj) == [h |-> Append(h, obj), a |-> Len(h) + 1]

Items(h, v) == h[v.addr].items
LenOf(h, v) == Len(h[v.addr].items)

\* dict helpers on a sequence of <<key, value>> pairs
\* index of key in a sequence of pairs (keys are unique), 0 if absent; not recursive: dicts can hold 10000 entries
DKeyIndex(ps, key, i) == LET S == {j \in i..Len(ps) : ps[j][1] = key} IN IF S = {} THEN 0 ELSE CHOOSE j \in S : \A k \in S : j <= k
DHas(ps, key) == DKeyIndex(ps, key, 1) # 0
DGet(ps, key) == ps[DKeyIndex(ps, key, 1)][2]
DSet(ps, key, v) == LET i == DKeyIndex(ps, key, 1) IN
                    IF i = 0 THEN Append(ps, <<key, v>>) ELSE [ps EXCEPT ![i] = <<key, v>>]
SeqRemoveAt(s, i) == SubSeq(s, 1, i - 1) \o SubSeq(s, i + 1, Len(s))
SeqInsertAt(s, i, x) == SubSeq(s, 1, i - 1) \o <<x>> \o SubSeq(s, i, Len(s))   \* x becomes element i
DDel(ps, key) == SeqRemoveAt(ps, DKeyIndex(ps, key, 1))

(***************************************************************************)
(* Truthiness                                                              *)
(***************************************************************************)
Truthy(h, v) ==
    CASE v.t = "none"  -> FALSE
      [] v.t = "bool"  -> v.b
      [] v.t = "dec"   -> v.digs # <<0>>
      [] v.t = "int"   -> v.digs # <<0>>
      [] v.t = "float" -> v.dec.digs # <<0>>
      [] v.t = "str"   -> Len(v.s) > 0
      [] v.t = "tuple" -> Len(v.items) > 0
      [] v.t \in {"list", "dict"} -> LenOf(h, v) > 0
      [] OTHER -> TRUE

(***************************************************************************)
(* Equality (Python ==) and ordering (Python <).  Result: TRUE/FALSE, or   *)
(* the string "unspec" / "type" (TypeError) for ordering.                  *)
(***************************************************************************)
NumEq(a, b) == DecCmp(AsDec(a), AsDec(b)) = 0

RECURSIVE ValEq(_, _, _, _)
RECURSIVE SeqEq(_, _, _, _, _)
RECURSIVE DictSub(_, _, _, _, _)
\* returns T3, F3 or U3
ValEq(h, a, b, fuel) ==
    IF fuel = 0 THEN U3
    ELSE IF a.t = "opaque" \/ b.t = "opaque" THEN U3
    ELSE IF IsNum(a) /\ IsNum(b) THEN B3(NumEq(a, b))
    ELSE IF a.t # b.t THEN F3
    ELSE CASE a.t = "none" -> T3
           [] a.t = "str" -> B3(a.s = b.s)
           [] a.t = "tuple" -> IF Len(a.items) # Len(b.items) THEN F3 ELSE SeqEq(h, a.items, b.items, 1, fuel - 1)
           [] a.t = "list" -> IF a.addr = b.addr THEN T3
                              ELSE IF LenOf(h, a) # LenOf(h, b) THEN F3
                              ELSE SeqEq(h, Items(h, a), Items(h, b), 1, fuel - 1)
           [] a.t = "dict" -> IF a.addr = b.addr THEN T3
                              ELSE IF LenOf(h, a) # LenOf(h, b) THEN F3
                              ELSE DictSub(h, Items(h, a), Items(h, b), 1, fuel - 1)
           [] a.t = "slice" -> U3
           [] OTHER -> B3(a = b)          \* lambda / builtin / hostfn: identity
\* Python compares list elements with identity-or-equality
SeqEq(h, xs, ys, i, fuel) ==
    IF i = 1 /\ Len(xs) > 64 THEN (IF xs = ys THEN T3 ELSE IF \A j \in 1..Len(xs) : xs[j].t \notin {"list", "dict", "tuple", "opaque"} /\ ys[j].t \notin {"list", "dict", "tuple", "opaque"}
                                                      THEN B3(\A j \in 1..Len(xs) : ValEq(h, xs[j], ys[j], 2) = T3) ELSE U3)
    ELSE IF i > Len(xs) THEN T3
    ELSE LET e == ValEq(h, xs[i], ys[i], fuel) IN
         IF e # T3 THEN e ELSE SeqEq(h, xs, ys, i + 1, fuel)
DictSub(h, ps, qs, i, fuel) ==
    IF i > Len(ps) THEN T3
    ELSE IF ~DHas(qs, ps[i][1]) THEN F3
    ELSE LET e == ValEq(h, ps[i][2], DGet(qs, ps[i][1]), fuel) IN
         IF e # T3 THEN e ELSE DictSub(h, ps, qs, i + 1, fuel)

Eq(h, a, b) == ValEq(h, a, b, Fuel)

RECURSIVE CpsLt(_, _, _)
CpsLt(a, b, i) == IF i > Len(b) THEN FALSE
                  ELSE IF i > Len(a) THEN TRUE
                  ELSE IF a[i] < b[i] THEN TRUE
                  ELSE IF a[i] > b[i] THEN FALSE
                  ELSE CpsLt(a, b, i + 1)

RECURSIVE ValLt(_, _, _, _)
RECURSIVE SeqLt(_, _, _, _, _)
\* T3 / F3 / TY3 / U3
ValLt(h, a, b, fuel) ==
    IF fuel = 0 THEN U3
    ELSE IF a.t = "opaque" \/ b.t = "opaque" THEN U3
    ELSE IF IsNum(a) /\ IsNum(b) THEN B3(DecCmp(AsDec(a), AsDec(b)) = -1)
    ELSE IF a.t = "str" /\ b.t = "str" THEN B3(CpsLt(a.s, b.s, 1))
    ELSE IF a.t = "tuple" /\ b.t = "tuple" THEN SeqLt(h, a.items, b.items, 1, fuel - 1)
    ELSE IF a.t = "list" /\ b.t = "list" THEN SeqLt(h, Items(h, a), Items(h, b), 1, fuel - 1)
    ELSE TY3
\* lexicographic: first position where elements differ (by ==) decides by <
SeqLt(h, xs, ys, i, fuel) ==
    IF Len(xs) > 2500 \/ Len(ys) > 2500 THEN U3
    ELSE IF i > Len(xs) \/ i > Len(ys) THEN B3(Len(xs) < Len(ys))
    ELSE LET e == ValEq(h, xs[i], ys[i], fuel) IN
         IF e = U3 THEN U3
         ELSE IF e = T3 THEN SeqLt(h, xs, ys, i + 1, fuel)
         ELSE ValLt(h, xs[i], ys[i], fuel)

Lt(h, a, b) == ValLt(h, a, b, Fuel)

(***************************************************************************)
(* str() and repr()                                                        *)
(***************************************************************************)
CP(s) == \* code points of an ASCII TLA+ string literal, via a lookup table
    LET tbl == [c \in {"N","o","n","e","T","r","u","F","a","l","s","D","c","i","m","(",")","'","[","]","{","}",","," ",":","-","E","+",".","\""}
                 |-> CASE c = "N" -> 78 [] c = "o" -> 111 [] c = "n" -> 110 [] c = "e" -> 101 [] c = "T" -> 84
                       [] c = "r" -> 114 [] c = "u" -> 117 [] c = "F" -> 70 [] c = "a" -> 97 [] c = "l" -> 108
                       [] c = "s" -> 115 [] c = "D" -> 68 [] c = "c" -> 99 [] c = "i" -> 105 [] c = "m" -> 109
                       [] c = "(" -> 40 [] c = ")" -> 41 [] c = "'" -> 39 [] c = "[" -> 91 [] c = "]" -> 93
                       [] c = "{" -> 123 [] c = "}" -> 125 [] c = "," -> 44 [] c = " " -> 32 [] c = ":" -> 58
                       [] c = "-" -> 45 [] c = "E" -> 69 [] c = "+" -> 43 [] c = "." -> 46 [] c = "\"" -> 34]
    IN tbl[s]
cNone   == <<78, 111, 110, 101>>
cTrue   == <<84, 114, 117, 101>>
cFalse  == <<70, 97, 108, 115, 101>>
cDecOpen  == <<68, 101, 99, 105, 109, 97, 108, 40, 39>>      \* Decimal('
cDecClose == <<39, 41>>                                       \* ')
cCommaSp == <<44, 32>>
cColonSp == <<58, 32>>

\* Python repr of a str: specified for "simple" strings only (printable ASCII without
\* backslash; at most one kind of quote), else unspec
SimpleChar(c) == c >= 32 /\ c <= 126 /\ c # 92
HasCp(s, c) == \E i \in 1..Len(s) : s[i] = c
StrRepr(s) ==
    IF \E i \in 1..Len(s) : ~SimpleChar(s[i]) THEN BadStr
    ELSE IF HasCp(s, 39) /\ HasCp(s, 34) THEN BadStr
    ELSE IF HasCp(s, 39) THEN <<34>> \o s \o <<34>>
    ELSE <<39>> \o s \o <<39>>

\* Dict keys.  A key made by the language is always text (its code points).  A host-supplied dict may also have int keys:
\* such a key is the sequence <<-2>> \o the code points of str(key), so it can never equal a text key.
IsIntKey(k) == Len(k) > 0 /\ k[1] = -2
IntKeyText(k) == Tail(k)
IntKeyRep(k) == LET neg == Len(k) > 1 /\ k[2] = 45
                    off == IF neg THEN 2 ELSE 1 IN
                [sign |-> IF neg THEN 1 ELSE 0, digs |-> [i \in 1..(Len(k) - off) |-> k[i + off] - 48]]
KeyVal(k) == IF IsIntKey(k) THEN MkInt(IntKeyRep(k)) ELSE Str(k)          \* the key as a value (iteration, keys(), items())
KeyOfVal(v) == IF v.t = "str" THEN v.s ELSE <<-2>> \o IntToStr([sign |-> v.sign, digs |-> v.digs])
KeyText(k) == IF IsIntKey(k) THEN IntKeyText(k) ELSE k                      \* str(key)

RECURSIVE ValStr(_, _, _, _)
RECURSIVE JoinRepr(_, _, _, _, _)
RECURSIVE JoinDictRepr(_, _, _, _, _)
\* asRepr = TRUE: repr(), FALSE: str().  Result: cps or BadStr
ValStr(h, v, asRepr, fuel) ==
    IF fuel = 0 THEN BadStr
    ELSE CASE v.t = "none" -> cNone
           [] v.t = "bool" -> IF v.b THEN cTrue ELSE cFalse
           [] v.t = "dec" -> IF asRepr /\ ~v.sub THEN cDecOpen \o DecToStr(DRep(v)) \o cDecClose
                             ELSE DecToStr(DRep(v))
           [] v.t = "int" -> IntToStr(IRep(v))
           [] v.t = "float" -> v.repr
           [] v.t = "str" -> IF asRepr THEN StrRepr(v.s) ELSE v.s
           [] v.t = "list" -> LET inner == IF LenOf(h, v) > 2500 THEN BadStr ELSE JoinRepr(h, Items(h, v), 1, <<>>, fuel - 1) IN
                              IF IsBadStr(inner) THEN BadStr ELSE <<91>> \o inner \o <<93>>
           [] v.t = "tuple" -> LET inner == JoinRepr(h, v.items, 1, <<>>, fuel - 1) IN
                               IF IsBadStr(inner) THEN BadStr
                               ELSE IF Len(v.items) = 1 THEN <<40>> \o inner \o <<44, 41>>
                               ELSE <<40>> \o inner \o <<41>>
           [] v.t = "dict" -> LET inner == IF LenOf(h, v) > 2500 THEN BadStr ELSE JoinDictRepr(h, Items(h, v), 1, <<>>, fuel - 1) IN
                              IF IsBadStr(inner) THEN BadStr ELSE <<123>> \o inner \o <<125>>
           [] OTHER -> BadStr
JoinRepr(h, xs, i, acc, fuel) ==
    IF i > Len(xs) THEN acc
    ELSE LET r == ValStr(h, xs[i], TRUE, fuel) IN
         IF IsBadStr(r) THEN BadStr
         ELSE JoinRepr(h, xs, i + 1, IF i = 1 THEN r ELSE acc \o cCommaSp \o r, fuel)
JoinDictRepr(h, ps, i, acc, fuel) ==
    IF i > Len(ps) THEN acc
    ELSE LET rk == IF IsIntKey(ps[i][1]) THEN IntKeyText(ps[i][1]) ELSE StrRepr(ps[i][1])
             rv == ValStr(h, ps[i][2], TRUE, fuel) IN
         IF IsBadStr(rk) \/ IsBadStr(rv) THEN BadStr
         ELSE JoinDictRepr(h, ps, i + 1, (IF i = 1 THEN <<>> ELSE acc \o cCommaSp) \o rk \o cColonSp \o rv, fuel)

ToStr(h, v)  == ValStr(h, v, FALSE, Fuel)
ToRepr(h, v) == ValStr(h, v, TRUE, Fuel)

(***************************************************************************)
(* Reachability and deep copy (copy.deepcopy): lists, dicts and tuples are *)
(* copied with sharing preserved (memo); functions are shared.             *)
(***************************************************************************)
RECURSIVE DirectV(_)
\* addresses a value refers to directly (tuples are values, so their components count)
DirectV(v) == CASE v.t \in {"list", "dict"} -> {v.addr}
                [] v.t = "tuple" -> UNION {DirectV(v.items[i]) : i \in 1..Len(v.items)}
                [] OTHER -> {}
DirectObj(o) == IF o.t = "list" THEN UNION {DirectV(o.items[i]) : i \in 1..Len(o.items)}
                ELSE UNION {DirectV(o.items[i][2]) : i \in 1..Len(o.items)}
RECURSIVE Closure(_, _)
\* least fixpoint; no recursion over elements (containers can hold 10000 elements), cycles are harmless
Closure(h, S) == LET T == S \cup UNION {DirectObj(h[a]) : a \in S} IN IF T = S THEN S ELSE Closure(h, T)
Reach(h, v) == Closure(h, DirectV(v))

RECURSIVE AddrsToSeq(_)
AddrsToSeq(S) == IF S = {} THEN <<>> ELSE LET x == CHOOSE y \in S : \A z \in S : y <= z IN <<x>> \o AddrsToSeq(S \ {x})

RECURSIVE Remap(_, _)
\* rewrite references according to mp (function old addr -> new addr)
Remap(v, mp) ==
    CASE v.t \in {"list", "dict"} -> IF v.addr \in DOMAIN mp THEN [v EXCEPT !.addr = mp[v.addr]] ELSE v
      [] v.t = "tuple" -> [v EXCEPT !.items = [i \in 1..Len(v.items) |-> Remap(v.items[i], mp)]]
      [] OTHER -> v
RemapObj(o, mp) ==
    IF o.t = "list" THEN [o EXCEPT !.items = [i \in 1..Len(o.items) |-> Remap(o.items[i], mp)]]
    ELSE [o EXCEPT !.items = [i \in 1..Len(o.items) |-> <<o.items[i][1], Remap(o.items[i][2], mp)>>]]

\* returns [h |-> heap', v |-> copy]
DeepCopy(h, v) ==
    LET addrs == AddrsToSeq(Reach(h, v))
        n     == Len(addrs)
        mp    == [a \in {addrs[i] : i \in 1..n} |-> Len(h) + (CHOOSE i \in 1..n : addrs[i] = a)]
        newObjs == [i \in 1..n |-> RemapObj(h[addrs[i]], mp)]
    IN [h |-> h \o newObjs, v |-> Remap(v, mp)]

\* copy.deepcopy fails (TypeError) on some host objects - locks, generators, open files, views: the projection marks them
\* nocopy; a store of a value that contains one (at any depth) fails before anything is stored
IsNoCopy(x) == x.t = "opaque" /\ "nocopy" \in DOMAIN x /\ x.nocopy
RECURSIVE NoCopyV(_)
NoCopyV(v) == IsNoCopy(v) \/ (v.t = "tuple" /\ \E i \in 1..Len(v.items) : NoCopyV(v.items[i]))
ObjValues(o) == IF o.t = "list" THEN {o.items[i] : i \in 1..Len(o.items)} ELSE {o.items[i][2] : i \in 1..Len(o.items)}
HasNoCopy(h, v) == NoCopyV(v) \/ \E a \in Reach(h, v) : \E x \in ObjValues(h[a]) : NoCopyV(x)

\* a value contains something the specification cannot follow
RECURSIVE HasOpaque(_, _, _)
HasOpaque(h, v, fuel) ==
    IF fuel = 0 THEN TRUE
    ELSE CASE v.t = "opaque" -> TRUE
           [] v.t = "tuple" -> \E i \in 1..Len(v.items) : HasOpaque(h, v.items[i], fuel - 1)
           [] v.t = "list" -> \E i \in 1..LenOf(h, v) : HasOpaque(h, Items(h, v)[i], fuel - 1)
           [] v.t = "dict" -> \E i \in 1..LenOf(h, v) : HasOpaque(h, Items(h, v)[i][2], fuel - 1)
           [] OTHER -> FALSE

(***************************************************************************)
(* Plain data (property C02): the structural definition                    *)
(***************************************************************************)
RECURSIVE PlainV(_, _, _)
PlainV(h, v, fuel) ==
    IF fuel = 0 THEN TRUE
    ELSE CASE v.t \in {"none", "bool", "dec", "int", "float", "str", "lambda", "builtin"} -> TRUE
           [] v.t = "slice" -> TRUE
           [] v.t = "tuple" -> \A i \in 1..Len(v.items) : PlainV(h, v.items[i], fuel - 1)
           [] v.t = "list" -> \A i \in 1..LenOf(h, v) : PlainV(h, Items(h, v)[i], fuel - 1)
           [] v.t = "dict" -> \A i \in 1..LenOf(h, v) : PlainV(h, Items(h, v)[i][2], fuel - 1)
           [] OTHER -> FALSE       \* hostfn, opaque
Plain(h, v) == PlainV(h, v, Fuel)

(***************************************************************************)
(* Casts used by indexing                                                  *)
(***************************************************************************)
\* _dict_key_cast: str(key)
DictKeyCast(h, key) == ToStr(h, key)         \* cps or BadStr

\* int(x) as Python does for the values that can reach an index / slice bound:
\* result IntRep, or an exception / unspec record
RECURSIVE StripWs(_)
IsWs(c) == c \in {32, 9, 10, 13, 11, 12}
StripL(s) == IF Len(s) > 0 /\ IsWs(s[1]) THEN StripWs(Tail(s)) ELSE s
StripWs(s) == StripL(s)
RECURSIVE StripR(_)
StripR(s) == IF Len(s) > 0 /\ IsWs(s[Len(s)]) THEN StripR(SubSeq(s, 1, Len(s) - 1)) ELSE s
RECURSIVE StripZeros(_)
StripZeros(ds) == IF Len(ds) > 1 /\ ds[1] = 0 THEN StripZeros(Tail(ds)) ELSE ds
PyIntOfStr(s0) ==
    LET s  == StripR(StripL(s0))
        sg == IF Len(s) > 0 /\ s[1] = 45 THEN 1 ELSE 0
        body == IF Len(s) > 0 /\ s[1] \in {45, 43} THEN Tail(s) ELSE s
    IN IF Len(body) = 0 \/ \E i \in 1..Len(body) : body[i] < 48 \/ body[i] > 57
       THEN (IF \E i \in 1..Len(s0) : s0[i] > 127 \/ s0[i] = 95 THEN Unspec("int(str) exotic") ELSE OtherErr("ValueError"))
       ELSE LET ds == StripZeros([i \in 1..Len(body) |-> body[i] - 48]) IN
            [sign |-> IF ds = <<0>> THEN 0 ELSE sg, digs |-> ds]
PyInt(v) ==
    CASE v.t = "dec" -> LET r == DecToIntegral(DRep(v), "trunc") IN IF IsSig(r) THEN SigToExc(r) ELSE r
      [] v.t = "int" -> IRep(v)
      [] v.t = "bool" -> IRep(BoolInt(v))
      [] v.t = "float" -> LET r == DecToIntegral(v.dec, "trunc") IN IF IsSig(r) THEN SigToExc(r) ELSE r
      [] v.t = "str" -> PyIntOfStr(v.s)
      [] v.t = "opaque" -> Unspec("int(opaque)")
      [] OTHER -> TypeErr
IsIntRep(r) == "digs" \in DOMAIN r /\ ~("t" \in DOMAIN r)

\* _list_key_cast: Decimal -> int(key), everything else unchanged
ListKeyCast(key) ==
    IF key.t = "dec" THEN (LET r == PyInt(key) IN IF IsIntRep(r) THEN MkInt(r) ELSE r) ELSE key

=============================================================================
