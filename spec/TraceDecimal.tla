---------------------------- MODULE TraceDecimal ----------------------------
(***************************************************************************)
(* Conformance of SQDecimal against the real `decimal` module at prec 28.  *)
(* harness/decimal_conf.py writes a JSON array of cases                    *)
(*     {op, a, b?, nd?, n?, mode?, expect}                                 *)
(* computed with Python's decimal (default context) and runs this model    *)
(* with CASES_FILE in the environment.  One case = one initial state; the  *)
(* single Next step moves it to ph = 1, where the invariant evaluates the  *)
(* specification's operator and compares it with `expect` (this happens in *)
(* the worker threads, so -workers N parallelises).  Every mismatch prints *)
(* <<"MISMATCH", index, op, computed>> and violates the invariant.         *)
(***************************************************************************)
EXTENDS Integers, Sequences, TLC, Json, IOUtils, SQDecimal

VARIABLES i, ph

Cases == JsonDeserialize(IOEnv.CASES_FILE)
NCases == Len(Cases)
Prec == 28

Result(c) ==
  CASE c.op = "lit"      -> DecFromLiteral(c.a)
    [] c.op = "add"      -> DecAdd(c.a, c.b, Prec)
    [] c.op = "sub"      -> DecSub(c.a, c.b, Prec)
    [] c.op = "mul"      -> DecMul(c.a, c.b, Prec)
    [] c.op = "div"      -> DecDiv(c.a, c.b, Prec)
    [] c.op = "neg"      -> DecNeg(c.a, Prec)
    [] c.op = "plus"     -> DecPlus(c.a, Prec)
    [] c.op = "abs"      -> DecAbs(c.a, Prec)
    [] c.op = "cmp"      -> DecCmp(c.a, c.b)
    [] c.op = "eq"       -> DecEq(c.a, c.b)
    [] c.op = "iszero"   -> DecIsZero(c.a)
    [] c.op = "str"      -> DecToStr(c.a)
    [] c.op = "intstr"   -> IntToStr(c.a)
    [] c.op = "toint"    -> DecToIntegral(c.a, c.mode)
    [] c.op = "int2dec"  -> IntToDec(c.a)
    [] c.op = "quantize" -> DecQuantize(c.a, c.nd, Prec)
    [] c.op = "digits"   -> DecDigits(c.a)
    [] c.op = "smallnat" -> DecSmallNat(c.a)
    [] c.op = "pow"      -> DecPowEnvelope(c.a, c.n, c.expect, Prec)

Matches(c, res) ==
  IF c.op = "pow" THEN res = TRUE
  ELSE IF c.op = "toint" /\ IsSig(res)
  THEN \* "Huge": only the number of digits of the Python int is compared
       res.sig = "Huge" /\ ~IsSig(c.expect) /\ Len(c.expect.digs) = res.digits
  ELSE res = c.expect

CaseOK(k) ==
  LET c   == Cases[k]
      res == Result(c)
  IN \/ Matches(c, res)
     \/ PrintT(<<"MISMATCH", k, c.op, res>>) /\ FALSE

Init == i \in 1..NCases /\ ph = 0
Next == ph = 0 /\ ph' = 1 /\ i' = i
Conforms == ph = 1 => CaseOK(i)

=============================================================================
