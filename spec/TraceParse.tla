----------------------------- MODULE TraceParse -----------------------------
(***************************************************************************)
(* Direction B (code -> specification) for lexer, parser and list_names.   *)
(*                                                                         *)
(* harness/lexparse.py runs the REAL lexer / parser / list_names on        *)
(* generated texts and records what it observed as a JSON file             *)
(* (environment variable CASES_FILE):                                      *)
(*                                                                         *)
(*  { "deviations": [names], "base": [names],                              *)
(*    "extra": [ {cp, cls, s, dv}, ... ]      classes of non-ASCII chars   *)
(*    "cases": [ { "chars": [cp..],                                        *)
(*                 "toks": [ {type, text, val, lineno}, ... ],             *)
(*                 "lexerr": {t: "none"} | {t: "illegal", ch, pos},        *)
(*                 "lexres": {pos, lineno, paren},                         *)
(*                 "names": [[cp..], ...], "nameserr": 0|1,                *)
(*                 "parse": {ok: true, tree, look, residue}                *)
(*                        | {ok: false, kind, class, text, line, ch, look, residue} } ] } *)
(*                                                                         *)
(* Every record is validated against Lex / ParseTextD / ListNames / ErrMsg *)
(* -- one TLC state per record.  The verdict is total: "accepted" or       *)
(* "rejected" with the list of failing clauses, under the normative        *)
(* reading (D = base) and under the listed deviations (D = deviations);    *)
(* when only the latter accepts, `expl` names the smallest sets of         *)
(* deviations that make the specification agree with the observation.      *)
(* One self-delimiting JSON line per record is printed; the invariant      *)
(* Accepted fails on a record rejected under the listed deviations (run    *)
(* TLC with -continue to judge all records).                               *)
(***************************************************************************)
EXTENDS SQGrammar, Json, IOUtils

Input == JsonDeserialize(IOEnv.CASES_FILE)
Cases == Input.cases
NCases == Len(Cases)
InDeviations == Range(Input.deviations)
BaseDeviations == Range(Input.base)
Block == IF "block" \in DOMAIN Input THEN Input.block ELSE 64

ExtraFn == [c \in {Input.extra[j].cp : j \in DOMAIN Input.extra} |->
               LET j == CHOOSE j \in DOMAIN Input.extra : Input.extra[j].cp = c IN Input.extra[j]]
TraceExtraInfo(c) == ExtraFn[c]

VARIABLES idx, vd
vars == <<idx, vd>>

TokOK(st, ot) ==
    /\ st.type = ot.type
    /\ st.text = ot.text
    /\ IF st.type = "NUMBER" THEN NumVal(st.val) = ot.val ELSE st.val = ot.val

FirstBadTok(stoks, otoks) ==
    LET n == IF Len(stoks) < Len(otoks) THEN Len(stoks) ELSE Len(otoks)
        bad == {j \in 1..n : ~TokOK(stoks[j], otoks[j])}
    IN IF bad # {} THEN CHOOSE j \in bad : \A k \in bad : j <= k
       ELSE IF Len(stoks) # Len(otoks) THEN n + 1 ELSE 0

(* clauses about the lexer and list_names: independent of the deviation set *)
LexClauses(c, lx) ==
    LET bad == FirstBadTok(lx.toks, c.toks) IN
    (IF bad # 0 THEN <<"lex.tokens">> ELSE <<>>)
    \* internal observable (the lexer's own counter per token, as shipped before the line-number repair)
    \o (IF bad = 0 /\ \E j \in 1..Len(lx.toks) : lx.toks[j].ilineno # c.toks[j].lineno THEN <<"lex.lineno">> ELSE <<>>)
    \o (IF lx.err # c.lexerr.t THEN <<"lex.err">>
        ELSE IF lx.err = "illegal" /\ (lx.errch # c.lexerr.ch \/ lx.errpos # c.lexerr.pos) THEN <<"lex.errchar">>
        ELSE <<>>)
    \o (IF [pos |-> lx.pos, lineno |-> lx.lineno, paren |-> lx.paren] # c.lexres THEN <<"lex.residue">> ELSE <<>>)
    \o (IF NamesOf(lx.toks) # c.names THEN <<"names.list">> ELSE <<>>)
    \o (IF (lx.err = "illegal") # (c.nameserr = 1) THEN <<"names.err">> ELSE <<>>)

(* clauses about SqParser.parse under deviation set D *)
ParseClauses(c, lx, D) ==
    LET r == ParseLexedD(lx, D)
        o == c.parse IN
    IF r.ok # o.ok THEN <<"parse.accept">>
    ELSE IF r.ok THEN
        (IF r.tree # o.tree THEN <<"parse.tree">> ELSE <<>>)
        \o (IF ~NamesInTreeListed(lx.toks, r.tree) THEN <<"names.intree">> ELSE <<>>)
        \o (IF r.look # o.look THEN <<"parse.look">> ELSE <<>>)
        \o (IF r.residue # o.residue THEN <<"parse.residue">> ELSE <<>>)
    ELSE
        (IF r.kind # o.kind THEN <<"parse.kind">>
         ELSE (IF r.msg.class # o.class THEN <<"parse.class">> ELSE <<>>)
              \o (IF r.kind \in {"syntax", "reserved"} /\ r.msg.text # o.text THEN <<"parse.token">> ELSE <<>>)
              \o (IF r.kind = "syntax" /\ r.msg.line # o.line THEN <<"parse.line">> ELSE <<>>)
              \o (IF r.kind = "illegal" /\ r.msg.ch # o.ch THEN <<"parse.illegalchar">> ELSE <<>>))
        \o (IF r.look # o.look THEN <<"parse.look">> ELSE <<>>)
        \o (IF r.residue # o.residue THEN <<"parse.residue">> ELSE <<>>)

Candidates == InDeviations \ BaseDeviations
Explain(c, lx) ==
    LET one == {{x} : x \in {y \in Candidates : ParseClauses(c, lx, BaseDeviations \cup {y}) = <<>>}} IN
    IF one # {} THEN one
    ELSE LET two == {S \in SUBSET Candidates : Cardinality(S) = 2 /\ ParseClauses(c, lx, BaseDeviations \cup S) = <<>>} IN
         IF two # {} THEN two
         ELSE LET three == {S \in SUBSET Candidates : Cardinality(S) = 3
                                                        /\ ParseClauses(c, lx, BaseDeviations \cup S) = <<>>} IN
              IF three # {} THEN three ELSE {Candidates}      \* more than three needed: the listed set itself

Verdict(j) ==
    LET c == Cases[j]
        lx == Lex(c.chars)
        lc == LexClauses(c, lx)
        pn == ParseClauses(c, lx, BaseDeviations)
        pd == IF InDeviations = BaseDeviations THEN pn ELSE ParseClauses(c, lx, InDeviations)
        li == IF "want" \in DOMAIN c
              THEN (LET r == ParseLexedD(lx, BaseDeviations) IN r.ok /\ r.tree = c.want) ELSE TRUE
    IN [i |-> j,
        v |-> IF lc = <<>> /\ pd = <<>> THEN "accepted" ELSE "rejected",
        lex |-> lc, n |-> pn, d |-> pd,
        expl |-> IF pn # <<>> /\ pd = <<>> THEN Explain(c, lx) ELSE {},
        \* LayoutInv (C15) on the specification itself: the text was rendered from tree c.want
        layoutinv |-> li,
        spec |-> IF lc = <<>> /\ pn = <<>> /\ pd = <<>> /\ li
                 THEN [ok |-> TRUE]      \* what the specification expected, for the report
                 ELSE [toks |-> [k \in DOMAIN lx.toks |-> [type |-> lx.toks[k].type, text |-> lx.toks[k].text,
                                                         line |-> lx.toks[k].line, ilineno |-> lx.toks[k].ilineno]],
                       lexerr |-> lx.err,
                       n |-> ParseLexedD(lx, BaseDeviations), d |-> ParseLexedD(lx, InDeviations)]]

(* The initial states carry no verdict: all the work is done in Next, i.e. by the TLC worker threads *)
(* (parallel, and with the large thread stacks the recursive operators need on long texts).        *)
Init == /\ idx \in {b \in 0..(NCases - 1) : b % Block = 0}
        /\ vd = [i |-> 0, v |-> "init"]

Next == /\ idx < NCases
        /\ idx % Block # 0 \/ vd.v = "init"
        /\ idx' = idx + 1
        /\ vd' = Verdict(idx')

Spec == Init /\ [][Next]_vars

Emit == PrintT(ToJson(vd))
Accepted == vd.v \in {"accepted", "init"}

ASSUME InDeviations \subseteq AllDeviations /\ BaseDeviations \subseteq InDeviations
=============================================================================
