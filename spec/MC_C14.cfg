SPECIFICATION Spec
VIEW view
CONSTANT Deviations = {}
CONSTANT Cap = 10000
CONSTANT MaxOps = 3
INVARIANT Repr
INVARIANT Laws
INVARIANT SizeOk
INVARIANT Emit
CHECK_DEADLOCK FALSE
