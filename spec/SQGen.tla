-------------------------------- MODULE SQGen --------------------------------
(***************************************************************************)
(* Program generator: finite sets of syntax trees (CONVENTIONS.md format,  *)
(* without ids) over a parametric alphabet, and the preorder numbering     *)
(* that turns a tree into a VM tree.  Used by the MC_ models so that TLC   *)
(* itself quantifies over all small programs.                              *)
(***************************************************************************)
EXTENDS Integers, Sequences, FiniteSets

\* ---- node constructors ----
NVal(v)          == [k |-> "val", v |-> v]
NName(n)         == [k |-> "name", name |-> n]
NBin(op, a, b)   == [k |-> "bin", op |-> op, ch |-> <<a, b>>]
NUn(op, a)       == [k |-> "un", op |-> op, ch |-> <<a>>]
NAssign(n, e)    == [k |-> "assign", name |-> n, ch |-> <<e>>]
NShort(n, op, e) == [k |-> "short", name |-> n, op |-> op, ch |-> <<e>>]
NIf(c, a, b)     == [k |-> "if", ch |-> <<c, a, b>>]
NSlice(a, b, c)  == [k |-> "slice", ch |-> <<a, b, c>>]
NCall(f, args)   == [k |-> "call", name |-> f, ch |-> args]
NDict(kvs)       == [k |-> "dict", ch |-> kvs]
NLambda(ps, b)   == [k |-> "lambda", params |-> ps, ch |-> <<b>>]
NCode(lines)     == [k |-> "code", ch |-> lines]
NNoop            == [k |-> "noop"]

\* ---- literal values ----
VNone     == [t |-> "none"]
VBool(b)  == [t |-> "bool", b |-> b]
VNum(n)   == [t |-> "dec", sub |-> TRUE, sign |-> 0, digs |-> <<n>>, exp |-> 0]      \* one-digit literal
VStr(cps) == [t |-> "str", s |-> cps]

\* sugar
NList(args)      == NCall("list", args)
NIndex(c, i)     == NCall("__getitem__", <<c, i>>)
NSetItem(c, i, v) == NCall("__setitem__", <<c, i, v>>)
NSetOp(c, i, op, v) == NCall("__setitem_with_op__", <<c, i, NVal(VStr(op)), v>>)
NDel(c, i)       == NCall("__delitem__", <<c, i>>)

(***************************************************************************)
(* Preorder numbering                                                      *)
(***************************************************************************)
RECURSIVE Number(_, _)
RECURSIVE NumberSeq(_, _, _, _)
\* returns [t |-> numbered tree, n |-> next free id]
Number(t, start) ==
    IF "ch" \in DOMAIN t
    THEN LET r == NumberSeq(t.ch, 1, start + 1, <<>>) IN
         [t |-> [x \in DOMAIN t \cup {"id"} |-> IF x = "id" THEN start ELSE IF x = "ch" THEN r.s ELSE t[x]], n |-> r.n]
    ELSE [t |-> [x \in DOMAIN t \cup {"id"} |-> IF x = "id" THEN start ELSE t[x]], n |-> start + 1]
NumberSeq(ch, i, next, acc) ==
    IF i > Len(ch) THEN [s |-> acc, n |-> next]
    ELSE LET r == Number(ch[i], next) IN NumberSeq(ch, i + 1, r.n, Append(acc, r.t))

RECURSIVE Size(_)
RECURSIVE SumSizes(_, _)
Size(t) == IF "ch" \in DOMAIN t THEN 1 + SumSizes(t.ch, 1) ELSE 1
SumSizes(ch, i) == IF i > Len(ch) THEN 0 ELSE Size(ch[i]) + SumSizes(ch, i + 1)

\* all sequences of length <= n over S
RECURSIVE SeqsUpTo(_, _)
SeqsUpTo(S, n) == IF n = 0 THEN {<<>>} ELSE LET P == SeqsUpTo(S, n - 1) IN P \cup {Append(p, x) : p \in {q \in P : Len(q) = n - 1}, x \in S}

=============================================================================
