SPECIFICATION TSpec
CONSTANT Scripts = {}
CONSTANT Deviations = {}
INVARIANT Emit
CHECK_DEADLOCK FALSE
