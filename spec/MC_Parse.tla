------------------------------ MODULE MC_Parse ------------------------------
(***************************************************************************)
(* Direction A (specification -> code) for the parser.                     *)
(*                                                                         *)
(* TLC enumerates ALL strings of length <= maxlen over an alphabet of      *)
(* lexemes (several alphabet groups per run), renders each string to text  *)
(* (lexemes separated by one space), computes ParseTextD under the         *)
(* normative reading (D = {}) and under the deviation set in force, and    *)
(* prints one JSON line per string.  harness/lexparse.py runs the real     *)
(* SqParser.parse on the same text and compares.                           *)
(*                                                                         *)
(* Parameters come from the JSON file named by environment variable        *)
(* LEXPARSE_CFG (written by the harness):                                  *)
(*   { "deviations": [names],                                              *)
(*     "groups": [ { "maxlen": L, "prune": 0|1,                            *)
(*                   "alphabet": [[cp, ...], ...] }, ... ] }               *)
(* prune = 0: ALL strings up to the length.  prune = 1: a string whose     *)
(* parse already failed strictly inside it is still emitted but not        *)
(* extended (viable-prefix enumeration: every string in which the parser   *)
(* gets to look at the last token).                                        *)
(*                                                                         *)
(* One state per string; the successor relation appends one lexeme, so the *)
(* work parallelises over the TLC workers.                                 *)
(***************************************************************************)
EXTENDS SQGrammar, Json, IOUtils

Cfg == JsonDeserialize(IOEnv.LEXPARSE_CFG)
CfgDeviations == Range(Cfg.deviations)
Groups == Cfg.groups

MCExtraInfo(c) == [cls |-> "other", s |-> "?", dv |-> -1]

VARIABLES g, s, out
vars == <<g, s, out>>

RECURSIVE Render(_, _, _)
Render(alpha, str, i) ==
    IF i > Len(str) THEN <<>>
    ELSE IF i = 1 THEN alpha[str[i]] \o Render(alpha, str, i + 1)
    ELSE <<cSP>> \o alpha[str[i]] \o Render(alpha, str, i + 1)

Base == Deviations \cap {"ReservedNeedsLookahead"}     \* refinement the normative text allows (DESIGN 4/C16)
Candidates == Deviations \ Base

(* the smallest sets of listed deviations under which the specification yields result d *)
Explain(lx, d) ==
    LET one == {{x} : x \in {y \in Candidates : ParseLexedD(lx, Base \cup {y}) = d}} IN
    IF one # {} THEN one
    ELSE LET two == {S \in SUBSET Candidates : Cardinality(S) = 2 /\ ParseLexedD(lx, Base \cup S) = d} IN
         IF two # {} THEN two
         ELSE LET three == {S \in SUBSET Candidates : Cardinality(S) = 3 /\ ParseLexedD(lx, Base \cup S) = d} IN
              IF three # {} THEN three ELSE {Candidates}      \* more than three needed: the listed set itself

Result(gi, str) ==
    LET text == Render(Groups[gi].alphabet, str, 1)
        lx == Lex(text)
        n == ParseLexedD(lx, Base)
        d == ParseLexedD(lx, Deviations)
    IN [g |-> gi, s |-> str, ntok |-> Len(lx.toks), n |-> n, same |-> (n = d),
        d |-> IF n = d THEN [ok |-> TRUE] ELSE d,
        expl |-> IF n = d THEN {} ELSE Explain(lx, d),
        viable |-> n.look > Len(lx.toks) \/ d.look > Len(lx.toks)]

Init == /\ g \in DOMAIN Groups
        /\ s = <<>>
        /\ out = Result(g, <<>>)

Next == /\ Len(s) < Groups[g].maxlen
        /\ (Groups[g].prune = 0 \/ out.viable)
        /\ \E a \in DOMAIN Groups[g].alphabet :
              /\ s' = Append(s, a)
              /\ out' = Result(g, s')
        /\ UNCHANGED g

Spec == Init /\ [][Next]_vars

Emit == PrintT(ToJson(out))

(* the grammar constants, printed once; the harness compares them with the p_*.__doc__ strings, the    *)
(* precedence table, the lexer's master-regex order and the generated LALR table of the tree under test *)
ASSUME PrintT(ToJson([constants |-> "SQGrammar", productions |-> Productions, precedence |-> Precedence,
                      ruleorder |-> RuleOrder, reservedFollow |-> ReservedFollow, keywords |-> {<<StrOf(kw), Keywords[kw]>> : kw \in DOMAIN Keywords},
                      noAttrAccess |-> NoAttrAccess]))

(* static checks on the grammar constants, evaluated once *)
ASSUME NoAttrAccess
ASSUME Deviations \subseteq AllDeviations
=============================================================================
