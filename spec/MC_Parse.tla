------------------------------ MODULE MC_Parse ------------------------------
(***************************************************************************)
(* Direction A (specification -> code) for the parser.                     *)
(*                                                                         *)
(* TLC enumerates ALL strings of length <= maxlen over an alphabet of      *)
(* lexemes (several alphabet groups per run), renders each string to text  *)
(* (lexemes separated by one space), computes ParseTextD under the         *)
(* normative reading (D = {}) and under the deviation set in force, and    *)
(* prints one JSON line per string.  harness/lexparse.py runs the real     *)
(* SqParser.parse on the same text and compares.                           *)
(*                                                                         *)
(* Parameters come from the JSON file named by environment variable        *)
(* LEXPARSE_CFG (written by the harness):                                  *)
(*   { "deviations": [names], "prune": 0|1,                                *)
(*     "groups": [ { "maxlen": L, "alphabet": [[cp, ...], ...] }, ... ] }  *)
(* prune = 1: a string whose parse already failed strictly inside it is    *)
(* still emitted but not extended (viable-prefix enumeration).             *)
(*                                                                         *)
(* One state per string; the successor relation appends one lexeme, so the *)
(* work parallelises over the TLC workers.                                 *)
(***************************************************************************)
EXTENDS SQGrammar, Json, IOUtils

Cfg == JsonDeserialize(IOEnv.LEXPARSE_CFG)
CfgDeviations == Range(Cfg.deviations)
Groups == Cfg.groups
Prune == Cfg.prune = 1

MCExtraInfo(c) == [cls |-> "other", s |-> "?", dv |-> -1]

VARIABLES g, s, out
vars == <<g, s, out>>

RECURSIVE Render(_, _, _)
Render(alpha, str, i) ==
    IF i > Len(str) THEN <<>>
    ELSE IF i = 1 THEN alpha[str[i]] \o Render(alpha, str, i + 1)
    ELSE <<cSP>> \o alpha[str[i]] \o Render(alpha, str, i + 1)

Result(gi, str) ==
    LET text == Render(Groups[gi].alphabet, str, 1)
        lx == Lex(text)
        n == ParseLexedD(lx, {})
        d == ParseLexedD(lx, Deviations)
    IN [g |-> gi, s |-> str, ntok |-> Len(lx.toks), n |-> n, same |-> (n = d),
        d |-> IF n = d THEN [ok |-> TRUE] ELSE d,
        viable |-> n.look > Len(lx.toks) \/ d.look > Len(lx.toks)]

Init == /\ g \in DOMAIN Groups
        /\ s = <<>>
        /\ out = Result(g, <<>>)

Next == /\ Len(s) < Groups[g].maxlen
        /\ (~Prune \/ out.viable)
        /\ \E a \in DOMAIN Groups[g].alphabet :
              /\ s' = Append(s, a)
              /\ out' = Result(g, s')
        /\ UNCHANGED g

Spec == Init /\ [][Next]_vars

Emit == PrintT(ToJson(out))

(* static checks on the grammar constants, evaluated once *)
ASSUME NoAttrAccess
ASSUME Deviations \subseteq AllDeviations
=============================================================================
