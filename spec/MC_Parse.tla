------------------------------ MODULE MC_Parse ------------------------------
(***************************************************************************)
(* Direction A (specification -> code) for the parser.                     *)
(*                                                                         *)
(* TLC enumerates ALL strings of length <= maxlen over an alphabet of      *)
(* lexemes (several alphabet groups per run), renders each string to text  *)
(* (lexemes separated by one space), computes ParseTextD under the         *)
(* normative reading (D = {}) and under the deviation set in force, and    *)
(* prints one JSON line per string.  harness/lexparse.py runs the real     *)
(* SqParser.parse on the same text and compares.                           *)
(*                                                                         *)
(* Parameters come from the JSON file named by environment variable        *)
(* LEXPARSE_CFG (written by the harness):                                  *)
(*   { "deviations": [names],                                              *)
(*     "groups": [ { "maxlen": L, "prune": 0|1,                            *)
(*                   "alphabet": [[cp, ...], ...] }, ... ] }               *)
(* prune = 0: ALL strings up to the length.  prune = 1: a string whose     *)
(* parse already failed strictly inside it is still emitted but not        *)
(* extended (viable-prefix enumeration: every string in which the parser   *)
(* gets to look at the last token).                                        *)
(*                                                                         *)
(* One state per string; the successor relation appends one lexeme, so the *)
(* work parallelises over the TLC workers.                                 *)
(***************************************************************************)
EXTENDS SQGrammar, Json, IOUtils

Cfg == JsonDeserialize(IOEnv.LEXPARSE_CFG)
CfgDeviations == Range(Cfg.deviations)
Groups == Cfg.groups

MCExtraInfo(c) == [cls |-> "other", s |-> "?", dv |-> -1]

VARIABLES g, s, out
vars == <<g, s, out>>

RECURSIVE Render(_, _, _)
Render(alpha, str, i) ==
    IF i > Len(str) THEN <<>>
    ELSE IF i = 1 THEN alpha[str[i]] \o Render(alpha, str, i + 1)
    ELSE <<cSP>> \o alpha[str[i]] \o Render(alpha, str, i + 1)

Base == Deviations \cap {"ReservedNeedsLookahead"}     \* refinement the normative text allows (DESIGN 4/C16)
Candidates == Deviations \ Base

(* the smallest sets of listed deviations under which the specification yields result d *)
Explain(lx, d) ==
    LET one == {{x} : x \in {y \in Candidates : ParseLexedD(lx, Base \cup {y}) = d}} IN
    IF one # {} THEN one
    ELSE LET two == {S \in SUBSET Candidates : Cardinality(S) = 2 /\ ParseLexedD(lx, Base \cup S) = d} IN
         IF two # {} THEN two
         ELSE LET three == {S \in SUBSET Candidates : Cardinality(S) = 3 /\ ParseLexedD(lx, Base \cup S) = d} IN
              IF three # {} THEN three ELSE {Candidates}      \* more than three needed: the listed set itself

Result(gi, str) ==
    LET text == Render(Groups[gi].alphabet, str, 1)
        lx == Lex(text)
        n == ParseLexedD(lx, Base)
        d == ParseLexedD(lx, Deviations)
    IN [g |-> gi, s |-> str, ntok |-> Len(lx.toks), n |-> n, same |-> (n = d),
        d |-> IF n = d THEN [ok |-> TRUE] ELSE d,
        expl |-> IF n = d THEN {} ELSE Explain(lx, d),
        \* physical line of the token a syntax error of the deviating model points at (for InvC20)
        dphys |-> IF ~d.ok /\ d.kind = "syntax" THEN lx.toks[d.at].line ELSE 0,
        viable |-> n.look > Len(lx.toks) \/ d.look > Len(lx.toks)]

Init == /\ g \in DOMAIN Groups
        /\ s = <<>>
        /\ out = Result(g, <<>>)

Next == /\ Len(s) < Groups[g].maxlen
        /\ (Groups[g].prune = 0 \/ out.viable)
        /\ \E a \in DOMAIN Groups[g].alphabet :
              /\ s' = Append(s, a)
              /\ out' = Result(g, s')
        /\ UNCHANGED g

Spec == Init /\ [][Next]_vars

Emit == PrintT(ToJson(out))

---------------------------------------------------------------------------
(* The properties as invariants of the model WITH the listed deviations (cfg MCD_Parse.cfg).  They hold  *)
(* for Deviations = {} and TLC must find a violation for every deviation that is switched on            *)
(* (non-vacuity of each property).                                                                       *)
DRes == IF out.same THEN out.n ELSE out.d

(* C06: accepted iff derived, and the tree the table dictates (the normative reading is the reference) *)
InvC06 == /\ DRes.ok = out.n.ok
          /\ DRes.ok => DRes.tree = out.n.tree
          /\ (~DRes.ok /\ DRes.kind \in {"syntax", "eof"}) => DRes.at = out.n.at

(* C16: every rejection is a ParserError *)
InvC16 == ~DRes.ok => DRes.msg.class = "ParserError"

(* C20: a syntax error names the physical line of the offending token *)
InvC20 == (~DRes.ok /\ DRes.kind = "syntax") => DRes.msg.line = out.dphys

(* C15: a trailing comma after the last argument / element / entry is insignificant.  For every COMMA     *)
(* directly before a closing bracket of an argument list, list literal or dict literal: if the string     *)
(* without that comma is accepted, the string with it is accepted with the same tree.                     *)
Openers == {"LPAREN", "LBRACKET", "LBRACE"}
ClosersT == {"RPAREN", "RBRACKET", "RBRACE"}
ExprEnd == {"NAME", "NUMBER", "STRING", "TRUE", "FALSE", "NONE"} \cup ClosersT
RECURSIVE FindOpen(_, _, _)
FindOpen(ty, j, depth) ==
    IF j < 1 THEN 0
    ELSE IF ty[j] \in ClosersT THEN FindOpen(ty, j - 1, depth + 1)
    ELSE IF ty[j] \in Openers THEN (IF depth = 0 THEN j ELSE FindOpen(ty, j - 1, depth - 1))
    ELSE FindOpen(ty, j - 1, depth)
InvC15 ==
    LET alpha == Groups[g].alphabet
        toks == Lex(Render(alpha, s, 1)).toks
        ty == [q \in DOMAIN toks |-> toks[q].type]
        trailing(q) ==          \* token q is a COMMA in trailing position of an argument list / list / dict
            /\ q > 1 /\ q < Len(ty) /\ ty[q] = "COMMA" /\ ty[q + 1] \in ClosersT /\ ty[q - 1] \in ExprEnd
            /\ LET o == FindOpen(ty, q - 1, 0) IN
               /\ o > 0
               /\ ty[q + 1] = "RPAREN" => (ty[o] = "LPAREN" /\ o > 1 /\ ty[o - 1] = "NAME")
               /\ ty[q + 1] = "RBRACKET" => (ty[o] = "LBRACKET" /\ (o = 1 \/ ty[o - 1] \notin ExprEnd))
               /\ ty[q + 1] = "RBRACE" => ty[o] = "LBRACE"
    IN Len(toks) = Len(s) =>
       \A q \in DOMAIN ty :
          trailing(q) =>
             LET s2 == SubSeq(s, 1, q - 1) \o SubSeq(s, q + 1, Len(s))
                 r2 == ParseLexedD(Lex(Render(alpha, s2, 1)), Deviations) IN
             r2.ok => (DRes.ok /\ DRes.tree = r2.tree)

(* the grammar constants, printed once; the harness compares them with the p_*.__doc__ strings, the    *)
(* precedence table, the lexer's master-regex order and the generated LALR table of the tree under test *)
ASSUME PrintT(ToJson([constants |-> "SQGrammar", productions |-> Productions, precedence |-> Precedence,
                      ruleorder |-> RuleOrder, reservedFollow |-> ReservedFollow, keywords |-> {<<StrOf(kw), Keywords[kw]>> : kw \in DOMAIN Keywords},
                      noAttrAccess |-> NoAttrAccess]))

(* static checks on the grammar constants, evaluated once *)
ASSUME NoAttrAccess
ASSUME Deviations \subseteq AllDeviations
=============================================================================
