------------------------------- MODULE SQRepl -------------------------------
(***************************************************************************)
(* The interactive loop of smartquery/repl.py as a state machine.          *)
(*                                                                         *)
(*   session = PromptSession(); parser = SqParser(); names = {}            *)
(*   loop: expr = session.prompt(">>> ")     KeyboardInterrupt: print an   *)
(*                                           empty line, return 0          *)
(*         empty expr: back to the prompt                                  *)
(*         res = parser.eval(expr, names)    default budget, ONE names     *)
(*                                           mapping for the whole session *)
(*         res not None: print repr(res)                                   *)
(*         Exception e:  print repr(e)       and carry on                  *)
(*                                                                         *)
(* What one evaluation does is the business of SQVM (every line of a       *)
(* recorded session is validated by TraceVM as one call of a multi-call    *)
(* scenario over the same names mapping, including the printed text:       *)
(* clause PrintedP there).  This module specifies the loop around it: what *)
(* is read, when the evaluator is entered, how many lines are printed,     *)
(* what ends the session.  The evaluator is abstracted to the kind of its  *)
(* outcome.  Two ways out exist that the code does not handle and the      *)
(* specification names as such: end of input at the prompt (EOFError       *)
(* escapes) and a non-Exception raised by the evaluator (escapes).         *)
(***************************************************************************)
EXTENDS Integers, Sequences, FiniteSets, TLC

CONSTANTS Scripts,       \* set of input scripts; a script is a sequence of Items
          Deviations     \* specification mutants (non-vacuity): "MutExitOnError", "MutFreshNames", "MutEvalEmpty"

Dev(d) == d \in Deviations

\* what the prompt delivers: a line (empty or not; a non-empty line has the kind of outcome its evaluation
\* will have), an interrupt, or the end of the input
Items == [t : {"line"}, empty : {TRUE}, res : {"-"}]
         \cup [t : {"line"}, empty : {FALSE}, res : {"none", "value", "exception", "base"}]
         \cup {[t |-> "interrupt", empty |-> FALSE, res |-> "-"], [t |-> "eof", empty |-> FALSE, res |-> "-"]}
DefaultBudget == 100

VARIABLES script,    \* the script being played
          pos,       \* items consumed so far
          phase,     \* "start" | "prompt" | "eval" | "exited" | "crashed"
          out,       \* printed lines so far: "blank" | "repr(value)" | "repr(exception)"
          evals,     \* history of evaluator entries: [item index, names id, budget]
          namesId,   \* identity of the names mapping handed to the evaluator
          code,      \* exit code / escaping exception once the loop is left
          ev         \* the observable event of the last step (trace validation)
vars == <<script, pos, phase, out, evals, namesId, code, ev>>

Init == /\ script \in Scripts /\ pos = 0 /\ phase = "start" /\ out = <<>> /\ evals = <<>> /\ namesId = 1
        /\ code = "-" /\ ev = [e |-> "init"]

\* construct the session, the parser and the ONE names mapping
Start == /\ phase = "start" /\ phase' = "prompt" /\ ev' = [e |-> "start"]
         /\ UNCHANGED <<script, pos, out, evals, namesId, code>>

Cur == IF pos < Len(script) THEN script[pos + 1] ELSE [t |-> "eof", empty |-> FALSE, res |-> "-"]

\* session.prompt() returns a line
ReadLine == /\ phase = "prompt" /\ Cur.t = "line"
            /\ pos' = pos + 1
            /\ phase' = IF Cur.empty /\ ~Dev("MutEvalEmpty") THEN "prompt" ELSE "eval"
            /\ ev' = [e |-> "read", empty |-> Cur.empty]
            /\ UNCHANGED <<script, out, evals, namesId, code>>

\* Ctrl-C at the prompt: an empty line is printed and the loop returns 0
Interrupt == /\ phase = "prompt" /\ Cur.t = "interrupt"
             /\ pos' = pos + 1 /\ out' = Append(out, "blank") /\ phase' = "exited" /\ code' = "0"
             /\ ev' = [e |-> "interrupt"]
             /\ UNCHANGED <<script, evals, namesId>>

\* end of input at the prompt: EOFError is not handled by the loop (named deviation of the code from a
\* tidy exit; kept because it is what the code does)
EndOfInput == /\ phase = "prompt" /\ Cur.t = "eof"
              /\ pos' = IF pos < Len(script) THEN pos + 1 ELSE pos
              /\ phase' = "crashed" /\ code' = "EOFError" /\ ev' = [e |-> "eof"]
              /\ UNCHANGED <<script, out, evals, namesId>>

\* parser.eval(expr, names): entered with the session's names mapping and the default budget
Item == script[pos]
Eval == /\ phase = "eval"
        /\ LET nid == IF Dev("MutFreshNames") THEN namesId + 1 ELSE namesId
               res == IF Item.empty THEN "none" ELSE Item.res IN
           /\ namesId' = nid
           /\ evals' = Append(evals, [item |-> pos, names |-> nid, budget |-> DefaultBudget])
           /\ CASE res = "none" -> out' = out /\ phase' = "prompt" /\ code' = code
                [] res = "value" -> out' = Append(out, "repr(value)") /\ phase' = "prompt" /\ code' = code
                [] res = "exception" -> /\ out' = Append(out, "repr(exception)")
                                        /\ phase' = IF Dev("MutExitOnError") THEN "crashed" ELSE "prompt"
                                        /\ code' = IF Dev("MutExitOnError") THEN "Exception" ELSE code
                [] res = "base" -> out' = out /\ phase' = "crashed" /\ code' = "BaseException"
           /\ ev' = [e |-> "eval", res |-> res, names |-> nid, budget |-> DefaultBudget,
                     printed |-> Len(out') - Len(out)]
        /\ UNCHANGED <<script, pos>>

Next == Start \/ ReadLine \/ Interrupt \/ EndOfInput \/ Eval
Spec == Init /\ [][Next]_vars /\ WF_vars(Next)

(***************************************************************************)
(* Properties of the loop                                                  *)
(***************************************************************************)
Consumed == SubSeq(script, 1, pos)
NonEmptyLines == {i \in 1..pos : script[i].t = "line" /\ ~script[i].empty}

TypeOK == /\ pos \in 0..Len(script) /\ phase \in {"start", "prompt", "eval", "exited", "crashed"}
          /\ code \in {"-", "0", "EOFError", "BaseException", "Exception"}

\* the loop survives every ordinary Exception of the evaluator: it is left only by an interrupt at the prompt
\* (exit code 0), by the end of the input, or by a non-Exception escaping from the evaluator
Survives == /\ (phase = "exited" => code = "0" /\ script[pos].t = "interrupt")
            /\ (phase = "crashed" => \/ (code = "EOFError" /\ (pos = Len(script) \/ script[pos].t = "eof"))
                                     \/ (code = "BaseException" /\ script[pos].res = "base"))
            /\ (phase \in {"start", "prompt", "eval"} => code = "-")

\* the evaluator is entered exactly once per non-empty line, in order, never for an empty one
EvalsAreLines == /\ Len(evals) \in {Cardinality(NonEmptyLines), Cardinality(NonEmptyLines) - 1}
                 /\ (phase # "eval" => Len(evals) = Cardinality(NonEmptyLines))
                 /\ \A i \in 1..Len(evals) : evals[i].item \in NonEmptyLines
                 /\ \A i, j \in 1..Len(evals) : i < j => evals[i].item < evals[j].item

\* one names mapping for the whole session, the default budget for every line
OneNames == \A i \in 1..Len(evals) : evals[i].names = 1 /\ evals[i].budget = DefaultBudget

\* printed lines: one per line whose evaluation gave a value or raised, none for None / empty lines, one blank at the interrupt
PrintedCount ==
    LET printing == {i \in 1..Len(evals) : script[evals[i].item].res \in {"value", "exception"}} IN
    Len(out) = Cardinality(printing) + (IF phase = "exited" THEN 1 ELSE 0)

\* every script is played to its end or to the step that leaves the loop
Done == phase \in {"exited", "crashed"}
Termination == <>Done
=============================================================================
