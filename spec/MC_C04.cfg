SPECIFICATION Spec
CONSTANT Deviations = {}
CONSTANT Cap = 10000
CONSTANT Scenarios <- AllScenarios
CONSTANT ScCalls <- C04Calls
CONSTANT ScHost <- C04Host
CONSTANT ScNames0 <- C04Names0
CONSTANT ScHeap0 <- C04Heap0
CONSTANT ScBound <- C04Bound
CONSTANT KeepHist = FALSE
INVARIANT DigitBound
INVARIANT NoRepeat
INVARIANT ScopeBalance
INVARIANT Terminates
INVARIANT Emit
CHECK_DEADLOCK FALSE
