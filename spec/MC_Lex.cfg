CONSTANTS
  ExtraInfo <- MCExtraInfo
INIT Init
NEXT Next
INVARIANT Emit
INVARIANT TokensWellFormed
CHECK_DEADLOCK FALSE
