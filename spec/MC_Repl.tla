------------------------------- MODULE MC_Repl -------------------------------
(***************************************************************************)
(* All input scripts of at most MaxLen items for the loop of SQRepl.       *)
(* Emit prints every finished behaviour (script, printed lines, evaluator  *)
(* entries, way out) for the replay into smartquery/repl.py.               *)
(***************************************************************************)
EXTENDS SQRepl, Json

CONSTANT MaxLen
AllScripts == UNION {[1..n -> Items] : n \in 0..MaxLen}

Emit == ~Done \/ PrintT(ToJson([script |-> script, out |-> out, evals |-> evals, phase |-> phase, code |-> code, pos |-> pos]))
=============================================================================
