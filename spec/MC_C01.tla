------------------------------- MODULE MC_C01 -------------------------------
(***************************************************************************)
(* Scenario space for property C01 (and the generic VM invariants): every  *)
(* node kind, lambdas driven by map/filter/reduce/sorted and by host       *)
(* callbacks (propagating and swallowing), recursion through a name,       *)
(* two-call histories sharing one names mapping - each under every budget  *)
(* N in 1..MaxN.                                                           *)
(***************************************************************************)
EXTENDS MCVM

CONSTANTS MaxN, Tier      \* Tier = "quick" | "thorough"

HInt(n) == [t |-> "int", sign |-> 0, digs |-> <<n>>]
HostFn(n) == [t |-> "hostfn", name |-> n]
cA == <<97>>

\* host bindings: x = 1, l = [1, 0, 2] (address 1), d = {"a": 1} (address 2), probe t1, callbacks
Heap0 == << [t |-> "list", items |-> <<HInt(1), HInt(0), HInt(2)>>],
            [t |-> "dict", items |-> << <<cA, HInt(1)>> >>] >>
Names0(mode) == [n1 |-> [x |-> HInt(1), l |-> [t |-> "list", addr |-> 1], d |-> [t |-> "dict", addr |-> 2],
                         t1 |-> HostFn("t1"), hcall |-> HostFn("hcall")]]
Host(mode, praise) == [t1 |-> [h |-> "probe", ret |-> HInt(1), raises |-> praise],
                       hcall |-> [h |-> "call", mode |-> mode]]

One == NVal(VNum(1))
Zero == NVal(VNum(0))
X == NName("x")
L == NName("l")
D == NName("d")
T1 == NCall("t1", <<>>)

Lv == {One, Zero, NVal(VNone), X, T1}
Lv2 == {One, X, T1}
Expr1 ==
    Lv
    \cup {NBin(o, a, b) : o \in {"+", "and", "or", "<"}, a \in Lv, b \in Lv2}
    \cup {NUn(o, a) : o \in {"-", "not"}, a \in Lv2}
    \cup {NIf(c, a, b) : c \in {Zero, T1, X}, a \in Lv2, b \in Lv2}
    \cup {NList(<<a, b>>) : a \in Lv2, b \in Lv2}
    \cup {NList(<<>>), NDict(<<>>)}
    \cup {NDict(<<NVal(VStr(cA)), a>>) : a \in Lv2}
    \cup {NIndex(L, a) : a \in {Zero, One, T1, NVal(VNum(7))}}
    \cup {NIndex(D, NVal(VStr(cA))), NIndex(D, One)}
    \cup {NIndex(L, NSlice(a, NVal(VNone), NVal(VNone))) : a \in Lv2}
    \cup {NCall("len", <<L>>), NCall("len", <<>>), NCall("nosuch", <<One>>), NCall("push", <<L, T1>>), NCall("pop", <<L>>)}
    \cup {NName("undefined")}
Stmts1 ==
    Expr1
    \cup {NAssign("x", e) : e \in Lv \cup {L}}
    \cup {NShort("x", o, e) : o \in {"+=", "*="}, e \in Lv2}
    \cup {NShort("u", "+=", One)}
    \cup {NSetItem(L, Zero, e) : e \in Lv2}
    \cup {NSetOp(L, Zero, <<43, 61>>, e) : e \in Lv2}
    \cup {NSetItem(D, NVal(VStr(cA)), T1), NDel(L, Zero), NDel(D, T1), NNoop}

P == NName("p")
Q == NName("q")
LBody == {P, NBin("+", P, One), T1, NBin("+", P, X), NIf(P, T1, Zero)}
Lam1 == {NLambda(<<"p">>, b) : b \in LBody}
Lam2 == {NLambda(<<"p", "q">>, b) : b \in {NBin("+", P, Q), T1, Q}}
HoExpr ==
    {NCall(h, <<L, lam>>) : h \in {"map", "filter"}, lam \in Lam1}
    \cup {NCall("reduce", <<L, lam>>) : lam \in Lam2}
    \cup {NCall("sorted", <<L, lam>>) : lam \in Lam1}
    \cup {NCall("map", <<D, lam>>) : lam \in Lam2}
    \cup {NCall("hcall", <<lam, One>>) : lam \in Lam1}
    \cup {NCall("hcall", <<NLambda(<<"p">>, NCall("map", <<L, NLambda(<<"q">>, T1)>>)), One>>)}
    \cup {NCall("map", <<L, NName("len")>>), NCall("map", <<NList(<<L, L>>), NName("len")>>), NCall("map", <<L, NName("t1")>>)}
Rec == NLambda(<<"p">>, NIf(NBin("<", P, One), Zero, NCall("f", <<NBin("-", P, One)>>)))
Progs ==
    {NCode(<<s>>) : s \in Stmts1}
    \cup {NCode(<<s1, s2>>) : s1 \in {NAssign("x", L), NAssign("y", T1), NNoop}, s2 \in Stmts1}
    \cup {NCode(<<e>>) : e \in HoExpr}
    \cup {NCode(<<NAssign("f", lam), NCall("f", <<a>>)>>) : lam \in Lam1, a \in {One, T1}}
    \cup {NCode(<<NAssign("f", Rec), NCall("f", <<a>>)>>) : a \in {Zero, One, NVal(VNum(2))}}
    \cup {NCode(<<NCall("hcall", <<NLambda(<<"p">>, NCode(<<>>)), One>>), T1>>)}

QuickProgs == {p \in Progs : Size(p) <= 9}

\* constant tables (evaluated once): numbered trees
ProgSeq == SetToSeq(IF Tier = "quick" THEN QuickProgs ELSE Progs)
ProgTree == [i \in 1..Len(ProgSeq) |-> Number(ProgSeq[i], 1).t]
HoSeq == SetToSeq({NCode(<<e>>) : e \in HoExpr})
HoTree == [i \in 1..Len(HoSeq) |-> Number(HoSeq[i], 1).t]
LamSeq == SetToSeq(Lam1)
\* two-call histories: the first call defines f, the second uses it
Call2Seq == <<NCode(<<NCall("f", <<One>>)>>), NCode(<<NCall("map", <<L, NName("f")>>)>>), NCode(<<T1, NCall("f", <<Zero>>)>>)>>
HistTrees == [li \in 1..Len(LamSeq) |-> [ci \in 1..Len(Call2Seq) |->
                LET t1 == Number(NCode(<<NAssign("f", LamSeq[li])>>), 1)
                    t2 == Number(Call2Seq[ci], t1.n) IN <<t1.t, t2.t>>]]

Budgets == (1..MaxN) \cup {Unlimited}
Single == [kind : {"single"}, pi : 1..Len(ProgSeq), n : Budgets, mode : {"propagate", "swallow"}, praise : {FALSE}]
Praise == [kind : {"ho"}, pi : 1..Len(HoSeq), n : {4, 6, 9, Unlimited}, mode : {"swallow"}, praise : {TRUE}]
Hist == [kind : {"hist"}, li : 1..Len(LamSeq), ci : 1..Len(Call2Seq), n : {2, 3, 4, 100}, n2 : {2, 4, 6, 9, 100},
         mode : {"propagate", "swallow"}, praise : {FALSE}]
AllScenarios == Single \cup Praise \cup Hist

Call1(t, n) == [tree |-> t, nid |-> "n1", max |-> n, ast |-> <<>>]
C01Calls(s) == CASE s.kind = "single" -> <<Call1(ProgTree[s.pi], s.n)>>
                 [] s.kind = "ho" -> <<Call1(HoTree[s.pi], s.n)>>
                 [] s.kind = "hist" -> <<Call1(HistTrees[s.li][s.ci][1], s.n), Call1(HistTrees[s.li][s.ci][2], s.n2)>>
C01Host(s) == Host(s.mode, s.praise)
C01Names0(s) == Names0(s.mode)
C01Heap0(s) == Heap0
C01Bound(s) == Cap
=============================================================================
