SPECIFICATION Spec
CONSTANT Deviations = {}
CONSTANT Cap = 10000
INVARIANT Consequences
INVARIANT Emit
CHECK_DEADLOCK FALSE
