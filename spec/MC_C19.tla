------------------------------- MODULE MC_C19 -------------------------------
(***************************************************************************)
(* Property C19: the random builtins stay within their documented range.   *)
(* rand / shuffle are nondeterministic actions of the specification: the   *)
(* behaviours branch over every candidate result, including candidates     *)
(* just outside the envelope, which the specification must refuse          *)
(* (control state "badoracle"); accepted draws must keep programs that     *)
(* rely on the range free of range errors.                                 *)
(***************************************************************************)
EXTENDS SQVM, SQGen, TLC, Json

VARIABLES sc, m
vars == <<sc, m>>

HInt(n) == [t |-> "int", sign |-> 0, digs |-> <<n>>]
Num(n) == NVal(VNum(n))
L == NName("l")
Heap0 == << [t |-> "list", items |-> <<HInt(5), HInt(6), HInt(5)>>], [t |-> "list", items |-> <<>>] >>
Names0 == [n1 |-> [l |-> [t |-> "list", addr |-> 1], e |-> [t |-> "list", addr |-> 2], k |-> HInt(2)]]

Progs == <<
    NCode(<<NIndex(L, NCall("rand", <<Num(0), Num(2)>>))>>),                              \* index drawn in range never fails
    NCode(<<NIndex(L, NCall("rand", <<Num(0), NBin("-", NCall("len", <<L>>), Num(1))>>))>>),
    NCode(<<NCall("rand", <<Num(1), Num(1)>>)>>),
    NCode(<<NCall("rand", <<NUn("-", Num(2)), Num(1)>>)>>),
    NCode(<<NCall("rand", <<NName("k"), NName("k")>>)>>),                                 \* host int bounds
    NCode(<<NCall("rand", <<Num(0), NName("k")>>)>>),
    NCode(<<NCall("rand", <<L>>)>>),
    NCode(<<NCall("rand", <<NName("e")>>)>>),                                             \* empty list
    NCode(<<NAssign("s", NCall("shuffle", <<L>>)), NBin("==", NCall("sorted", <<NName("s")>>), NCall("sorted", <<L>>))>>),
    NCode(<<NCall("len", <<NCall("shuffle", <<L>>)>>)>>),
    NCode(<<NCall("push", <<NCall("shuffle", <<L>>), Num(1)>>), NCall("len", <<L>>)>>),   \* the result is a new list
    NCode(<<NCall("rand", <<>>)>>),
    NCode(<<NCall("rand", <<Num(1), Num(2), Num(3)>>)>>) >>
Trees == [i \in 1..Len(Progs) |-> Number(Progs[i], 1).t]
Calls(s) == <<[tree |-> Trees[s], nid |-> "n1", max |-> 100, ast |-> <<>>]>>
NoHost == [z \in {} |-> 0]

DecN(n) == [t |-> "dec", sub |-> TRUE, sign |-> IF n < 0 THEN 1 ELSE 0, digs |-> <<IF n < 0 THEN -n ELSE n>>, exp |-> 0]
Perms3(xs) == {<<xs[a], xs[b], xs[c]>> : a \in 1..3, b \in 1..3, c \in 1..3}     \* all triples, permutations or not
\* candidate observed results of the pending relational call
Candidates ==
    LET f == m.ctl.f.name  args == m.ctl.args IN
    CASE f = "rand" /\ Len(args) = 2 -> {[t |-> "val", v |-> DecN(n)] : n \in -3..4} \cup {[t |-> "val", v |-> [DecN(1) EXCEPT !.exp = -1]]}
      [] f = "rand" /\ Len(args) = 1 -> {[t |-> "elem", i |-> i] : i \in 0..4} \cup {[t |-> "raise", e |-> OtherErr("IndexError")]}
      [] f = "rand" /\ Len(args) = 0 -> {[t |-> "val", v |-> [t |-> "dec", sub |-> TRUE, sign |-> 0, digs |-> <<5>>, exp |-> -1]],
                                         [t |-> "val", v |-> DecN(1)], [t |-> "val", v |-> DecN(0)], [t |-> "val", v |-> DecN(-1)]}
      [] f = "shuffle" -> {[t |-> "val", v |-> [t |-> "ilist", items |-> p]] : p \in Perms3(Items(m.heap, args[1]))}
                          \cup {[t |-> "val", v |-> [t |-> "ilist", items |-> <<HInt(5), HInt(6)>>]]}
      [] OTHER -> {NoOrc}

Init == sc \in 1..Len(Progs) /\ m = InitMachine(Heap0, Names0, <<>>, Cap)
Next == /\ Running(m) /\ m.ctl.t # "badoracle"
        /\ UNCHANGED sc
        /\ IF NeedsOracle(m) THEN \E o \in Candidates : m' = Step(m, Calls(sc), NoHost, o)
           ELSE m' = Step(m, Calls(sc), NoHost, NoOrc)
Spec == Init /\ [][Next]_vars

(***************************************************************************)
\* what the specification accepted, stated independently of OracleOk: the value a relational call returned
InRange(a, b, v) == v.t = "dec" /\ v.exp = 0 /\ LET n == IF v.sign = 1 THEN -v.digs[1] ELSE v.digs[1] IN a <= n /\ n <= b
\* programs that rely on the range never fail with a range error, and shuffle is a permutation in a new list
Consequences ==
    \A i \in 1..Len(m.results) :
        LET o == m.results[i].outcome IN
        CASE sc \in {1, 2} -> o.t = "ok" /\ o.v \in {HInt(5), HInt(6)}
          [] sc = 3 -> o.t = "ok" /\ InRange(1, 1, o.v)
          [] sc = 4 -> o.t = "ok" /\ InRange(-2, 1, o.v)
          [] sc = 5 -> o.t = "ok" /\ InRange(2, 2, o.v)
          [] sc = 6 -> o.t = "ok" /\ InRange(0, 2, o.v)
          [] sc = 7 -> o.t = "ok" /\ o.v \in {HInt(5), HInt(6)}
          [] sc = 8 -> o.t = "exc"
          [] sc = 9 -> o.t = "ok" /\ o.v = Bool(TRUE)
          [] sc = 10 -> o.t = "ok" /\ o.v = NatInt(3)
          [] sc = 11 -> o.t = "ok" /\ o.v = NatInt(3) /\ m.heap[1] = Heap0[1]
          [] sc = 12 -> o.t = "ok" /\ o.v.t = "dec" /\ (o.v.sign = 0 \/ o.v.digs = <<0>>)
                        /\ DecCmp(DRep(o.v), IntToDec([sign |-> 0, digs |-> <<1>>])) = -1
          [] sc = 13 -> o.t = "exc" /\ o.e.exc = "ParserError"
\* every program has at least one accepted draw and (where candidates lie outside) at least one refused one:
\* checked by the harness from the coverage of the two outcomes
Refused == m.ctl.t = "badoracle"
Emit == (m.ctl.t \notin {"halt", "badoracle"}) \/ PrintT(ToJson([sc |-> sc, end |-> m.ctl.t]))
=============================================================================
