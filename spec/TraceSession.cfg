SPECIFICATION TSpec
CONSTANTS
  ExtraInfo <- AsciiOnly
  Deviations = {"ReservedNeedsLookahead", "NotInBindsTight", "ParenSingleParamRejected"}
  MaxCalls = 1000
  CacheKind = "none"
INVARIANT Emit
CHECK_DEADLOCK FALSE
