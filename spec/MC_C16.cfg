SPECIFICATION Spec
CONSTANT Deviations = {}
CONSTANT Cap = 5
CONSTANT Scenarios <- AllScenarios
CONSTANT ScCalls <- C16Calls
CONSTANT ScHost <- C16Host
CONSTANT ScNames0 <- C16Names0
CONSTANT ScHeap0 <- C16Heap0
CONSTANT ScBound <- C16Bound
CONSTANT KeepHist = FALSE
INVARIANT ClassInv
INVARIANT ScopeBalance
INVARIANT Terminates
INVARIANT Emit
CHECK_DEADLOCK FALSE
