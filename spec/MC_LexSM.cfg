CONSTANTS
  ExtraInfo <- MCExtraInfo
  Texts <- MCTexts
  MaxLen = 3
INIT Init
NEXT Next
INVARIANT AgreesWithLex
INVARIANT LineCounters
INVARIANT Deterministic
CHECK_DEADLOCK FALSE
