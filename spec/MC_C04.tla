------------------------------- MODULE MC_C04 -------------------------------
(***************************************************************************)
(* Property C04: arithmetic stays in bounded-precision decimals.  Operand  *)
(* pairs from a boundary universe of every host-suppliable numeric type    *)
(* (int, bool, float, Decimal; 27/28/29/40-digit coefficients, large and   *)
(* small exponents) and non-numbers, under every arithmetic operator,      *)
(* compound assignment, compound index assignment and numeric builtin, and *)
(* chains of two steps.                                                    *)
(***************************************************************************)
EXTENDS MCVM

RECURSIVE Nines(_)
Nines(k) == IF k = 0 THEN <<>> ELSE <<9>> \o Nines(k - 1)
RECURSIVE Zeros(_)
Zeros(k) == IF k = 0 THEN <<>> ELSE <<0>> \o Zeros(k - 1)
HI(sg, ds) == [t |-> "int", sign |-> sg, digs |-> ds]
HD(sg, ds, e) == [t |-> "dec", sub |-> FALSE, sign |-> sg, digs |-> ds, exp |-> e]
HF(sg, ds, e, r) == [t |-> "float", dec |-> [sign |-> sg, digs |-> ds, exp |-> e], repr |-> r]
\* 0.1 as a binary float: exact expansion
Tenth == <<1,0,0,0,0,0,0,0,0,0,0,0,0,0,0,0,0,0,5,5,5,1,1,1,5,1,2,3,1,2,5,7,8,2,7,0,2,1,1,8,1,5,8,3,4,0,4,5,4,1,0,1,5,6,2,5>>
Universe == <<
    HI(0, <<0>>), HI(0, <<1>>), HI(1, <<1>>), HI(0, <<7>>),
    HI(0, <<1>> \o Zeros(27)), HI(0, Nines(28)), HI(0, <<1>> \o Zeros(28)), HI(0, <<1>> \o Zeros(40)), HI(1, Nines(30)),
    HD(0, <<0>>, 0), HD(0, <<7>>, 0), HD(1, <<2, 5>>, -1), HD(0, Nines(28), 0), HD(0, <<1>> \o Zeros(28), 0), HD(0, Nines(40), -5),
    HD(0, <<1>>, 100), HD(0, <<1>>, -100), HD(0, <<9, 9, 9>>, 99997), HD(0, <<1>>, 40), HD(1, Nines(28), 30),
    [t |-> "bool", b |-> TRUE],
    HF(0, Tenth, -55, <<48, 46, 49>>), HF(0, <<2, 5>>, -1, <<50, 46, 53>>),
    [t |-> "str", s |-> <<97, 98>>], [t |-> "list", addr |-> 1], [t |-> "none"] >>
NU == Len(Universe)
A == NName("a")  B == NName("b")
Heap0 == << [t |-> "list", items |-> <<HI(0, <<1>>), HI(0, <<2>>)>>], [t |-> "list", items |-> <<>>] >>

\* operations on a and b (b is also stored in c[0] for the index forms)
OpSeq == <<
    <<NBin("+", A, B)>>, <<NBin("-", A, B)>>, <<NBin("*", A, B)>>, <<NBin("/", A, B)>>,
    <<NShort("a", "+=", B), A>>, <<NShort("a", "-=", B), A>>, <<NShort("a", "*=", B), A>>, <<NShort("a", "/=", B), A>>,
    <<NAssign("c", NList(<<A>>)), NSetOp(NName("c"), NVal(VNum(0)), <<42, 61>>, B), NName("c")>>,
    <<NAssign("c", NList(<<A>>)), NSetOp(NName("c"), NVal(VNum(0)), <<43, 61>>, B), NName("c")>>,
    <<NUn("-", A)>>,
    <<NCall("int", <<A>>)>>, <<NCall("float", <<A>>)>>, <<NCall("round", <<A>>)>>, <<NCall("round", <<A, NVal(VNum(2))>>)>>,
    <<NCall("floor", <<A>>)>>, <<NCall("ceil", <<A>>)>>, <<NCall("abs", <<A>>)>>,
    <<NCall("sum", <<NList(<<A, B>>)>>)>>, <<NCall("min", <<A, B>>)>>, <<NCall("max", <<NList(<<A, B>>)>>)>>,
    \* chains: the result of one step feeds the next
    <<NAssign("x", NBin("*", A, B)), NBin("*", NName("x"), NName("x"))>>,
    <<NAssign("x", NBin("*", A, B)), NShort("x", "*=", NName("x")), NShort("x", "*=", NName("x")), NName("x")>>,
    <<NAssign("x", NCall("int", <<A>>)), NBin("+", NName("x"), B)>>,
    <<NAssign("x", NBin("+", A, B)), NCall("round", <<NName("x"), NVal(VNum(1))>>)>> >>
Model == [oi \in 1..Len(OpSeq) |-> Number(NCode(OpSeq[oi]), 1).t]
AllScenarios == [oi : 1..Len(OpSeq), ai : 1..NU, bi : 1..NU]
C04Calls(s) == <<[tree |-> Model[s.oi], nid |-> "n1", max |-> 200, ast |-> <<>>]>>
C04Host(s) == [z \in {} |-> 0]
C04Names0(s) == [n1 |-> [a |-> Universe[s.ai], b |-> Universe[s.bi]]]
C04Heap0(s) == Heap0
C04Bound(s) == Cap

(***************************************************************************)
NumDigits(v) == CASE v.t = "dec" -> Len(v.digs) [] v.t = "int" -> Len(v.digs) [] v.t = "float" -> Len(v.dec.digs) [] OTHER -> 0
IsNumV(v) == v.t \in {"dec", "int", "float", "bool"}
InputMax == LET a == Universe[sc.ai]  b == Universe[sc.bi] IN
            IF NumDigits(a) > NumDigits(b) THEN NumDigits(a) ELSE NumDigits(b)
\* every number held by a variable or returned has at most max(28, widest input + number of steps) digits:
\* linear growth (float(): the exact binary expansion of its argument is allowed)
Steps == 4
DigitBound ==
    /\ \A x \in DOMAIN mN.names["n1"] : LET v == mN.names["n1"][x] IN
          IsNumV(v) => NumDigits(v) <= (IF InputMax + Steps > Prec THEN InputMax + Steps ELSE Prec)
    /\ \A i \in 1..Len(mN.results) : LET o == mN.results[i].outcome IN
          (o.t = "ok" /\ IsNumV(o.v)) => NumDigits(o.v) <= (IF InputMax + Steps > Prec THEN InputMax + Steps ELSE Prec)
\* multiplication (operator and compound forms) never repeats a string or a list
NoRepeat ==
    (sc.oi \in {3, 7, 9}) =>
       /\ \A i \in 1..Len(mN.results) : mN.results[i].outcome.t = "ok" => mN.results[i].outcome.v.t \notin {"str", "tuple"}
       /\ \A a2 \in 1..Len(mN.heap) : Len(mN.heap[a2].items) <= 2
=============================================================================
