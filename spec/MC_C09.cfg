SPECIFICATION Spec
CONSTANT Deviations = {}
CONSTANT Cap = 10000
CONSTANT Scenarios <- AllScenarios
CONSTANT ScCalls <- C09Calls
CONSTANT ScHost <- C09Host
CONSTANT ScNames0 <- C09Names0
CONSTANT ScHeap0 <- C09Heap0
CONSTANT ScBound <- C09Bound
CONSTANT KeepHist = TRUE
CONSTANT MaxLeaves = 3
CONSTANT MaxDepth = 2
INVARIANT OrderInv
INVARIANT LogIsHistory
INVARIANT ProbeOrder
INVARIANT Lockstep
INVARIANT ScopeBalance
INVARIANT Terminates
INVARIANT Emit
CHECK_DEADLOCK FALSE
