----------------------------- MODULE SQGrammar -----------------------------
(***************************************************************************)
(* The grammar of smartquery (rules.py) and its operator table             *)
(* (lexer.py:151-165) as TLA+:                                             *)
(*                                                                         *)
(*  (i)   Productions  -- the production set, verbatim from the docstrings *)
(*        of rules.py, in definition order (the harness compares it with   *)
(*        the p_*.__doc__ strings of the tree under test at run time);     *)
(*        Precedence -- the operator table; NoAttrAccess.                  *)
(*  (ii)  ParseD(toks, D) -- a deterministic precedence-climbing parser    *)
(*        written from the productions and the table (NOT from the LALR    *)
(*        tables) with the tree-building actions of rules.py.              *)
(*        Reading of the table (yacc.py:2592-2660): a completed rule with  *)
(*        level r / associativity a and a lookahead token of level s:      *)
(*        shift iff s > r or (s = r and a = "right"); error iff s = r and  *)
(*        a = "nonassoc"; else reduce.  Level of a rule = level of its     *)
(*        rightmost terminal (or %prec); no level = ("right", 0).          *)
(*  (iii) ErrMsg -- offending token and line of a rejected text.           *)
(*                                                                         *)
(* D is the set of named deviations (DESIGN.md 1.2) that are switched on.  *)
(* D = {} is the NORMATIVE reading demanded by the property texts;         *)
(* D = AllDeviations reproduces the shipped implementation exactly.        *)
(***************************************************************************)
EXTENDS SQLexer

CONSTANT Deviations

AllDeviations == {
    "NotInBindsTight",             \* infix 'not' binds with NOT's level 11 instead of the comparison level
    "ParenSingleParamRejected",    \* (a) => a is rejected at =>  (LR(2); reduce/reduce picks expression)
    "MethodTrailingCommaDropsArg", \* x.f(a, b,) / x | f(a, b,) lose their last argument (rules.py:97)
    "DictTrailingCommaRejected",   \* {k: v, k: v,} rejected: trailing comma only after exactly one entry
    "EofAttributeError",           \* premature end of input raises AttributeError (p_error(None))
    "ReservedNeedsLookahead",      \* 'for' etc. raise "is reserved keyword" only if the NEXT token may follow
                                   \*   an expression; otherwise a syntax error at that next token
    "SemicolonCountsAsLine",       \* ';' advances the reported line
    "BracketNewlineNotCounted",    \* line breaks inside () [] {} do not advance the reported line
    "NewlineTokenLineAfter" }      \* an offending NEWLINE token is reported with the line AFTER it

---------------------------------------------------------------------------
(* (i) Productions and operator table                                      *)

Productions == <<
  <<"code", <<"line">>>>,
  <<"code", <<"code", "NEWLINE", "line">>>>,
  <<"line", <<"statement">>>>,
  <<"statement", <<"expression">>>>,
  <<"statement", <<>>>>,
  <<"statement", <<"COMMENT">>>>,
  <<"expression", <<"FOR">>>>,
  <<"expression", <<"WHILE">>>>,
  <<"expression", <<"ELIF">>>>,
  <<"expression", <<"BREAK">>>>,
  <<"expression", <<"CONTINUE">>>>,
  <<"expression", <<"DEF">>>>,
  <<"expression", <<"RAISE">>>>,
  <<"expression", <<"NUMBER">>>>,
  <<"expression", <<"STRING">>>>,
  <<"statement", <<"NAME", "ASSIGN", "expression">>>>,
  <<"statement", <<"NAME", "SHORT_OP", "expression">>>>,
  <<"expression", <<"NAME", "LPAREN", "arglist", "RPAREN">>>>,
  <<"expression", <<"NAME", "LPAREN", "arglist", "COMMA", "RPAREN">>>>,
  <<"expression", <<"NAME", "LPAREN", "RPAREN">>>>,
  <<"expression", <<"expression", "DOT", "NAME", "LPAREN", "arglist", "RPAREN">>>>,
  <<"expression", <<"expression", "PIPE", "NAME", "LPAREN", "arglist", "RPAREN">>>>,
  <<"expression", <<"expression", "DOT", "NAME", "LPAREN", "arglist", "COMMA", "RPAREN">>>>,
  <<"expression", <<"expression", "PIPE", "NAME", "LPAREN", "arglist", "COMMA", "RPAREN">>>>,
  <<"expression", <<"expression", "DOT", "NAME", "LPAREN", "RPAREN">>>>,
  <<"expression", <<"expression", "PIPE", "NAME">>>>,
  <<"expression", <<"NAME", "LAMBDA", "expression">>>>,
  <<"expression", <<"LPAREN", "arglist_def", "RPAREN", "LAMBDA", "expression">>>>,
  <<"dict_item", <<"dict_item", "COMMA", "dict_item">>>>,
  <<"dict_item", <<"expression", "COLON", "expression">>>>,
  <<"expression", <<"expression", "PLUS", "expression">>>>,
  <<"expression", <<"expression", "MINUS", "expression">>>>,
  <<"expression", <<"expression", "TIMES", "expression">>>>,
  <<"expression", <<"expression", "POWER", "expression">>>>,
  <<"expression", <<"expression", "DIVIDE", "expression">>>>,
  <<"expression", <<"expression", "EQ", "expression">>>>,
  <<"expression", <<"expression", "NE", "expression">>>>,
  <<"expression", <<"expression", "GT", "expression">>>>,
  <<"expression", <<"expression", "LT", "expression">>>>,
  <<"expression", <<"expression", "GTE", "expression">>>>,
  <<"expression", <<"expression", "LTE", "expression">>>>,
  <<"expression", <<"expression", "NOT", "IN", "expression">>>>,
  <<"expression", <<"expression", "IN", "expression">>>>,
  <<"expression", <<"expression", "AND", "expression">>>>,
  <<"expression", <<"expression", "OR", "expression">>>>,
  <<"expression", <<"LBRACKET", "RBRACKET">>>>,
  <<"expression", <<"LBRACKET", "arglist", "RBRACKET">>>>,
  <<"expression", <<"LBRACKET", "arglist", "COMMA", "RBRACKET">>>>,
  <<"expression", <<"LBRACE", "RBRACE">>>>,
  <<"expression", <<"LBRACE", "dict_item", "RBRACE">>>>,
  <<"expression", <<"LBRACE", "dict_item", "COMMA", "RBRACE">>>>,
  <<"slice", <<"expression">>>>,
  <<"slice", <<"COLON">>>>,
  <<"slice", <<"expression", "COLON", "expression">>>>,
  <<"slice", <<"expression", "COLON">>>>,
  <<"slice", <<"COLON", "expression">>>>,
  <<"slice", <<"expression", "COLON", "COLON">>>>,
  <<"slice", <<"COLON", "expression", "COLON">>>>,
  <<"slice", <<"COLON", "COLON", "expression">>>>,
  <<"expression", <<"expression", "LBRACKET", "slice", "RBRACKET">>>>,
  <<"expression", <<"expression", "LBRACKET", "expression", "RBRACKET">>>>,
  <<"statement", <<"DEL", "expression", "LBRACKET", "expression", "RBRACKET">>>>,
  <<"statement", <<"expression", "LBRACKET", "expression", "RBRACKET", "ASSIGN", "expression">>>>,
  <<"statement", <<"expression", "LBRACKET", "expression", "RBRACKET", "SHORT_OP", "expression">>>>,
  <<"expression", <<"expression", "IF", "expression", "ELSE", "expression">>>>,
  <<"expression", <<"MINUS", "expression", "%prec", "UMINUS">>>>,
  <<"expression", <<"LPAREN", "expression", "RPAREN">>>>,
  <<"expression", <<"TRUE">>>>,
  <<"expression", <<"FALSE">>>>,
  <<"expression", <<"NONE">>>>,
  <<"expression", <<"NOT", "expression">>>>,
  <<"expression", <<"NAME">>>>,
  <<"arglist", <<"arglist", "COMMA", "expression">>>>,
  <<"arglist", <<"expression">>>>,
  <<"arglist_def", <<"arglist", "COMMA", "NAME">>>>,
  <<"arglist_def", <<"NAME">>>> >>

(* lexer.py:151-165, lowest level first *)
Precedence == <<
  <<"left", <<"ASSIGN">>>>,
  <<"left", <<"SHORT_OP">>>>,
  <<"left", <<"OR">>>>,
  <<"left", <<"AND">>>>,
  <<"nonassoc", <<"EQ", "NE", "GT", "LT", "GTE", "LTE", "IN">>>>,
  <<"left", <<"PLUS", "MINUS">>>>,
  <<"left", <<"TIMES", "DIVIDE">>>>,
  <<"right", <<"POWER">>>>,
  <<"left", <<"PIPE">>>>,
  <<"left", <<"DOT">>>>,
  <<"right", <<"NOT">>>>,
  <<"right", <<"UMINUS">>>>,
  <<"left", <<"LBRACKET">>>> >>

Range(s) == {s[i] : i \in DOMAIN s}
NonTerminals == {Productions[i][1] : i \in DOMAIN Productions}
RhsSymbols == UNION {Range(Productions[i][2]) : i \in DOMAIN Productions}
Terminals == RhsSymbols \ (NonTerminals \cup {"%prec"})

(* C02: there is no attribute access -- DOT occurs only in the method-call productions *)
NoAttrAccess ==
    \A i \in DOMAIN Productions :
        LET rhs == Productions[i][2] IN
        "DOT" \in Range(rhs) =>
            /\ Productions[i][1] = "expression"
            /\ Len(rhs) >= 5
            /\ SubSeq(rhs, 1, 4) = <<"expression", "DOT", "NAME", "LPAREN">>
            /\ rhs[Len(rhs)] = "RPAREN"
            /\ \A j \in 5..Len(rhs) : rhs[j] # "DOT"

PrecSymbols == UNION {Range(Precedence[l][2]) : l \in DOMAIN Precedence}
LevelOfSym(s) == IF s \in PrecSymbols
                 THEN CHOOSE l \in DOMAIN Precedence : s \in Range(Precedence[l][2]) ELSE 0
LevelTab == [s \in Terminals \cup PrecSymbols |-> LevelOfSym(s)]
AssocOf(l) == IF l = 0 THEN "right" ELSE Precedence[l][1]

(* binary operator tokens: expression : expression OP expression *)
BinTokens == {Productions[i][2][2] : i \in {j \in DOMAIN Productions :
                  /\ Productions[j][1] = "expression" /\ Len(Productions[j][2]) = 3
                  /\ Productions[j][2][1] = "expression" /\ Productions[j][2][3] = "expression"}}

(* FOLLOW(expression), by the textbook fixpoint over Productions.  The LALR lookahead set of the   *)
(* merged state "expression -> FOR ." equals it (checked against the generated table by the        *)
(* harness); it decides when the shipped parser reports "is reserved keyword".                     *)
Nullable == {"statement", "line", "code"}
RhsClean(i) == LET r == Productions[i][2] IN
               IF Len(r) >= 2 /\ r[Len(r) - 1] = "%prec" THEN SubSeq(r, 1, Len(r) - 2) ELSE r
RECURSIVE FirstFix(_)
FirstFix(F) ==
    LET G == [A \in NonTerminals |->
                F[A] \cup UNION { LET r == RhsClean(i) IN
                                  UNION { IF \A m \in 1..(j - 1) : r[m] \in Nullable
                                          THEN (IF r[j] \in NonTerminals THEN F[r[j]] ELSE {r[j]}) ELSE {}
                                          : j \in 1..Len(r) }
                                  : i \in {p \in DOMAIN Productions : Productions[p][1] = A} }]
    IN IF G = F THEN F ELSE FirstFix(G)
First == FirstFix([A \in NonTerminals |-> {}])
FirstOfSym(X) == IF X \in NonTerminals THEN First[X] ELSE {X}
RECURSIVE FollowFix(_)
FollowFix(F) ==
    LET G == [B \in NonTerminals |->
                F[B] \cup UNION { LET r == RhsClean(i) A == Productions[i][1] IN
                                  UNION { IF r[j] # B THEN {}
                                          ELSE UNION { IF \A m \in (j + 1)..(q - 1) : r[m] \in Nullable
                                                       THEN FirstOfSym(r[q]) ELSE {} : q \in (j + 1)..Len(r) }
                                               \cup (IF \A m \in (j + 1)..Len(r) : r[m] \in Nullable THEN F[A] ELSE {})
                                          : j \in 1..Len(r) }
                                  : i \in DOMAIN Productions }]
    IN IF G = F THEN F ELSE FollowFix(G)
Follow == FollowFix([A \in NonTerminals |-> IF A = "code" THEN {"$end"} ELSE {}])
ReservedFollow == Follow["expression"]

---------------------------------------------------------------------------
(* Trees (spec/CONVENTIONS.md)                                             *)

Val(v) == [k |-> "val", v |-> v]
VNone == Val([t |-> "none"])
VBool(b) == Val([t |-> "bool", b |-> b])
VStr(s) == Val([t |-> "str", s |-> s])
Bin(op, a, b) == [k |-> "bin", op |-> op, ch |-> <<a, b>>]
Un(op, a) == [k |-> "un", op |-> op, ch |-> <<a>>]
Call(name, args) == [k |-> "call", name |-> name, ch |-> args]
NameNode(name) == [k |-> "name", name |-> name]
Lambda(params, body) == [k |-> "lambda", params |-> params, ch |-> <<body>>]
IfNode(cond, a, b) == [k |-> "if", ch |-> <<cond, a, b>>]
SliceNode(a, b, c) == [k |-> "slice", ch |-> <<a, b, c>>]
DictNode(kvs) == [k |-> "dict", ch |-> kvs]
NoOpNode == [k |-> "noop"]
CodeNode(lines) == [k |-> "code", ch |-> lines]

(* Decimal(lexeme): strip leading zeros of the coefficient, exponent = -(number of fraction digits) *)
RECURSIVE StripZeros(_)
StripZeros(d) == IF Len(d) > 1 /\ d[1] = 0 THEN StripZeros(Tail(d)) ELSE d
NumVal(lexeme) ==
    LET dots == {i \in DOMAIN lexeme : lexeme[i] = cDOT}
        dot == IF dots = {} THEN 0 ELSE CHOOSE i \in dots : TRUE
        all == IF dot = 0 THEN lexeme ELSE SubSeq(lexeme, 1, dot - 1) \o SubSeq(lexeme, dot + 1, Len(lexeme))
        digs == [i \in DOMAIN all |-> DigitVal(all[i])]
    IN [t |-> "dec", sub |-> TRUE, sign |-> 0, digs |-> StripZeros(digs),
        exp |-> IF dot = 0 THEN 0 ELSE -(Len(lexeme) - dot)]

---------------------------------------------------------------------------
(* (ii) The parser.  P = [toks, D, n]; positions are 1-based token indices. *)
(* Sub-parsers return  [ok |-> TRUE, pos (next token), t (tree), idx]       *)
(*   idx = "the outermost production is  expression LBRACKET expression RBRACKET, unparenthesised" *)
(* or [ok |-> FALSE, kind, at, look]  (look = highest token index examined). *)

TypeAt(P, i) == IF i >= 1 /\ i <= P.n THEN P.toks[i].type ELSE "$end"
NameAt(P, i) == StrOf(P.toks[i].val)
Err(P, i) == [ok |-> FALSE, kind |-> IF i > P.n THEN "eof" ELSE "syntax", at |-> i, look |-> i]
Ok(pos, t, idx) == [ok |-> TRUE, pos |-> pos, t |-> t, idx |-> idx]
Has(P, d) == d \in P.D

Shifts(s, r, a) == s > r \/ (s = r /\ a = "right")
Blocked(s, r, a) == s = r /\ a = "nonassoc"
MaxR == 0                 \* context of a maximal expression: every continuation is shifted
MaxA == "right"

ParamName(t) == IF t.k = "name" THEN t.name ELSE "?"

RECURSIVE ParseExpr(_, _, _, _), Infix(_, _, _, _), Prefix(_, _), ArgLoop(_, _, _, _),
          Paren(_, _), ParamLoop(_, _, _), Subscript(_, _, _), DictLoop(_, _, _, _)

ParseExpr(P, i, r, a) == LET L == Prefix(P, i) IN IF L.ok THEN Infix(P, L, r, a) ELSE L

(* arglist [COMMA] close, starting at the first expression *)
ArgLoop(P, i, acc, close) ==
    LET E == ParseExpr(P, i, MaxR, MaxA) IN
    IF ~E.ok THEN E
    ELSE LET acc2 == Append(acc, E.t)
             ty == TypeAt(P, E.pos) IN
         IF ty = close THEN [ok |-> TRUE, pos |-> E.pos + 1, args |-> acc2, trailing |-> FALSE]
         ELSE IF ty = "COMMA" THEN
             (IF TypeAt(P, E.pos + 1) = close
              THEN [ok |-> TRUE, pos |-> E.pos + 2, args |-> acc2, trailing |-> TRUE]
              ELSE ArgLoop(P, E.pos + 1, acc2, close))
         ELSE Err(P, E.pos)

(* arguments of a method / pipe call: rules.py:94-99 *)
MethodArgs(P, A) == IF A.trailing /\ Has(P, "MethodTrailingCommaDropsArg")
                    THEN SubSeq(A.args, 1, Len(A.args) - 1) ELSE A.args

LambdaBody(P, i, params) ==
    LET B == ParseExpr(P, i, MaxR, MaxA) IN
    IF B.ok THEN Ok(B.pos, Lambda(params, B.t), FALSE) ELSE B

(* after "LPAREN arglist COMMA": either the last parameter NAME followed by RPAREN, or one more expression *)
ParamLoop(P, i, params) ==
    IF TypeAt(P, i) = "NAME" /\ TypeAt(P, i + 1) = "RPAREN" THEN
        (IF TypeAt(P, i + 2) = "LAMBDA"
         THEN LambdaBody(P, i + 3, Append(params, NameAt(P, i)))
         ELSE Err(P, i + 2))
    ELSE LET E == ParseExpr(P, i, MaxR, MaxA) IN
         IF ~E.ok THEN E
         ELSE IF TypeAt(P, E.pos) = "COMMA" THEN ParamLoop(P, E.pos + 1, Append(params, ParamName(E.t)))
         ELSE Err(P, E.pos)

(* LPAREN at i: group, or parameter list of a lambda *)
Paren(P, i) ==
    IF /\ ~Has(P, "ParenSingleParamRejected")
       /\ TypeAt(P, i + 1) = "NAME" /\ TypeAt(P, i + 2) = "RPAREN" /\ TypeAt(P, i + 3) = "LAMBDA"
    THEN LambdaBody(P, i + 4, <<NameAt(P, i + 1)>>)
    ELSE LET E == ParseExpr(P, i + 1, MaxR, MaxA) IN
         IF ~E.ok THEN E
         ELSE IF TypeAt(P, E.pos) = "RPAREN" THEN Ok(E.pos + 1, E.t, FALSE)
         ELSE IF TypeAt(P, E.pos) = "COMMA" THEN ParamLoop(P, E.pos + 1, <<ParamName(E.t)>>)
         ELSE Err(P, E.pos)

(* dict_item list after LBRACE; i = first token of a key; cnt = entries so far *)
DictLoop(P, i, acc, cnt) ==
    LET K == ParseExpr(P, i, MaxR, MaxA) IN
    IF ~K.ok THEN K
    ELSE IF TypeAt(P, K.pos) # "COLON" THEN Err(P, K.pos)
    ELSE LET V == ParseExpr(P, K.pos + 1, MaxR, MaxA) IN
         IF ~V.ok THEN V
         ELSE LET acc2 == acc \o <<K.t, V.t>>
                  ty == TypeAt(P, V.pos) IN
              IF ty = "RBRACE" THEN Ok(V.pos + 1, DictNode(acc2), FALSE)
              ELSE IF ty = "COMMA" THEN
                  (IF TypeAt(P, V.pos + 1) = "RBRACE"
                   THEN (IF cnt = 0 \/ ~Has(P, "DictTrailingCommaRejected")
                         THEN Ok(V.pos + 2, DictNode(acc2), FALSE)
                         ELSE Err(P, V.pos + 1))
                   ELSE DictLoop(P, V.pos + 1, acc2, cnt + 1))
              ELSE Err(P, V.pos)

GetItem(obj, key) == Call("__getitem__", <<obj, key>>)

(* LBRACKET at p after the complete expression L: index or one of the eight slice forms (rules.py:167-203) *)
Subscript(P, L, p) ==
    IF TypeAt(P, p + 1) = "COLON" THEN
        IF TypeAt(P, p + 2) = "RBRACKET"                                               \* [:]
        THEN Ok(p + 3, GetItem(L.t, SliceNode(VNone, VNone, VNone)), FALSE)
        ELSE IF TypeAt(P, p + 2) = "COLON" THEN                                        \* [::e]
            LET E == ParseExpr(P, p + 3, MaxR, MaxA) IN
            IF ~E.ok THEN E
            ELSE IF TypeAt(P, E.pos) = "RBRACKET"
                 THEN Ok(E.pos + 1, GetItem(L.t, SliceNode(VNone, VNone, E.t)), FALSE)
                 ELSE Err(P, E.pos)
        ELSE LET E == ParseExpr(P, p + 2, MaxR, MaxA) IN
             IF ~E.ok THEN E
             ELSE IF TypeAt(P, E.pos) = "RBRACKET"                                     \* [:e]
                  THEN Ok(E.pos + 1, GetItem(L.t, SliceNode(VNone, E.t, VNone)), FALSE)
             ELSE IF TypeAt(P, E.pos) = "COLON" THEN                                   \* [:e:]
                  (IF TypeAt(P, E.pos + 1) = "RBRACKET"
                   THEN Ok(E.pos + 2, GetItem(L.t, SliceNode(VNone, E.t, VNone)), FALSE)
                   ELSE Err(P, E.pos + 1))
             ELSE Err(P, E.pos)
    ELSE LET E == ParseExpr(P, p + 1, MaxR, MaxA) IN
         IF ~E.ok THEN E
         ELSE IF TypeAt(P, E.pos) = "RBRACKET" THEN Ok(E.pos + 1, GetItem(L.t, E.t), TRUE)   \* [e]
         ELSE IF TypeAt(P, E.pos) = "COLON" THEN
              IF TypeAt(P, E.pos + 1) = "RBRACKET"                                     \* [e:]
              THEN Ok(E.pos + 2, GetItem(L.t, SliceNode(E.t, VNone, VNone)), FALSE)
              ELSE IF TypeAt(P, E.pos + 1) = "COLON" THEN                              \* [e::]
                  (IF TypeAt(P, E.pos + 2) = "RBRACKET"
                   THEN Ok(E.pos + 3, GetItem(L.t, SliceNode(E.t, VNone, VNone)), FALSE)
                   ELSE Err(P, E.pos + 2))
              ELSE LET F == ParseExpr(P, E.pos + 1, MaxR, MaxA) IN                     \* [e:f]
                   IF ~F.ok THEN F
                   ELSE IF TypeAt(P, F.pos) = "RBRACKET"
                        THEN Ok(F.pos + 1, GetItem(L.t, SliceNode(E.t, F.t, VNone)), FALSE)
                        ELSE Err(P, F.pos)
         ELSE Err(P, E.pos)

(* expression DOT NAME LPAREN [arglist [COMMA]] RPAREN, DOT at p *)
DotCall(P, L, p) ==
    IF TypeAt(P, p + 1) # "NAME" THEN Err(P, p + 1)
    ELSE IF TypeAt(P, p + 2) # "LPAREN" THEN Err(P, p + 2)
    ELSE IF TypeAt(P, p + 3) = "RPAREN" THEN Ok(p + 4, Call(NameAt(P, p + 1), <<L.t>>), FALSE)
    ELSE LET A == ArgLoop(P, p + 3, <<>>, "RPAREN") IN
         IF A.ok THEN Ok(A.pos, Call(NameAt(P, p + 1), <<L.t>> \o MethodArgs(P, A)), FALSE) ELSE A

(* expression PIPE NAME [LPAREN arglist [COMMA] RPAREN], PIPE at p.  There is no  e PIPE NAME LPAREN RPAREN *)
PipeCall(P, L, p) ==
    IF TypeAt(P, p + 1) # "NAME" THEN Err(P, p + 1)
    ELSE IF TypeAt(P, p + 2) = "LPAREN" THEN
        LET A == ArgLoop(P, p + 3, <<>>, "RPAREN") IN
        IF A.ok THEN Ok(A.pos, Call(NameAt(P, p + 1), <<L.t>> \o MethodArgs(P, A)), FALSE) ELSE A
    ELSE Ok(p + 2, Call(NameAt(P, p + 1), <<L.t>>), FALSE)

(* continuation of the complete expression L inside a rule of level r / associativity a *)
Infix(P, L, r, a) ==
    LET p == L.pos
        ty == TypeAt(P, p) IN
    IF ty \in BinTokens THEN
        LET s == LevelTab[ty] IN
        IF Blocked(s, r, a) THEN Err(P, p)
        ELSE IF Shifts(s, r, a) THEN
            LET R == ParseExpr(P, p + 1, s, AssocOf(s)) IN
            IF R.ok THEN Infix(P, Ok(R.pos, Bin(StrOf(P.toks[p].val), L.t, R.t), FALSE), r, a) ELSE R
        ELSE L
    ELSE IF ty = "NOT" THEN
        (* expression NOT IN expression: the rule's level is IN's; the lookahead NOT is compared *)
        (* with NOT's own level by the shipped tables                                           *)
        LET s == IF Has(P, "NotInBindsTight") THEN LevelTab["NOT"] ELSE LevelTab["IN"]
            rs == LevelTab["IN"] IN
        IF Blocked(s, r, a) THEN Err(P, p)
        ELSE IF Shifts(s, r, a) THEN
            (IF TypeAt(P, p + 1) # "IN" THEN Err(P, p + 1)
             ELSE LET R == ParseExpr(P, p + 2, rs, AssocOf(rs)) IN
                  IF R.ok THEN Infix(P, Ok(R.pos, Bin("not in", L.t, R.t), FALSE), r, a) ELSE R)
        ELSE L
    ELSE IF ty = "IF" THEN
        IF Shifts(LevelTab["IF"], r, a) THEN
            LET C == ParseExpr(P, p + 1, MaxR, MaxA) IN
            IF ~C.ok THEN C
            ELSE IF TypeAt(P, C.pos) # "ELSE" THEN Err(P, C.pos)
            ELSE LET E == ParseExpr(P, C.pos + 1, LevelTab["ELSE"], AssocOf(LevelTab["ELSE"])) IN
                 IF E.ok THEN Infix(P, Ok(E.pos, IfNode(C.t, L.t, E.t), FALSE), r, a) ELSE E
        ELSE L
    ELSE IF ty = "LBRACKET" THEN
        IF Shifts(LevelTab["LBRACKET"], r, a) THEN
            LET S == Subscript(P, L, p) IN IF S.ok THEN Infix(P, S, r, a) ELSE S
        ELSE L
    ELSE IF ty = "DOT" THEN
        IF Shifts(LevelTab["DOT"], r, a) THEN
            LET M == DotCall(P, L, p) IN IF M.ok THEN Infix(P, M, r, a) ELSE M
        ELSE L
    ELSE IF ty = "PIPE" THEN
        IF Shifts(LevelTab["PIPE"], r, a) THEN
            LET M == PipeCall(P, L, p) IN IF M.ok THEN Infix(P, M, r, a) ELSE M
        ELSE L
    ELSE L

(* a reserved-unused word in operand position (rules.py:43-51) *)
Reserved(P, i) ==
    IF Has(P, "ReservedNeedsLookahead") THEN
        (IF TypeAt(P, i + 1) \in ReservedFollow
         THEN [ok |-> FALSE, kind |-> "reserved", at |-> i, look |-> i + 1]
         ELSE Err(P, i + 1))
    ELSE [ok |-> FALSE, kind |-> "reserved", at |-> i, look |-> i]

Prefix(P, i) ==
    LET ty == TypeAt(P, i) IN
    CASE ty = "NUMBER" -> Ok(i + 1, Val(NumVal(P.toks[i].val)), FALSE)
      [] ty = "STRING" -> Ok(i + 1, VStr(P.toks[i].val), FALSE)
      [] ty = "TRUE" -> Ok(i + 1, VBool(TRUE), FALSE)
      [] ty = "FALSE" -> Ok(i + 1, VBool(FALSE), FALSE)
      [] ty = "NONE" -> Ok(i + 1, VNone, FALSE)
      [] ty = "NAME" ->
            IF TypeAt(P, i + 1) = "LPAREN" THEN
                (IF TypeAt(P, i + 2) = "RPAREN" THEN Ok(i + 3, Call(NameAt(P, i), <<>>), FALSE)
                 ELSE LET A == ArgLoop(P, i + 2, <<>>, "RPAREN") IN
                      IF A.ok THEN Ok(A.pos, Call(NameAt(P, i), A.args), FALSE) ELSE A)
            ELSE IF TypeAt(P, i + 1) = "LAMBDA" THEN LambdaBody(P, i + 2, <<NameAt(P, i)>>)
            ELSE Ok(i + 1, NameNode(NameAt(P, i)), FALSE)
      [] ty = "MINUS" ->
            LET E == ParseExpr(P, i + 1, LevelTab["UMINUS"], AssocOf(LevelTab["UMINUS"])) IN
            IF E.ok THEN Ok(E.pos, Un("-", E.t), FALSE) ELSE E
      [] ty = "NOT" ->
            LET E == ParseExpr(P, i + 1, LevelTab["NOT"], AssocOf(LevelTab["NOT"])) IN
            IF E.ok THEN Ok(E.pos, Un("not", E.t), FALSE) ELSE E
      [] ty = "LPAREN" -> Paren(P, i)
      [] ty = "LBRACKET" ->
            IF TypeAt(P, i + 1) = "RBRACKET" THEN Ok(i + 2, Call("list", <<>>), FALSE)
            ELSE LET A == ArgLoop(P, i + 1, <<>>, "RBRACKET") IN
                 IF A.ok THEN Ok(A.pos, Call("list", A.args), FALSE) ELSE A
      [] ty = "LBRACE" ->
            IF TypeAt(P, i + 1) = "RBRACE" THEN Ok(i + 2, Call("dict", <<>>), FALSE)
            ELSE DictLoop(P, i + 1, <<>>, 0)
      [] ty \in ReservedUnused -> Reserved(P, i)
      [] OTHER -> Err(P, i)

(* one statement starting at i; t = "none" marks the empty statement (dropped by p_code) *)
Statement(P, i) ==
    LET ty == TypeAt(P, i) IN
    IF ty = "NEWLINE" \/ ty = "$end" THEN [ok |-> TRUE, pos |-> i, empty |-> TRUE]
    ELSE IF ty = "COMMENT" THEN [ok |-> TRUE, pos |-> i + 1, empty |-> FALSE, t |-> NoOpNode]
    ELSE IF ty = "NAME" /\ TypeAt(P, i + 1) = "ASSIGN" THEN
        LET E == ParseExpr(P, i + 2, MaxR, MaxA) IN
        IF E.ok THEN [ok |-> TRUE, pos |-> E.pos, empty |-> FALSE,
                      t |-> [k |-> "assign", name |-> NameAt(P, i), ch |-> <<E.t>>]] ELSE E
    ELSE IF ty = "NAME" /\ TypeAt(P, i + 1) = "SHORT_OP" THEN
        LET E == ParseExpr(P, i + 2, MaxR, MaxA) IN
        IF E.ok THEN [ok |-> TRUE, pos |-> E.pos, empty |-> FALSE,
                      t |-> [k |-> "short", name |-> NameAt(P, i), op |-> StrOf(P.toks[i + 1].val),
                             ch |-> <<E.t>>]] ELSE E
    ELSE IF ty = "DEL" THEN
        (* DEL expression LBRACKET expression RBRACKET: the greedy expression must itself be an index *)
        LET E == ParseExpr(P, i + 1, MaxR, MaxA) IN
        IF ~E.ok THEN E
        ELSE IF E.idx THEN [ok |-> TRUE, pos |-> E.pos, empty |-> FALSE,
                            t |-> Call("__delitem__", <<E.t.ch[1], E.t.ch[2]>>)]
        ELSE Err(P, E.pos)
    ELSE LET E == ParseExpr(P, i, MaxR, MaxA) IN
         IF ~E.ok THEN E
         ELSE IF TypeAt(P, E.pos) \in {"ASSIGN", "SHORT_OP"} THEN
             IF ~E.idx THEN Err(P, E.pos)
             ELSE LET V == ParseExpr(P, E.pos + 1, MaxR, MaxA) IN
                  IF ~V.ok THEN V
                  ELSE IF TypeAt(P, E.pos) = "ASSIGN"
                  THEN [ok |-> TRUE, pos |-> V.pos, empty |-> FALSE,
                        t |-> Call("__setitem__", <<E.t.ch[1], E.t.ch[2], V.t>>)]
                  ELSE [ok |-> TRUE, pos |-> V.pos, empty |-> FALSE,
                        t |-> Call("__setitem_with_op__",
                                   <<E.t.ch[1], E.t.ch[2], VStr(P.toks[E.pos].val), V.t>>)]
         ELSE [ok |-> TRUE, pos |-> E.pos, empty |-> FALSE, t |-> E.t]

RECURSIVE CodeLoop(_, _, _)
CodeLoop(P, i, lines) ==
    LET S == Statement(P, i) IN
    IF ~S.ok THEN S
    ELSE LET lines2 == IF S.empty THEN lines ELSE Append(lines, S.t) IN
         IF S.pos > P.n THEN [ok |-> TRUE, lines |-> lines2]
         ELSE IF TypeAt(P, S.pos) = "NEWLINE" THEN CodeLoop(P, S.pos + 1, lines2)
         ELSE Err(P, S.pos)

(***************************************************************************)
(* ParseD(toks, D):                                                        *)
(*   [ok |-> TRUE, tree, look]                                             *)
(*   [ok |-> FALSE, kind |-> "syntax" | "eof" | "reserved", at, look]      *)
(* at = index of the offending token (Len(toks)+1 for "eof"; the reserved  *)
(* word itself for "reserved"); look = highest token index the parser had  *)
(* to examine (Len(toks)+1 = it asked the lexer for more input).           *)
(***************************************************************************)
ParseD(toks, D) ==
    LET P == [toks |-> toks, D |-> D, n |-> Len(toks)]
        R == CodeLoop(P, 1, <<>>) IN
    IF R.ok THEN [ok |-> TRUE, tree |-> CodeNode(R.lines), look |-> Len(toks) + 1]
    ELSE [ok |-> FALSE, kind |-> R.kind, at |-> R.at, look |-> R.look]

Parse(toks) == ParseD(toks, Deviations)

---------------------------------------------------------------------------
(* (iii) Error reports                                                     *)

(* the line number a syntax error at token tk reports under deviation set D; D = {} : the physical line *)
LineD(tk, D) ==
    LET nlTop == tk.ilineno - 1 - tk.semis          \* line breaks returned as NEWLINE tokens before tk
        nlIn == tk.line - 1 - nlTop                  \* line breaks swallowed inside brackets before tk
        semiCounts == "SemicolonCountsAsLine" \in D
        self == IF "NewlineTokenLineAfter" \in D /\ tk.type = "NEWLINE"
                THEN (IF tk.text = <<cSEMI>> THEN (IF semiCounts THEN 1 ELSE 0) ELSE 1)
                ELSE 0
    IN 1 + nlTop + (IF semiCounts THEN tk.semis ELSE 0)
         + (IF "BracketNewlineNotCounted" \in D THEN 0 ELSE nlIn) + self

(* str(Decimal(lexeme)) for a NUMBER lexeme (sign 0, exponent <= 0): Python's to-scientific-string *)
RECURSIVE NatCps(_)
NatCps(n) == IF n < 10 THEN <<48 + n>> ELSE NatCps(n \div 10) \o <<48 + (n % 10)>>
DecStr(d) ==
    LET ds == [i \in DOMAIN d.digs |-> 48 + d.digs[i]]
        n == Len(ds)
        left == n + d.exp                     \* digits before the decimal point
        adj == left - 1                       \* adjusted exponent
        zeros(k) == [i \in 1..k |-> 48]
    IN IF d.exp = 0 THEN ds
       ELSE IF adj >= -6 THEN
           (IF left > 0 THEN SubSeq(ds, 1, left) \o <<cDOT>> \o SubSeq(ds, left + 1, n)
            ELSE <<48, cDOT>> \o zeros(-left) \o ds)
       ELSE <<ds[1]>> \o (IF n > 1 THEN <<cDOT>> \o SubSeq(ds, 2, n) ELSE <<>>)
            \o <<69, cMINUS>> \o NatCps(-adj)

(* the text by which an error message names token tk: str(tk.value) *)
TokenMsgText(tk) == IF tk.type = "NUMBER" THEN DecStr(NumVal(tk.val)) ELSE tk.val

(* r = a failed ParseD result for toks *)
ErrMsgD(toks, r, D) ==
    IF r.kind = "eof"
    THEN [kind |-> "eof", class |-> IF "EofAttributeError" \in D THEN "AttributeError" ELSE "ParserError"]
    ELSE IF r.kind = "reserved"
    THEN [kind |-> "reserved", class |-> "ParserError", text |-> toks[r.at].val]
    ELSE [kind |-> "syntax", class |-> "ParserError", text |-> TokenMsgText(toks[r.at]), type |-> toks[r.at].type,
          line |-> LineD(toks[r.at], D)]
ErrMsg(toks, r) == ErrMsgD(toks, r, Deviations)

(***************************************************************************)
(* ParseTextD(cps, D): SqParser.parse on a source text -- the parser pulls *)
(* tokens one at a time, so an illegal character is reported only if the   *)
(* parser gets that far.  Includes the residual lexer state after the call *)
(* (pos = lexer.lexpos, lineno, paren), which the session layer needs.     *)
(***************************************************************************)
ParseLexedD(lx, D) ==
    LET n == Len(lx.toks)
        r == ParseD(lx.toks, D)
        residue == IF r.look > n THEN [pos |-> lx.pos, lineno |-> lx.lineno, paren |-> lx.paren]
                   ELSE LET tk == lx.toks[r.look] IN
                        [pos |-> tk.endpos, lineno |-> LinenoAfter(tk), paren |-> tk.paren]
    IN IF lx.err = "illegal" /\ r.look > n
       THEN [ok |-> FALSE, kind |-> "illegal", at |-> n + 1, look |-> n + 1,
             msg |-> [kind |-> "illegal", class |-> "ParserError", ch |-> lx.errch], residue |-> residue]
       ELSE IF r.ok THEN [ok |-> TRUE, tree |-> r.tree, look |-> r.look, residue |-> residue]
       ELSE [ok |-> FALSE, kind |-> r.kind, at |-> r.at, look |-> r.look,
             msg |-> ErrMsgD(lx.toks, r, D), residue |-> residue]
ParseTextD(cps, D) == ParseLexedD(Lex(cps), D)
ParseText(cps) == ParseTextD(cps, Deviations)

---------------------------------------------------------------------------
(* C18: names occurring in a tree, apart from the implicit names of the sugar *)
Implicit == {"list", "dict", "__getitem__", "__setitem__", "__delitem__", "__setitem_with_op__"}
RECURSIVE TreeNames(_)
TreeNames(t) ==
    LET own == CASE t.k \in {"name", "call", "assign", "short"} -> {t.name}
                 [] t.k = "lambda" -> Range(t.params) \ {"?"}
                 [] OTHER -> {}
        sub == IF t.k \in {"val", "name", "noop"} THEN {}
               ELSE UNION {TreeNames(t.ch[i]) : i \in DOMAIN t.ch}
    IN own \cup sub

(* every name of the tree, apart from the implicit ones, is a NAME token of the text *)
NamesInTreeListed(toks, tree) ==
    TreeNames(tree) \ Implicit \subseteq {StrOf(toks[i].val) : i \in {j \in DOMAIN toks : toks[j].type = "NAME"}}

=============================================================================
