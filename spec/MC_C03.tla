------------------------------- MODULE MC_C03 -------------------------------
(***************************************************************************)
(* Property C03: the size cap cannot be circumvented.  The cap logic of    *)
(* the specification is parametric in Cap; this model explores it          *)
(* exhaustively at a small Cap (cfg) with host containers of every length  *)
(* around it - 0, 1, Cap-2, Cap-1, Cap, Cap+1 - under all sequences of up  *)
(* to MaxLen container operations.  The same scenario descriptors are      *)
(* replayed on the real code at the true constant (10000), where the       *)
(* recorded traces are validated with Cap = 10000.                         *)
(***************************************************************************)
EXTENDS MCVM

CONSTANT MaxLen

HInt(n) == [t |-> "int", sign |-> 0, digs |-> <<n>>]
HStr(s) == [t |-> "str", s |-> s]
Lens == <<0, 1, Cap - 2, Cap - 1, Cap, Cap + 1>>
RECURSIVE KeyCps(_)
KeyCps(i) == <<107>> \o (IF i < 10 THEN <<48 + i>> ELSE KeyCps(i \div 10) \o <<48 + (i % 10)>>)      \* "k<i>"
\* host list a and dict d of length n, a one-element list b, a string s of n 'a's, an int k = 2, a Decimal m = 2
Heap0(n) == << [t |-> "list", items |-> [i \in 1..n |-> HInt(0)]],
               [t |-> "dict", items |-> [i \in 1..n |-> <<KeyCps(i - 1), HInt(0)>>]],
               [t |-> "list", items |-> <<HInt(5)>>],
               \* e: a list of length n whose first element is itself a list
               [t |-> "list", items |-> <<HInt(5)>>],
               [t |-> "list", items |-> [i \in 1..n |-> IF i = 1 THEN [t |-> "list", addr |-> 4] ELSE HInt(0)]],
               \* di: a host dict of n entries with the int keys 0 .. n-1 (an index assignment casts its key to text: a NEW entry)
               [t |-> "dict", items |-> [i \in 1..n |-> << <<-2>> \o Tail(KeyCps(i - 1)), HInt(0)>>]] >>
Names0(n) == [n1 |-> [a |-> [t |-> "list", addr |-> 1], d |-> [t |-> "dict", addr |-> 2], b |-> [t |-> "list", addr |-> 3],
                      e |-> [t |-> "list", addr |-> 5], di |-> [t |-> "dict", addr |-> 6],
                      s |-> HStr([i \in 1..n |-> 97]), k |-> HInt(2),
                      m |-> [t |-> "dec", sub |-> FALSE, sign |-> 0, digs |-> <<2>>, exp |-> 0]]]

A == NName("a")   B == NName("b")   Dn == NName("d")   Sn == NName("s")
Num(n) == NVal(VNum(n))
Str1(c) == NVal(VStr(<<c>>))
PlusEq == <<43, 61>>  MulEq == <<42, 61>>  SubEq == <<45, 61>>  DivEq == <<47, 61>>
IdLam == NLambda(<<"v">>, NName("v"))

OpSeq == <<
    NCall("push", <<A, Num(1)>>),
    NCall("insert", <<A, Num(0), Num(1)>>),
    NCall("insert", <<A, NVal([t |-> "dec", sub |-> TRUE, sign |-> 0, digs |-> <<1, 5>>, exp |-> -1]), Num(1)>>),
    NCall("insert", <<A, NCall("len", <<A>>), Num(1)>>),
    NSetItem(A, Num(0), Num(1)),
    NSetItem(Dn, Str1(122), Num(1)),                      \* new key
    NSetItem(Dn, NVal(VStr(<<107, 48>>)), Num(1)),        \* existing key k0
    NSetOp(A, Num(0), PlusEq, Num(1)),
    NSetOp(A, Num(0), SubEq, Num(1)),
    NSetOp(A, Num(0), MulEq, Num(2)),
    NSetOp(A, Num(0), DivEq, Num(2)),
    NSetOp(Dn, NVal(VStr(<<107, 48>>)), PlusEq, Num(1)),
    NAssign("x", NBin("+", A, A)),
    NAssign("x", NBin("+", A, B)),
    NAssign("x", NBin("+", NName("x"), A)),
    NShort("a", "+=", A),
    NShort("a", "+=", B),
    NShort("a", "+=", NList(<<Num(1)>>)),
    NShort("a", "+=", Sn),
    NShort("a", "*=", NName("k")),
    NShort("a", "*=", NName("m")),
    NShort("b", "*=", NCall("len", <<A>>)),
    NAssign("c", NList(<<B>>)),
    NSetOp(NName("c"), Num(0), PlusEq, A),
    NSetOp(NName("c"), Num(0), MulEq, NName("k")),
    NAssign("x", NIndex(A, NSlice(Num(0), Num(3), NVal(VNone)))),
    NAssign("x", NList(<<A, A>>)),
    NAssign("x", NCall("sorted", <<A>>)),
    NAssign("x", NCall("reversed", <<A>>)),
    NAssign("x", NCall("enumerate", <<A>>)),
    NAssign("x", NCall("map", <<A, IdLam>>)),
    NAssign("x", NCall("filter", <<A, IdLam>>)),
    NAssign("x", NCall("keys", <<Dn>>)),
    NAssign("x", NCall("items", <<Dn>>)),
    NAssign("x", NCall("sorted", <<Dn>>)),
    NShort("s", "+=", Sn),
    NAssign("x", NCall("split", <<Sn, Str1(97)>>)),
    NAssign("x", NCall("sorted", <<Sn>>)),
    NAssign("x", NCall("enumerate", <<Sn>>)),
    NAssign("x", NCall("map", <<Sn, IdLam>>)),
    NAssign("x", NCall("reversed", <<Sn>>)),
    NAssign("s", NCall("replace", <<Sn, Str1(97), NVal(VStr(<<97, 97>>))>>)),
    NAssign("x", NCall("join", <<A, Str1(44)>>)),
    NCall("pop", <<A>>),
    NCall("remove", <<A, Num(0)>>),
    NDel(A, Num(0)),
    NDel(Dn, NVal(VStr(<<107, 48>>))),
    NAssign("x", A),
    NCall("push", <<NName("x"), Num(1)>>),
    NShort("x", "+=", NName("x")),
    NAssign("x", NCall("reduce", <<NList(<<A, A>>), NLambda(<<"p", "q">>, NBin("+", NName("p"), NName("q")))>>)),
    \* the element-adding builtins reached under another name, as a callback, through a lambda
    NAssign("p", NName("push")),
    NCall("p", <<A, Num(1)>>),
    NCall("reduce", <<NList(<<A, Num(1)>>), NName("push")>>),
    NCall("map", <<NList(<<A>>), NLambda(<<"v">>, NCall("insert", <<NName("v"), Num(0), Num(1)>>))>>),
    NAssign("q", NName("__setitem__")),
    NCall("q", <<Dn, Str1(122), Num(1)>>),
    NCall("map", <<NList(<<Dn>>), NLambda(<<"v">>, NSetOp(NName("v"), NVal(VStr(<<107, 48>>)), PlusEq, Num(1)))>>),
    \* compound assignment to an element that is itself a list, in a container at the cap: refused before anything is touched
    NSetOp(NName("e"), Num(0), PlusEq, B),
    NSetOp(NName("e"), Num(0), PlusEq, Sn),
    NSetOp(NName("e"), Num(0), PlusEq, NList(<<Num(1)>>)),
    NSetOp(NName("e"), Num(0), MulEq, NName("k")),
    \* positions that do not fit a machine word (list.insert / list.pop raise OverflowError below the cap; at the cap the size check comes first)
    NCall("insert", <<A, NVal([t |-> "dec", sub |-> TRUE, sign |-> 0, digs |-> <<1>> \o [i \in 1..20 |-> 0], exp |-> 0]), Num(1)>>),
    NCall("insert", <<A, NUn("-", NVal([t |-> "dec", sub |-> TRUE, sign |-> 0, digs |-> <<1>> \o [i \in 1..20 |-> 0], exp |-> 0])), Num(1)>>),
    NCall("push", <<A, A>>),
    \* more values than the entry takes: refused (TypeError), nothing is appended
    NSetItem(NName("di"), Num(0), Num(1)),
    NSetOp(NName("di"), Num(0), PlusEq, Num(1)),
    NCall("push", <<A, Num(1), Num(2)>>),
    NCall("insert", <<A, Num(0), Num(1), Num(2)>>),
    NCall("insert", <<A, Num(0), A>>) >>
NOps == Len(OpSeq)

\* scenario: length index + a sequence of operation indices (0 = none)
AllScenarios == [ni : 1..Len(Lens), o1 : 1..NOps, o2 : IF MaxLen >= 2 THEN 0..NOps ELSE {0}, o3 : IF MaxLen >= 3 THEN 0..NOps ELSE {0}]
Stmts(s) == <<OpSeq[s.o1]>> \o (IF s.o2 = 0 THEN <<>> ELSE <<OpSeq[s.o2]>>) \o (IF s.o3 = 0 THEN <<>> ELSE <<OpSeq[s.o3]>>)
Valid(s) == s.o2 # 0 \/ s.o3 = 0
C03Calls(s) == <<[tree |-> Number(NCode(Stmts(s)), 1).t, nid |-> "n1", max |-> Unlimited, ast |-> <<>>]>>
C03Host(s) == [x \in {} |-> 0]
C03Names0(s) == Names0(Lens[s.ni])
C03Heap0(s) == Heap0(Lens[s.ni])
C03Bound(s) == IF Lens[s.ni] > Cap THEN Lens[s.ni] ELSE Cap

\* the operation alphabet, printed once so that the harness renders exactly these statements at the real scale
ASSUME PrintT(ToJson([optrees |-> OpSeq]))
(***************************************************************************)
\* no list or dict ever exceeds the bound (transient results included: every allocation is a heap object)
\* SizeInv is defined in MCVM.
\* an element-adding operation on a container that already holds Cap elements fails with a ParserError
\* and leaves the container unchanged
AtCapFails ==
    [][(mN.ctl.t = "call" /\ mN.ctl.f.t = "builtin" /\ mN.ctl.f.name \in {"push", "insert", "__setitem__", "__setitem_with_op__"}
        /\ Len(mN.ctl.args) >= 1 /\ mN.ctl.args[1].t \in {"list", "dict"} /\ Len(mN.heap[mN.ctl.args[1].addr].items) >= Cap)
       => (/\ mN'.ctl.t = "exc"
           \* (a call with more values than the entry takes is refused for that reason - TypeError - before the size check)
           /\ (Len(mN.ctl.args) = (CASE mN.ctl.f.name = "push" -> 2 [] mN.ctl.f.name = "__setitem_with_op__" -> 4 [] OTHER -> 3)
                 => mN'.ctl.e.exc = "ParserError")
           /\ \A a \in 1..Len(mN.heap) : mN'.heap[a] = mN.heap[a])]_vars
=============================================================================
