----------------------------- MODULE SQDecimal -----------------------------
(***************************************************************************)
(* Python's `decimal` arithmetic (General Decimal Arithmetic) under the    *)
(* DEFAULT context: ROUND_HALF_EVEN, Emax 999999, Emin -999999, clamp 0,   *)
(* traps InvalidOperation / DivisionByZero / Overflow.  The precision is   *)
(* an argument (`prec`) of every rounding operator: 28 in conformance,     *)
(* 1..3 in the exhaustive self check (MC_Decimal).                         *)
(*                                                                         *)
(* Pure operators, no variables.  Transcribed from CPython's _pydecimal.py *)
(* (__add__, __mul__, __truediv__, _fix, _rescale, _round_half_even,       *)
(* _normalize, _cmp, __str__, quantize, __round__, __int__, __floor__,     *)
(* __ceil__); conformance against the real (C) module: TraceDecimal.tla.   *)
(*                                                                         *)
(* DecRep  [sign |-> 0|1, digs |-> Seq(0..9), exp |-> Int]   finite only;  *)
(*         digs most significant first, no leading zero except <<0>>.      *)
(* IntRep  [sign |-> 0|1, digs |-> Seq(0..9)]                Python int.   *)
(* Signal  [sig |-> "DivisionByZero" | "InvalidOperation" | "Overflow"]    *)
(*         (plus the spec-level markers "Unspecified" and "Huge").         *)
(*                                                                         *)
(* Coefficients never appear as TLC integers (32 bit), only as digit       *)
(* sequences.  Exponents and lengths are TLC integers.                     *)
(*                                                                         *)
(* Recursion discipline: with the default 1 MB JVM thread stack TLC        *)
(* overflows after roughly 100 nested applications of a non-trivial        *)
(* recursive operator (raise with JAVA_TOOL_OPTIONS=-Xss64m), and lazily   *)
(* evaluated operator arguments turn "chunked" recursions back into deep   *)
(* ones.  Every pass over a digit sequence is therefore a FoldLeft /       *)
(* FoldLeftDomain / SelectInSeq of the CommunityModules' SequencesExt,     *)
(* which TLC evaluates iteratively (Java module overrides), or a bounded   *)
(* quantifier.  The only RECURSIVE operators left work on TLC integers     *)
(* (depth <= 10).                                                          *)
(* Operator arguments of inputs may carry extra record fields (e.g. the    *)
(* value tags `t`, `sub`); results are always fresh 3-field records.       *)
(***************************************************************************)
EXTENDS Integers, Sequences
LOCAL INSTANCE SequencesExt   \* FoldLeft, FoldLeftDomain, SelectInSeq, SelectLastInSeq

IsSig(x) == "sig" \in DOMAIN x

D_Sig(name) == [sig |-> name]

D_Emax == 999999
D_Emin == -999999
D_Etiny(prec) == D_Emin - prec + 1
D_Etop(prec) == D_Emax - prec + 1

D_Min(x, y) == IF x <= y THEN x ELSE y
D_Max(x, y) == IF x >= y THEN x ELSE y

D_Mk(s, digs, e) == [sign |-> s, digs |-> digs, exp |-> e]
D_MkInt(s, digs) == [sign |-> s, digs |-> digs]

-----------------------------------------------------------------------------
(***************************************************************************)
(* Naturals as canonical digit sequences                                   *)
(***************************************************************************)

\* n zeros as a sequence (n <= 0 gives the empty sequence)
D_Zeros(n) == [i \in 1..n |-> 0]

\* s * 10^n for n >= 0 (caller guarantees s is not <<0>> or accepts 0...0)
D_Pad(s, n) == IF n <= 0 THEN s ELSE s \o D_Zeros(n)

D_NatIsZero(s) == s[1] = 0          \* canonical sequences only

\* drop leading zeros; the empty and the all-zero sequence become <<0>>
D_Strip(s) ==
  LET k == SelectInSeq(s, LAMBDA d : d # 0) IN
  IF k = 0 THEN <<0>> ELSE IF k = 1 THEN s ELSE SubSeq(s, k, Len(s))

\* number of trailing zeros of s (Len(s) if all digits are zero)
D_TrailZ(s) == Len(s) - SelectLastInSeq(s, LAMBDA d : d # 0)

\* lexicographic comparison of two sequences of equal length: -1, 0, 1
D_LexCmp(a, b) ==
  IF Len(a) = 0 THEN 0
  ELSE IF a[1] # b[1] THEN (IF a[1] < b[1] THEN -1 ELSE 1)
  ELSE IF a = b THEN 0
  ELSE LET k == SelectInSeq([i \in 1..Len(a) |-> i], LAMBDA i : a[i] # b[i])
       IN IF a[k] < b[k] THEN -1 ELSE 1

\* order of two canonical naturals: -1, 0, 1
D_CmpNat(a, b) ==
  IF Len(a) < Len(b) THEN -1 ELSE IF Len(a) > Len(b) THEN 1 ELSE D_LexCmp(a, b)

(* Addition.  One left fold over the offsets k-1 = 0, 1, ... counted from   *)
(* the least significant digit; the accumulator is << carry, digits >>.    *)
D_AddNat(a, b) ==
  LET la == Len(a)
      lb == Len(b)
      r  == FoldLeftDomain(
              LAMBDA acc, k :
                LET s == (IF k <= la THEN a[la - k + 1] ELSE 0)
                         + (IF k <= lb THEN b[lb - k + 1] ELSE 0) + acc[1]
                IN << s \div 10, << s % 10 >> \o acc[2] >>,
              << 0, << >> >>,
              IF la >= lb THEN a ELSE b)
  IN IF r[1] = 0 THEN r[2] ELSE << r[1] >> \o r[2]

(* Subtraction a - b for a >= b (the final borrow is then 0).              *)
D_SubNat(a, b) ==
  LET la == Len(a)
      lb == Len(b)
      r  == FoldLeftDomain(
              LAMBDA acc, k :
                LET s == a[la - k + 1] - (IF k <= lb THEN b[lb - k + 1] ELSE 0) - acc[1]
                IN IF s < 0 THEN << 1, << s + 10 >> \o acc[2] >>
                   ELSE << 0, << s >> \o acc[2] >>,
              << 0, << >> >>,
              a)
  IN D_Strip(r[2])

\* decimal digits of a small natural (TLC integer); 0 gives << >>
RECURSIVE D_NatDigs0(_)
D_NatDigs0(n) == IF n = 0 THEN << >> ELSE Append(D_NatDigs0(n \div 10), n % 10)
D_NatDigs(n) == IF n = 0 THEN <<0>> ELSE D_NatDigs0(n)

(* Multiplication: column sums (convolution) then carry propagation.  A    *)
(* column sum is at most 81 * min(Len a, Len b), far below 2^31.           *)
(* Precondition of D_MulLS: Len(a) >= Len(b), both non-zero.               *)
D_MulLS(a, b) ==
  LET la == Len(a)
      lb == Len(b)
      \* sum of a[offset p - ob] * b[offset ob] over the valid offsets ob of b
      col(p) ==
        LET lo == D_Max(0, p - (la - 1))
            hi == D_Min(p, lb - 1)
        IN FoldLeft(LAMBDA acc, ob : acc + b[lb - ob] * a[la - (p - ob)],
                    0, [t \in 1..(hi - lo + 1) |-> lo + t - 1])
      r == FoldLeftDomain(
             LAMBDA acc, k :
               LET s == col(k - 1) + acc[1]
               IN << s \div 10, << s % 10 >> \o acc[2] >>,
             << 0, << >> >>,
             D_Zeros(la + lb - 1))
  IN D_NatDigs0(r[1]) \o r[2]

D_MulNat(a, b) ==
  IF D_NatIsZero(a) \/ D_NatIsZero(b) THEN <<0>>
  ELSE IF Len(a) >= Len(b) THEN D_MulLS(a, b) ELSE D_MulLS(b, a)

(* Long division n / d (d # 0): << quotient, remainder >>, both canonical. *)
(* tbl = << d, 2d, ..., 9d >>.                                             *)
D_Ge(a, b) == D_CmpNat(a, b) >= 0

D_QDigit(cur, tbl) ==
  IF D_Ge(cur, tbl[5])
  THEN IF D_Ge(cur, tbl[8])
       THEN (IF D_Ge(cur, tbl[9]) THEN 9 ELSE 8)
       ELSE IF D_Ge(cur, tbl[7]) THEN 7
            ELSE (IF D_Ge(cur, tbl[6]) THEN 6 ELSE 5)
  ELSE IF D_Ge(cur, tbl[3])
       THEN (IF D_Ge(cur, tbl[4]) THEN 4 ELSE 3)
       ELSE IF D_Ge(cur, tbl[2]) THEN 2
            ELSE (IF D_Ge(cur, tbl[1]) THEN 1 ELSE 0)

D_Multiples(d) ==
  LET m2 == D_AddNat(d, d)
      m3 == D_AddNat(m2, d)
      m4 == D_AddNat(m3, d)
      m5 == D_AddNat(m4, d)
      m6 == D_AddNat(m5, d)
      m7 == D_AddNat(m6, d)
      m8 == D_AddNat(m7, d)
      m9 == D_AddNat(m8, d)
  IN << d, m2, m3, m4, m5, m6, m7, m8, m9 >>

\* school division, one left fold over the digits of n;
\* accumulator << quotient digits so far, remainder >>
D_DivMod(n, d) ==
  LET tbl == D_Multiples(d)
      r   == FoldLeft(
               LAMBDA acc, x :
                 LET cur == IF D_NatIsZero(acc[2]) THEN << x >> ELSE Append(acc[2], x)
                     k   == D_QDigit(cur, tbl)
                 IN << Append(acc[1], k), IF k = 0 THEN cur ELSE D_SubNat(cur, tbl[k]) >>,
               << << >>, <<0>> >>,
               n)
  IN << D_Strip(r[1]), r[2] >>

\* small TLC natural from the first k digits of a short digit sequence (k <= 9)
RECURSIVE D_ToNat(_, _)
D_ToNat(s, k) == IF k = 0 THEN 0 ELSE 10 * D_ToNat(s, k - 1) + s[k]

-----------------------------------------------------------------------------
(***************************************************************************)
(* Rounding                                                                *)
(***************************************************************************)

DecIsZero(a) == D_NatIsZero(a.digs)
DecDigits(a) == Len(a.digs)
IntDigits(i) == Len(i.digs)
D_Adj(a) == Len(a.digs) + a.exp - 1           \* Decimal.adjusted()

\* _all_zeros(int, k) / _exact_half(int, k) with k = number of kept digits
D_RestZero(digs, k) == \A j \in (k + 1)..Len(digs) : digs[j] = 0
D_ExactHalf(digs, k) == digs[k + 1] = 5 /\ \A j \in (k + 2)..Len(digs) : digs[j] = 0

(* TRUE iff the rounding function returns 1 (increment the kept prefix).   *)
(* 0 <= k < Len(digs); mode "trunc" = ROUND_DOWN, "floor", "ceil",         *)
(* "half_even".                                                            *)
D_RoundUp(digs, sign, k, mode) ==
  CASE mode = "half_even" ->
         IF D_ExactHalf(digs, k) /\ (k = 0 \/ digs[k] % 2 = 0) THEN FALSE
         ELSE digs[k + 1] >= 5
    [] mode = "trunc" -> FALSE
    [] mode = "floor" -> sign = 1 /\ ~D_RestZero(digs, k)
    [] mode = "ceil"  -> sign = 0 /\ ~D_RestZero(digs, k)

(* Decimal._fix(context): round to prec significant digits, check the      *)
(* exponent range.  Subnormal results (adjusted exponent < Emin) are not   *)
(* modelled: "Unspecified".  Zeros are clamped into [Etiny, Emax] exactly  *)
(* as Python does (Clamped is not trapped).                                *)
DecFix(d, prec) ==
  IF DecIsZero(d)
  THEN D_Mk(d.sign, <<0>>, D_Min(D_Max(d.exp, D_Etiny(prec)), D_Emax))
  ELSE
    LET len    == Len(d.digs)
        expmin == len + d.exp - prec
    IN IF expmin > D_Etop(prec) THEN D_Sig("Overflow")
       ELSE IF expmin < D_Etiny(prec) THEN D_Sig("Unspecified")
       ELSE IF d.exp < expmin
       THEN \* more than prec digits: keep prec of them
         LET up    == D_RoundUp(d.digs, d.sign, prec, "half_even")
             kept  == SubSeq(d.digs, 1, prec)
             c1    == IF up THEN D_AddNat(kept, <<1>>) ELSE kept
             carry == Len(c1) > prec
             c2    == IF carry THEN SubSeq(c1, 1, prec) ELSE c1
             e2    == IF carry THEN expmin + 1 ELSE expmin
         IN IF e2 > D_Etop(prec) THEN D_Sig("Overflow") ELSE D_Mk(d.sign, c2, e2)
       ELSE D_Mk(d.sign, d.digs, d.exp)

(* Decimal._rescale(exp, rounding): quiet, context free.                   *)
D_Rescale(a, e, mode) ==
  IF DecIsZero(a) THEN D_Mk(a.sign, <<0>>, e)
  ELSE IF a.exp >= e THEN D_Mk(a.sign, D_Pad(a.digs, a.exp - e), e)
  ELSE
    LET k == Len(a.digs) + a.exp - e IN
    IF k < 0
    THEN \* self is replaced by 1E(e-1), no digit is kept
      D_Mk(a.sign, IF D_RoundUp(<<1>>, a.sign, 0, mode) THEN <<1>> ELSE <<0>>, e)
    ELSE
      LET kept == IF k = 0 THEN <<0>> ELSE SubSeq(a.digs, 1, k)
      IN D_Mk(a.sign,
              IF D_RoundUp(a.digs, a.sign, k, mode) THEN D_AddNat(kept, <<1>>) ELSE kept,
              e)

-----------------------------------------------------------------------------
(***************************************************************************)
(* Construction                                                            *)
(***************************************************************************)

(* decimal.Decimal(text) for text matching \d+(\.\d+)? given as code       *)
(* points.  Exact: no rounding at construction.                            *)
D_DotPos(cps) ==   \* index of '.', 0 if none (at most one by the regex)
  IF \E k \in 1..Len(cps) : cps[k] = 46
  THEN CHOOSE k \in 1..Len(cps) : cps[k] = 46
  ELSE 0

DecFromLiteral(cps) ==
  LET dot  == D_DotPos(cps)
      n    == Len(cps)
      frac == IF dot = 0 THEN 0 ELSE n - dot
      raw  == IF dot = 0 THEN [i \in 1..n |-> cps[i] - 48]
              ELSE [i \in 1..(n - 1) |-> IF i < dot THEN cps[i] - 48 ELSE cps[i + 1] - 48]
  IN D_Mk(0, D_Strip(<< >> \o raw), -frac)

IntToDec(i) == D_Mk(IF D_NatIsZero(i.digs) THEN 0 ELSE i.sign, i.digs, 0)
DecFromInt(i) == IntToDec(i)

-----------------------------------------------------------------------------
(***************************************************************************)
(* Arithmetic                                                              *)
(***************************************************************************)

D_Negate(b) == D_Mk(1 - b.sign, b.digs, b.exp)       \* copy_negate
D_CopyAbs(b) == D_Mk(0, b.digs, b.exp)               \* copy_abs

(* Decimal.__add__ (rounding # ROUND_FLOOR, so negativezero = 0)           *)
DecAdd(a, b, prec) ==
  LET za == DecIsZero(a)
      zb == DecIsZero(b)
      e  == D_Min(a.exp, b.exp)
  IN
  IF za /\ zb THEN DecFix(D_Mk(D_Min(a.sign, b.sign), <<0>>, e), prec)
  ELSE IF za THEN DecFix(D_Rescale(b, D_Max(e, b.exp - prec - 1), "half_even"), prec)
  ELSE IF zb THEN DecFix(D_Rescale(a, D_Max(e, a.exp - prec - 1), "half_even"), prec)
  ELSE
    \* _normalize(op1, op2, prec)
    LET aIsTmp == ~(a.exp < b.exp)
        tmp    == IF aIsTmp THEN a ELSE b
        oth    == IF aIsTmp THEN b ELSE a
        ex     == tmp.exp + D_Min(-1, Len(tmp.digs) - prec - 2)
        repl   == Len(oth.digs) + oth.exp - 1 < ex
        othD   == IF repl THEN <<1>> ELSE oth.digs
        ce     == IF repl THEN ex ELSE oth.exp          \* common exponent
        tmpD   == D_Pad(tmp.digs, tmp.exp - ce)
        ad     == IF aIsTmp THEN tmpD ELSE othD
        bd     == IF aIsTmp THEN othD ELSE tmpD
        c      == D_CmpNat(ad, bd)
    IN
    IF a.sign # b.sign
    THEN IF c = 0 THEN DecFix(D_Mk(0, <<0>>, e), prec)
         ELSE IF c > 0 THEN DecFix(D_Mk(a.sign, D_SubNat(ad, bd), ce), prec)
         ELSE DecFix(D_Mk(b.sign, D_SubNat(bd, ad), ce), prec)
    ELSE DecFix(D_Mk(a.sign, D_AddNat(ad, bd), ce), prec)

(* Decimal.__sub__ : self + other.copy_negate()                            *)
DecSub(a, b, prec) == DecAdd(a, D_Negate(b), prec)

(* Decimal.__mul__  (the "coefficient is 1" shortcuts give the same value) *)
DecMul(a, b, prec) ==
  LET s == (a.sign + b.sign) % 2
      e == a.exp + b.exp
  IN IF DecIsZero(a) \/ DecIsZero(b) THEN DecFix(D_Mk(s, <<0>>, e), prec)
     ELSE DecFix(D_Mk(s, D_MulNat(a.digs, b.digs), e), prec)

(* Decimal.__truediv__                                                     *)
DecDiv(a, b, prec) ==
  LET s == (a.sign + b.sign) % 2 IN
  IF DecIsZero(b)
  THEN (IF DecIsZero(a) THEN D_Sig("InvalidOperation") ELSE D_Sig("DivisionByZero"))
  ELSE IF DecIsZero(a) THEN DecFix(D_Mk(s, <<0>>, a.exp - b.exp), prec)
  ELSE
    LET shift == Len(b.digs) - Len(a.digs) + prec + 1
        e0    == a.exp - b.exp - shift
        qr    == IF shift >= 0 THEN D_DivMod(D_Pad(a.digs, shift), b.digs)
                 ELSE D_DivMod(a.digs, D_Pad(b.digs, -shift))
        q     == qr[1]
        lq    == Len(q)
    IN
    IF ~D_NatIsZero(qr[2])
    THEN \* inexact: make the truncated quotient round correctly
      DecFix(D_Mk(s, IF q[lq] % 5 = 0 THEN [q EXCEPT ![lq] = @ + 1] ELSE q, e0), prec)
    ELSE \* exact: move towards the ideal exponent a.exp - b.exp = e0 + shift
      LET n == D_Max(0, D_Min(D_TrailZ(q), shift))
      IN DecFix(D_Mk(s, IF n = 0 THEN q ELSE SubSeq(q, 1, lq - n), e0 + n), prec)

(* __neg__, __pos__, __abs__ : they round, and -0 -> 0, +(-0) -> 0         *)
DecNeg(a, prec) == DecFix(IF DecIsZero(a) THEN D_CopyAbs(a) ELSE D_Negate(a), prec)
DecPlus(a, prec) == DecFix(IF DecIsZero(a) THEN D_CopyAbs(a) ELSE a, prec)
DecAbs(a, prec) == IF a.sign = 1 THEN DecNeg(a, prec) ELSE DecPlus(a, prec)

(* Decimal._cmp : exact order, no rounding, no huge coefficients           *)
DecCmp(a, b) ==
  LET za == DecIsZero(a)
      zb == DecIsZero(b)
  IN
  IF za THEN (IF zb THEN 0 ELSE IF b.sign = 1 THEN 1 ELSE -1)
  ELSE IF zb THEN (IF a.sign = 1 THEN -1 ELSE 1)
  ELSE IF b.sign < a.sign THEN -1
  ELSE IF a.sign < b.sign THEN 1
  ELSE
    LET aa == D_Adj(a)
        ab == D_Adj(b)
        m  == IF a.sign = 1 THEN -1 ELSE 1
    IN IF aa > ab THEN m
       ELSE IF aa < ab THEN -m
       ELSE m * D_LexCmp(D_Pad(a.digs, a.exp - b.exp), D_Pad(b.digs, b.exp - a.exp))

DecEq(a, b) == DecCmp(a, b) = 0

-----------------------------------------------------------------------------
(***************************************************************************)
(* Conversions                                                             *)
(***************************************************************************)

D_Cps(digs) == << >> \o [i \in 1..Len(digs) |-> digs[i] + 48]
D_Cp0(n) == [i \in 1..n |-> 48]

(* Decimal.__str__ (scientific string, capitals = 1)                       *)
DecToStr(a) ==
  LET len  == Len(a.digs)
      left == a.exp + len
      dotp == IF a.exp <= 0 /\ left > -6 THEN left ELSE 1
      cps  == D_Cps(a.digs)
      ip   == IF dotp <= 0 THEN <<48>>
              ELSE IF dotp >= len THEN cps \o D_Cp0(dotp - len)
              ELSE SubSeq(cps, 1, dotp)
      fp   == IF dotp <= 0 THEN (<<46>> \o D_Cp0(-dotp)) \o cps
              ELSE IF dotp >= len THEN << >>
              ELSE <<46>> \o SubSeq(cps, dotp + 1, len)
      x    == left - dotp
      ep   == IF x = 0 THEN << >>
              ELSE IF x > 0 THEN <<69, 43>> \o D_Cps(D_NatDigs(x))
              ELSE <<69, 45>> \o D_Cps(D_NatDigs(-x))
  IN (((IF a.sign = 1 THEN <<45>> ELSE << >>) \o ip) \o fp) \o ep

IntToStr(i) ==
  (IF i.sign = 1 /\ ~D_NatIsZero(i.digs) THEN <<45>> ELSE << >>) \o D_Cps(i.digs)

(* int(d) ("trunc"), math.floor(d), math.ceil(d), round(d) ("half_even"):  *)
(* int(self._rescale(0, rounding)).  A non-zero value with exp > 60 is not *)
(* expanded: [sig |-> "Huge", digits |-> number of digits of the int].     *)
(* (A zero with a large exponent is simply 0.)                             *)
DecToIntegral(a, mode) ==
  IF DecIsZero(a) THEN D_MkInt(0, <<0>>)
  ELSE IF a.exp > 60 THEN [sig |-> "Huge", digits |-> Len(a.digs) + a.exp]
  ELSE LET r == D_Rescale(a, 0, mode)
       IN IF D_NatIsZero(r.digs) THEN D_MkInt(0, <<0>>) ELSE D_MkInt(r.sign, r.digs)

(* round(d, nd) = d.quantize(Decimal((0, (1,), -nd)))  in the context      *)
DecQuantize(a, nd, prec) ==
  LET e == -nd IN
  IF ~(D_Etiny(prec) <= e /\ e <= D_Emax) THEN D_Sig("InvalidOperation")
  ELSE IF DecIsZero(a) THEN DecFix(D_Mk(a.sign, <<0>>, e), prec)
  ELSE IF D_Adj(a) > D_Emax THEN D_Sig("InvalidOperation")
  ELSE IF D_Adj(a) - e + 1 > prec THEN D_Sig("InvalidOperation")
  ELSE LET r == D_Rescale(a, e, "half_even") IN
       IF D_Adj(r) > D_Emax THEN D_Sig("InvalidOperation")
       ELSE IF Len(r.digs) > prec THEN D_Sig("InvalidOperation")
       ELSE DecFix(r, prec)

-----------------------------------------------------------------------------
(***************************************************************************)
(* Power: relational envelope only                                         *)
(***************************************************************************)

(* n if d is an integer with 0 <= d <= 50, else -1                         *)
DecSmallNat(d) ==
  IF DecIsZero(d) THEN 0
  ELSE IF d.sign = 1 THEN -1
  ELSE LET k == Len(d.digs) + d.exp IN       \* digits left of the point
       IF k < 1 \/ k > 2 THEN -1
       ELSE IF d.exp >= 0
            THEN LET v == D_ToNat(D_Pad(d.digs, d.exp), k) IN IF v <= 50 THEN v ELSE -1
            ELSE IF ~D_RestZero(d.digs, k) THEN -1
                 ELSE LET v == D_ToNat(d.digs, k) IN IF v <= 50 THEN v ELSE -1

D_PowNat(x, n) == FoldLeftDomain(LAMBDA acc, k : D_MulNat(acc, x), <<1>>, D_Zeros(n))

(* TRUE iff r is a plausible value of a ** n (n a TLC natural, n <= 50):   *)
(* same sign, at most prec digits, within one unit in the last place of r  *)
(* of the exact power; or the matching signal.  Results whose exact value  *)
(* is below the normal range are not constrained.                          *)
DecPowEnvelope(a, n, r, prec) ==
  LET za  == DecIsZero(a)
      se  == IF n % 2 = 1 THEN a.sign ELSE 0
      E   == D_PowNat(a.digs, n)
      ee  == a.exp * n
      adE == Len(E) + ee - 1
  IN
  IF IsSig(r)
  THEN \/ r.sig = "InvalidOperation" /\ za /\ n = 0
       \/ r.sig = "Overflow" /\ ~za /\ n > 0 /\ adE >= D_Emax
       \/ r.sig = "Unspecified" /\ ~za /\ n > 0 /\ adE <= D_Emin     \* subnormal
  ELSE IF za /\ n = 0 THEN FALSE
  ELSE IF za THEN DecIsZero(r) /\ r.sign = se
  ELSE IF adE < D_Emin THEN TRUE
  ELSE
    /\ ~DecIsZero(r)
    /\ r.sign = se
    /\ Len(r.digs) <= prec
    /\ D_Adj(r) <= D_Emax
    /\ D_Adj(r) - adE <= 1 /\ adE - D_Adj(r) <= 1
    /\ LET m  == D_Min(r.exp, ee)
           lo == D_SubNat(r.digs, <<1>>)
           hi == D_AddNat(r.digs, <<1>>)
           X  == D_Pad(E, ee - m)
           Lo == IF D_NatIsZero(lo) THEN <<0>> ELSE D_Pad(lo, r.exp - m)
           Hi == D_Pad(hi, r.exp - m)
       IN D_CmpNat(Lo, X) <= 0 /\ D_CmpNat(X, Hi) <= 0

-----------------------------------------------------------------------------
(***************************************************************************)
(* Independent oracle (tiny operands, TLC integers)                        *)
(*                                                                         *)
(* r is the round-half-even value, to prec significant digits and with the *)
(* exponent the General Decimal Arithmetic prescribes, of the exact        *)
(* rational  (-1)^sa ca 10^ea  op  (-1)^sb cb 10^eb,  op in + - * /.       *)
(* Only multiplication, addition and comparison of integers are used: the  *)
(* exact value is N/D * 10^x and r = c * 10^e is compared with it by cross *)
(* multiplication.  No digit-sequence arithmetic, no division, no rounding *)
(* procedure.  TLC raises an overflow error (never a wrong verdict) if the *)
(* operands are too large for 32-bit integers.                             *)
(***************************************************************************)
CorrectlyRounded(sa, ca, ea, sb, cb, eb, op, r, prec) ==
  LET addl == op \in {"+", "-"}
      sb2  == IF op = "-" THEN 1 - sb ELSE sb
      m    == D_Min(ea, eb)
      A    == (IF sa = 1 THEN -1 ELSE 1) * ca * 10^(ea - m)
      B    == (IF sb2 = 1 THEN -1 ELSE 1) * cb * 10^(eb - m)
      S    == A + B
      N    == IF addl THEN (IF S < 0 THEN -S ELSE S) ELSE IF op = "*" THEN ca * cb ELSE ca
      D    == IF op = "/" THEN cb ELSE 1
      \* exponent of the exact value = the ideal exponent of the result
      x    == IF addl THEN m ELSE IF op = "*" THEN ea + eb ELSE ea - eb
      sg   == IF addl
              THEN (IF S < 0 THEN 1 ELSE IF S > 0 THEN 0
                    ELSE IF sa = 1 /\ sb2 = 1 THEN 1 ELSE 0)
              ELSE (sa + sb) % 2
  IN
  IF op = "/" /\ cb = 0
  THEN IsSig(r) /\ r.sig = (IF ca = 0 THEN "InvalidOperation" ELSE "DivisionByZero")
  ELSE
    /\ ~IsSig(r)
    /\ r.sign = sg
    /\ IF N = 0 THEN r.digs = <<0>> /\ r.exp = x
       ELSE
         LET c  == D_ToNat(r.digs, Len(r.digs))
             e  == r.exp
             mm == D_Min(x, e)
             L  == N * 10^(x - mm)            \* |exact| * D / 10^mm
             R  == c * D * 10^(e - mm)        \* |r|     * D / 10^mm
             U  == D * 10^(e - mm)            \* one unit in the last place of r
         IN
         /\ r.digs[1] # 0
         /\ Len(r.digs) <= prec
         /\ IF L = R
            THEN \* exact: ideal exponent, or as close to it as possible
              \/ e = x
              \/ e > x /\ Len(r.digs) = prec
              \/ e < x /\ op = "/" /\ c % 10 # 0
            ELSE \* inexact: full precision, nearest, ties to even
              /\ Len(r.digs) = prec
              /\ IF R < L
                 THEN 2 * (L - R) < U \/ (2 * (L - R) = U /\ c % 2 = 0)
                 ELSE IF c = 10^(prec - 1)
                 THEN 20 * (R - L) <= U      \* below 10..0 the spacing is U/10
                 ELSE 2 * (R - L) < U \/ (2 * (R - L) = U /\ c % 2 = 0)

=============================================================================
