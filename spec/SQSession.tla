------------------------------ MODULE SQSession ------------------------------
(***************************************************************************)
(* One SqParser over time (sq_parser.py): what survives between calls is   *)
(* the lexer residue (lexpos, lineno, paren_count), the tree slot lex.ast  *)
(* and the host-supplied parse cache.  Every parse / list_names call       *)
(* starts with an explicit Reset step (sq_parser.py:31-35, 46-51); the     *)
(* lexing of the call then starts from whatever the residue is.            *)
(*                                                                         *)
(* Properties:                                                             *)
(*  C11  HistInd: the outcome of every call equals the outcome of the same *)
(*       call on a fresh parser; ResetCovers: lexing starts at (0, 1, 0).  *)
(*  C17  Transparent: a parser with a cache (dict, pre-warmed, LRU(1),     *)
(*       always-evicting) returns what the cache-less parser returns;      *)
(*       CacheKeys: exact source text as key, only successful parses.      *)
(*                                                                         *)
(* Deviation names (specification mutants for non-vacuity):                *)
(*   MutNoParenReset, MutNoLinenoResetInListNames, MutCacheStripKey,       *)
(*   MutCacheFailures                                                      *)
(***************************************************************************)
EXTENDS SQGrammar, Json, IOUtils

CONSTANTS MaxCalls, CacheKind       \* CacheKind: "none" | "dict" | "warm" | "lru1" | "evict"

Input == JsonDeserialize(IOEnv.SOURCES_FILE)      \* [sources |-> <<cps, ...>>]
Sources == Input.sources
NS == Len(Sources)
AsciiOnly(c) == [cls |-> "other", s |-> "?", dv |-> 0]

VARIABLES res, slot, cache, phase, cur, outs
vars == <<res, slot, cache, phase, cur, outs>>

InitRes == [pos |-> 0, lineno |-> 1, paren |-> 0]
NoCall == [op |-> "none", si |-> 0, k |-> 0]

\* calls: parse(src) | list_names(src) consumed completely | list_names(src) abandoned after k names | eval(src)
Calls == [op : {"parse", "names", "eval"}, si : 1..NS, k : {0}] \cup [op : {"names_partial"}, si : 1..NS, k : {1}]

\* lexing src starting from the lexer state st0 (lex.input() resets lexpos only)
LexFrom(cps, st0) ==
    LET st == LexRun(cps, [LexInit EXCEPT !.lineno = st0.lineno, !.paren = st0.paren]) IN
    [toks |-> st.toks, err |-> IF st.status = "illegal" THEN "illegal" ELSE "none",
     errpos |-> st.errpos, errch |-> st.errch, pos |-> st.pos, lineno |-> st.lineno, paren |-> st.paren]
\* what a parse of src observes when lexing starts at st0: accept/tree or error kind/token/line
Outcome(r) == IF r.ok THEN [ok |-> TRUE, tree |-> r.tree]
              ELSE [ok |-> FALSE, kind |-> r.kind, msg |-> r.msg]
ParseFrom(cps, st0) == ParseLexedD(LexFrom(cps, st0), Deviations)
NamesFrom(cps, st0) == LET lx == LexFrom(cps, st0) IN [names |-> NamesOf(lx.toks), err |-> lx.err, lx |-> lx]
\* residue after list_names yielded its k-th name and was abandoned
RECURSIVE KthName(_, _, _)
KthName(toks, k, i) == IF i > Len(toks) THEN 0 ELSE IF toks[i].type = "NAME" THEN (IF k = 1 THEN i ELSE KthName(toks, k - 1, i + 1)) ELSE KthName(toks, k, i + 1)
PartialResidue(lx, k) == LET i == KthName(lx.toks, k, 1) IN
                         IF i = 0 THEN [pos |-> lx.pos, lineno |-> lx.lineno, paren |-> lx.paren]
                         ELSE [pos |-> lx.toks[i].endpos, lineno |-> LinenoAfter(lx.toks[i]), paren |-> lx.toks[i].paren]

\* cache as a sequence of <<key cps, tree>> (most recent last)
CacheHas(c, key) == \E i \in 1..Len(c) : c[i][1] = key
CacheGet(c, key) == c[CHOOSE i \in 1..Len(c) : c[i][1] = key][2]
CachePut(c, key, t) ==
    CASE CacheKind = "evict" -> <<>>
      [] CacheKind = "lru1" -> <<<<key, t>>>>
      [] OTHER -> (IF CacheHas(c, key) THEN c ELSE Append(c, <<key, t>>))
RECURSIVE RStrip(_)
RStrip(s) == IF Len(s) > 0 /\ s[Len(s)] \in {32, 9, 10, 13, 11, 12} THEN RStrip(SubSeq(s, 1, Len(s) - 1)) ELSE s
RECURSIVE LStrip(_)
LStrip(s) == IF Len(s) > 0 /\ s[1] \in {32, 9, 10, 13, 11, 12} THEN LStrip(Tail(s)) ELSE s
\* the text parse() is called with: eval strips trailing whitespace first (sq_parser.py:72)
TextOf(c) == IF c.op = "eval" THEN RStrip(Sources[c.si]) ELSE Sources[c.si]
KeyOf(c) == IF "MutCacheStripKey" \in Deviations THEN LStrip(RStrip(TextOf(c))) ELSE TextOf(c)

Init == /\ res = InitRes /\ slot = "none" /\ phase = "idle" /\ cur = NoCall /\ outs = <<>>
        /\ cache = IF CacheKind = "warm" THEN <<<<Sources[1], ParseFrom(Sources[1], InitRes).tree>>>> ELSE <<>>

\* step 1 of a call: the resets (or a cache hit, which touches nothing)
Begin(c) ==
    /\ phase = "idle" /\ Len(outs) < MaxCalls /\ ~(c.op = "names_partial" /\ c.k = 0)
    /\ cur' = c
    /\ IF c.op \in {"parse", "eval"} /\ CacheKind # "none" /\ CacheHas(cache, KeyOf(c))
       THEN /\ phase' = "hit" /\ UNCHANGED <<res, slot>>
       ELSE /\ phase' = "lex"
            /\ res' = [pos |-> 0,
                       lineno |-> IF c.op \in {"names", "names_partial"} /\ "MutNoLinenoResetInListNames" \in Deviations THEN res.lineno ELSE 1,
                       paren |-> IF "MutNoParenReset" \in Deviations THEN res.paren ELSE 0]
            /\ slot' = IF c.op \in {"parse", "eval"} THEN "none" ELSE slot
    /\ UNCHANGED <<cache, outs>>
\* step 2: lexing / parsing from the residue
Run ==
    /\ phase = "lex"
    /\ LET cps == TextOf(cur) IN
       IF cur.op \in {"parse", "eval"}
       THEN LET r == ParseFrom(cps, res) IN
            /\ outs' = Append(outs, [call |-> cur, o |-> Outcome(r), from |-> res])
            /\ res' = r.residue
            /\ slot' = IF r.ok THEN "tree" ELSE slot
            /\ cache' = IF CacheKind = "none" THEN cache
                        ELSE IF r.ok THEN CachePut(cache, KeyOf(cur), r.tree)
                        ELSE IF "MutCacheFailures" \in Deviations THEN CachePut(cache, KeyOf(cur), [k |-> "code", ch |-> <<>>])
                        ELSE cache
       ELSE LET n == NamesFrom(cps, res) IN
            /\ outs' = Append(outs, [call |-> cur, from |-> res,
                                     o |-> IF cur.op = "names" THEN [names |-> n.names, err |-> n.err]
                                           ELSE [names |-> SubSeq(n.names, 1, IF Len(n.names) < cur.k THEN Len(n.names) ELSE cur.k)]])
            /\ res' = IF cur.op = "names" THEN [pos |-> n.lx.pos, lineno |-> n.lx.lineno, paren |-> n.lx.paren] ELSE PartialResidue(n.lx, cur.k)
            /\ UNCHANGED <<slot, cache>>
    /\ phase' = "idle" /\ UNCHANGED cur
Hit ==
    /\ phase = "hit"
    /\ outs' = Append(outs, [call |-> cur, from |-> res, o |-> [ok |-> TRUE, tree |-> CacheGet(cache, KeyOf(cur))]])
    /\ phase' = "idle" /\ UNCHANGED <<res, slot, cache, cur>>

\* a list_names generator that is created but never advanced does nothing at all
Noop(c) == /\ phase = "idle" /\ c.op = "names_partial" /\ c.k = 0
           /\ outs' = Append(outs, [call |-> c, from |-> res, o |-> [names |-> <<>>]])
           /\ UNCHANGED <<res, slot, cache, phase, cur>>
Next == (\E c \in Calls : Begin(c)) \/ Run \/ Hit
Spec == Init /\ [][Next]_vars

(***************************************************************************)
\* the same call on a freshly constructed parser without a cache
Fresh(c) == LET cps == TextOf(c) IN
            CASE c.op \in {"parse", "eval"} -> Outcome(ParseFrom(cps, InitRes))
              [] c.op = "names" -> LET n == NamesFrom(cps, InitRes) IN [names |-> n.names, err |-> n.err]
              [] OTHER -> LET n == NamesFrom(cps, InitRes) IN [names |-> SubSeq(n.names, 1, IF Len(n.names) < c.k THEN Len(n.names) ELSE c.k)]
\* C11 (and C17 when CacheKind # "none"): every call's outcome is that of a fresh, cache-less parser
HistInd == \A i \in 1..Len(outs) : outs[i].o = Fresh(outs[i].call)
\* C11: lexing always starts from the reset state
ResetCovers == phase = "lex" => res = InitRes
\* C17: keys are exact texts of successful parses
CacheKeys == \A i \in 1..Len(cache) :
                /\ ParseFrom(cache[i][1], InitRes).ok /\ cache[i][2] = ParseFrom(cache[i][1], InitRes).tree
                /\ \/ (CacheKind = "warm" /\ cache[i][1] = Sources[1])
                   \/ \E j \in 1..Len(outs) : outs[j].call.op \in {"parse", "eval"} /\ outs[j].o.ok /\ TextOf(outs[j].call) = cache[i][1]
=============================================================================
