------------------------------- MODULE MC_C07 -------------------------------
(***************************************************************************)
(* Property C07: evaluation agrees with the reference semantics on every   *)
(* well-typed program.  The specification IS the reference semantics; this *)
(* model is the type-directed program generator (types Num Str Bool List   *)
(* Dict Fun) over every operator, statement form, slice form and           *)
(* deterministic builtin.  TLC evaluates every program (generic VM         *)
(* invariants) and prints it with its outcome; the harness replays each on *)
(* the real SqParser and TLC validates the recorded trace.                 *)
(***************************************************************************)
EXTENDS MCVM

CONSTANT Tier

HInt(n) == [t |-> "int", sign |-> 0, digs |-> <<n>>]
HDec(ds, e) == [t |-> "dec", sub |-> FALSE, sign |-> 0, digs |-> ds, exp |-> e]
HStr(s) == [t |-> "str", s |-> s]
Heap0 == << [t |-> "list", items |-> <<HInt(3), HInt(1), HInt(2)>>],
            [t |-> "dict", items |-> << <<<<107>>, HInt(2)>>, <<<<49>>, HDec(<<1, 5>>, -1)>> >>],
            [t |-> "list", items |-> <<HStr(<<98>>), HStr(<<97>>)>>] >>
Names0 == [n1 |-> [x |-> HDec(<<3>>, 0), n |-> HInt(4), s |-> HStr(<<72, 105, 32, 121, 111, 117>>),       \* "Hi you"
                   l |-> [t |-> "list", addr |-> 1], d |-> [t |-> "dict", addr |-> 2], ls |-> [t |-> "list", addr |-> 3]]]

Num(k) == NVal(VNum(k))
Half == NVal([t |-> "dec", sub |-> TRUE, sign |-> 0, digs |-> <<5>>, exp |-> -1])
OneSeven == NVal([t |-> "dec", sub |-> TRUE, sign |-> 0, digs |-> <<1, 7>>, exp |-> -1])
St(c) == NVal(VStr(c))
V(nm) == NName(nm)
Nn == NVal(VNone)

NumE0 == {Num(1), Num(2), Half, V("x"), V("n")}
StrE0 == {St(<<97>>), St(<<98, 32, 99>>), V("s")}
BoolE0 == {NVal(VBool(TRUE)), NVal(VBool(FALSE))}
ListE0 == {NList(<<Num(1), Num(2)>>), V("l"), NList(<<>>)}
DictE0 == {NDict(<<St(<<97>>), Num(1)>>), V("d")}
AnyE0 == NumE0 \cup StrE0 \cup BoolE0 \cup {Nn, V("l"), V("d")}
Inc == NLambda(<<"v">>, NBin("+", V("v"), Num(1)))
IsBig == NLambda(<<"v">>, NBin(">", V("v"), Num(1)))
Add2 == NLambda(<<"p", "q">>, NBin("+", V("p"), V("q")))
NegK == NLambda(<<"v">>, NUn("-", V("v")))
Idx == {Num(0), NUn("-", Num(1)), OneSeven, Num(5), NVal(VBool(TRUE))}

NumE1(A, B) ==
    {NBin(o, a, b) : o \in {"+", "-", "*", "/"}, a \in A, b \in B}
    \cup {NUn("-", a) : a \in A}
    \cup {NCall(f, <<a>>) : f \in {"int", "round", "floor", "ceil", "abs"}, a \in A}
    \cup {NCall("round", <<a, k>>) : a \in A, k \in {Num(0), Num(1), Num(2)}}
    \cup {NCall("len", <<c>>) : c \in StrE0 \cup ListE0 \cup DictE0}
    \cup {NIndex(V("l"), i) : i \in Idx}
    \cup {NIndex(V("d"), k) : k \in {St(<<107>>), Num(1), St(<<122>>)}}
    \cup {NCall(f, <<c>>) : f \in {"sum", "min", "max"}, c \in ListE0}
    \cup {NCall(f, <<a, b>>) : f \in {"min", "max"}, a \in A, b \in B}
    \cup {NCall("get", <<V("d"), k, a>>) : k \in {St(<<107>>), St(<<122>>)}, a \in A}
    \cup {NCall("index_of", <<V("l"), a>>) : a \in A}
    \cup {NIf(c, a, b) : c \in BoolE0, a \in A, b \in B}
    \cup {NCall("reduce", <<c, Add2>>) : c \in ListE0}
    \cup {NBin("**", a, k) : a \in A, k \in {Num(2), Num(0)}}
StrE1 ==
    {NBin("+", a, b) : a \in StrE0, b \in AnyE0}
    \cup {NCall(f, <<a>>) : f \in {"lower", "upper", "strip", "reversed"}, a \in StrE0}
    \cup {NCall("str", <<a>>) : a \in AnyE0}
    \cup {NCall("pretty", <<a>>) : a \in AnyE0 \cup {Num(1) (* placeholder keeps the set homogeneous *)}}
    \cup {NCall("replace", <<a, St(<<32>>), St(<<95>>)>>) : a \in StrE0}
    \cup {NCall("join", <<c, St(<<44>>)>>) : c \in ListE0 \cup {V("ls")}}
    \cup {NIndex(a, i) : a \in StrE0, i \in Idx}
    \cup {NIndex(a, NSlice(i, j, Nn)) : a \in StrE0, i \in {Nn, Num(1), NUn("-", Num(2))}, j \in {Nn, Num(2), NUn("-", Num(1))}}
    \cup {NCall("pretty", <<NBin("*", V("x"), Num(2))>>)}
BoolE1 ==
    {NBin(o, a, b) : o \in {"==", "!=", "<", ">", "<=", ">="}, a \in NumE0, b \in NumE0}
    \cup {NBin(o, a, b) : o \in {"==", "<"}, a \in StrE0, b \in StrE0}
    \cup {NBin(o, a, b) : o \in {"and", "or"}, a \in AnyE0, b \in BoolE0}
    \cup {NUn("not", a) : a \in AnyE0}
    \cup {NBin(o, a, c) : o \in {"in", "not in"}, a \in NumE0, c \in ListE0}
    \cup {NBin("in", a, b) : a \in StrE0, b \in StrE0}
    \cup {NBin("in", k, V("d")) : k \in {St(<<107>>), Num(1), St(<<122>>)}}
    \cup {NCall(f, <<a, b>>) : f \in {"startswith", "endswith"}, a \in StrE0, b \in StrE0}
    \cup {NBin("==", a, b) : a \in ListE0, b \in ListE0}
    \cup {NBin("==", a, b) : a \in AnyE0, b \in {Nn, Num(1), St(<<97>>)}}
ListE1 ==
    {NBin("+", a, b) : a \in ListE0, b \in ListE0}
    \cup {NIndex(a, NSlice(i, j, k)) : a \in ListE0, i \in {Nn, Num(1)}, j \in {Nn, NUn("-", Num(1))}, k \in {Nn, NUn("-", Num(1)), Num(2)}}
    \cup {NCall("sorted", <<a>>) : a \in ListE0 \cup {V("ls"), V("d")}}
    \cup {NCall("sorted", <<a, kf, r>>) : a \in ListE0, kf \in {Nn, NegK}, r \in BoolE0}
    \cup {NCall("reversed", <<a>>) : a \in ListE0}
    \cup {NCall("map", <<a, Inc>>) : a \in ListE0}
    \cup {NCall("filter", <<a, IsBig>>) : a \in ListE0}
    \cup {NCall(f, <<V("d")>>) : f \in {"keys", "values", "items"}}
    \cup {NCall("split", <<a, St(<<32>>)>>) : a \in StrE0}
    \cup {NCall("enumerate", <<a>>) : a \in ListE0 \cup StrE0}
    \cup {NCall("map", <<V("d"), Add2>>), NCall("map", <<V("s"), NLambda(<<"v">>, NCall("upper", <<V("v")>>))>>)}
Exprs == NumE1(NumE0, NumE0) \cup StrE1 \cup BoolE1 \cup ListE1 \cup AnyE0 \cup ListE0 \cup DictE0
\* depth 2: a numeric operator over one depth-1 operand
NumE2 == LET small == {e \in NumE1(NumE0, {Num(2), V("x")}) : TRUE} IN NumE1(small, {Num(2), Half})
Stmts ==
    {<<NAssign("y", e), V("y")>> : e \in NumE0 \cup StrE0 \cup ListE0 \cup DictE0}
    \cup {<<NAssign("y", a), NShort("y", o, b), V("y")>> : a \in {Num(2), V("n"), V("x")}, o \in {"+=", "-=", "*=", "/="}, b \in {Num(2), Half, V("n")}}
    \cup {<<NAssign("y", a), NShort("y", "+=", b), V("y")>> : a \in StrE0, b \in AnyE0}
    \cup {<<NAssign("y", NList(<<Num(1)>>)), NShort("y", "+=", b), V("y")>> : b \in ListE0 \cup StrE0}
    \cup {<<NSetItem(V("l"), i, e), V("l")>> : i \in Idx, e \in {Num(7), St(<<97>>)}}
    \cup {<<NSetItem(V("d"), k, e), V("d")>> : k \in {St(<<107>>), Num(1), Half, Nn, NVal(VBool(TRUE))}, e \in {Num(7), V("l")}}
    \cup {<<NSetOp(V("l"), i, o, Num(2)), V("l")>> : i \in {Num(0), NUn("-", Num(1)), OneSeven}, o \in {<<43, 61>>, <<45, 61>>, <<42, 61>>, <<47, 61>>}}
    \cup {<<NSetOp(V("d"), St(<<107>>), o, Num(2)), V("d")>> : o \in {<<43, 61>>, <<42, 61>>}}
    \cup {<<NDel(V("l"), i), V("l")>> : i \in Idx}
    \cup {<<NDel(V("d"), k), V("d")>> : k \in {St(<<107>>), Num(1), St(<<122>>)}}
    \cup {<<NCall("push", <<V("l"), e>>), V("l")>> : e \in AnyE0}
    \cup {<<NCall("pop", <<V("l")>>), V("l")>>, <<NCall("pop", <<V("l"), Num(0)>>), V("l")>>}
    \cup {<<NCall("insert", <<V("l"), i, Num(9)>>), V("l")>> : i \in Idx}
    \cup {<<NCall("remove", <<V("l"), e>>), V("l")>> : e \in NumE0}
    \cup {<<NAssign("f", Inc), NCall("f", <<a>>)>> : a \in NumE0}
    \cup {<<NAssign("f", NLambda(<<"p", "q">>, NBin("+", V("p"), V("x")))), NCall("f", <<Num(1)>>)>>}
    \cup {<<NAssign("f", Add2), NCall("f", <<Num(1), Num(2), Num(3)>>)>>}

Model == LET es == SetToSeq(IF Tier = "quick" THEN Exprs ELSE Exprs \cup NumE2)
             ss == SetToSeq(Stmts) IN
         [ne |-> Len(es), ns |-> Len(ss),
          et |-> [i \in 1..Len(es) |-> Number(NCode(<<es[i]>>), 1).t],
          st |-> [i \in 1..Len(ss) |-> Number(NCode(ss[i]), 1).t]]
AllScenarios == [kind : {"e"}, i : 1..Model.ne] \cup [kind : {"s"}, i : 1..Model.ns]
C07Calls(s) == <<[tree |-> IF s.kind = "e" THEN Model.et[s.i] ELSE Model.st[s.i], nid |-> "n1", max |-> 200, ast |-> <<>>]>>
C07Host(s) == [z \in {} |-> 0]
C07Names0(s) == Names0
C07Heap0(s) == Heap0
C07Bound(s) == Cap

\* the generator stays inside the specified domain (a measure of the specification's coverage, not a property)
InDomain == mN.ctl.t # "unspec" \/ mN.ctl.why \in {"oracle needed: pow", "oracle needed: float"}
=============================================================================
