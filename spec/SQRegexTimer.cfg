SPECIFICATION Spec
INVARIANT Emit
CHECK_DEADLOCK FALSE
