SPECIFICATION Spec
CONSTANT Deviations = {}
CONSTANT Cap = 10000
CONSTANT Scenarios <- AllScenarios
CONSTANT ScCalls <- C13Calls
CONSTANT ScHost <- C13Host
CONSTANT ScNames0 <- C13Names0
CONSTANT ScHeap0 <- C13Heap0
CONSTANT ScBound <- C13Bound
CONSTANT KeepHist = FALSE
INVARIANT HostIntact
INVARIANT ScopeBalance
INVARIANT Terminates
INVARIANT Emit
PROPERTY ArgsPreserved
CHECK_DEADLOCK FALSE
