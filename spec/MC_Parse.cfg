CONSTANTS
  ExtraInfo <- MCExtraInfo
  Deviations <- CfgDeviations
INIT Init
NEXT Next
INVARIANT Emit
CHECK_DEADLOCK FALSE
