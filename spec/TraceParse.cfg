CONSTANTS
  ExtraInfo <- TraceExtraInfo
  Deviations <- InDeviations
INIT Init
NEXT Next
INVARIANT Emit
INVARIANT Accepted
CHECK_DEADLOCK FALSE
