--------------------------- MODULE MC_ParseValid ---------------------------
(***************************************************************************)
(* Self-check of the normative parser against the declarative grammar +    *)
(* table filter (SQGrammarValid) on ALL token strings up to a length bound *)
(* -- no implementation involved.  Parameters as for MC_Parse (JSON file   *)
(* named by LEXPARSE_CFG, "groups": [{maxlen, alphabet}]); alphabets must  *)
(* not contain reserved-unused words.                                      *)
(***************************************************************************)
EXTENDS SQGrammarValid, Json, IOUtils

Cfg == JsonDeserialize(IOEnv.LEXPARSE_CFG)
Groups == Cfg.groups
MCExtraInfo(c) == [cls |-> "other", s |-> "?", dv |-> -1]
NoDeviations == {}

VARIABLES g, s
vars == <<g, s>>

RECURSIVE Render(_, _, _)
Render(alpha, str, i) ==
    IF i > Len(str) THEN <<>>
    ELSE IF i = 1 THEN alpha[str[i]] \o Render(alpha, str, i + 1)
    ELSE <<cSP>> \o alpha[str[i]] \o Render(alpha, str, i + 1)

Toks == Lex(Render(Groups[g].alphabet, s, 1)).toks

Init == g \in DOMAIN Groups /\ s = <<>>
Next == /\ Len(s) < Groups[g].maxlen
        /\ \E a \in DOMAIN Groups[g].alphabet : s' = Append(s, a)
        /\ UNCHANGED g
Spec == Init /\ [][Next]_vars

InvSound == Sound(Toks)
InvComplete == Complete(Toks)
InvUnique == Unique(Toks)
InvDerivable == Derivable(Toks)
=============================================================================
