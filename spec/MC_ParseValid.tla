--------------------------- MODULE MC_ParseValid ---------------------------
(***************************************************************************)
(* Self-check of the normative parser against the declarative grammar +    *)
(* table filter (SQGrammarValid) on ALL token strings up to a length bound *)
(* -- no implementation involved.  Parameters as for MC_Parse (JSON file   *)
(* named by LEXPARSE_CFG, "groups": [{maxlen, alphabet}]); alphabets must  *)
(* not contain reserved-unused words.                                      *)
(***************************************************************************)
EXTENDS SQGrammarValid, Json, IOUtils

Cfg == JsonDeserialize(IOEnv.LEXPARSE_CFG)
Groups == Cfg.groups
MCExtraInfo(c) == [cls |-> "other", s |-> "?", dv |-> -1]
NoDeviations == {}

VARIABLES g, s
vars == <<g, s>>

RECURSIVE Render(_, _, _)
Render(alpha, str, i) ==
    IF i > Len(str) THEN <<>>
    ELSE IF i = 1 THEN alpha[str[i]] \o Render(alpha, str, i + 1)
    ELSE <<cSP>> \o alpha[str[i]] \o Render(alpha, str, i + 1)

Toks == Lex(Render(Groups[g].alphabet, s, 1)).toks

Init == g \in DOMAIN Groups /\ s = <<>>
Next == /\ Len(s) < Groups[g].maxlen
        /\ \E a \in DOMAIN Groups[g].alphabet : s' = Append(s, a)
        /\ UNCHANGED g
Spec == Init /\ [][Next]_vars

(* The filter is not vacuous: the grammar alone is ambiguous on these strings and the table decides *)
TK(cps) == Lex(cps).toks
Only(toks) == CHOOSE t \in ValidTrees(toks) : TRUE
ASSUME LET t == TK(<<97, 32, 43, 32, 97, 32, 42, 32, 97>>) IN          \* a + a * a
       Cardinality(AllTrees(t)) = 2 /\ Cardinality(ValidTrees(t)) = 1 /\ Only(t).ch[1].op = "+"
ASSUME LET t == TK(<<97, 32, 42, 42, 32, 97, 32, 42, 42, 32, 97>>) IN          \* a ** a ** a : right-associative
       Cardinality(AllTrees(t)) = 2 /\ Cardinality(ValidTrees(t)) = 1 /\ Only(t).ch[1].ch[1].k = "name"
ASSUME LET t == TK(<<97, 32, 61, 61, 32, 97, 32, 61, 61, 32, 97>>) IN          \* a == a == a : non-associative, no valid tree
       Cardinality(AllTrees(t)) = 2 /\ ValidTrees(t) = {}
ASSUME LET t == TK(<<45, 32, 97, 32, 42, 42, 32, 97>>) IN          \* - a ** a  is  (-a) ** a ;  - a [ a ]  is  -(a[a])
       Cardinality(AllTrees(t)) = 2 /\ Cardinality(ValidTrees(t)) = 1 /\ Only(t).ch[1].k = "bin"
ASSUME LET t == TK(<<45, 32, 97, 32, 91, 32, 97, 32, 93>>) IN
       Cardinality(ValidTrees(t)) = 1 /\ Only(t).ch[1].k = "un"
ASSUME LET t == TK(<<97, 32, 43, 32, 97, 32, 110, 111, 116, 32, 105, 110, 32, 97>>) IN          \* a + a not in a  is  (a + a) not in a  (normative)
       Cardinality(ValidTrees(t)) = 1 /\ Only(t).ch[1].op = "not in"
ASSUME LET t == TK(<<120, 32, 61, 62, 32, 120, 32, 105, 102, 32, 97, 32, 101, 108, 115, 101, 32, 97>>) IN          \* x => x if a else a : the body is maximal
       Cardinality(AllTrees(t)) = 2 /\ Cardinality(ValidTrees(t)) = 1 /\ Only(t).ch[1].k = "lambda"
ASSUME LET t == TK(<<97, 32, 91, 32, 97, 32, 93>>) IN          \* a [ a ] : index, not a one-element slice
       Cardinality(AllDerivs(t)) = 2 /\ Cardinality(ValidTrees(t)) = 1 /\ Only(t).ch[1].ch[2].k = "name"
ASSUME LET t == TK(<<100, 101, 108, 32, 97, 32, 43, 32, 97, 32, 91, 32, 97, 32, 93>>) IN          \* del a + a [ a ] : derivable, but  a + (a[a])  is not an index -> rejected
       AllTrees(t) # {} /\ ValidTrees(t) = {} /\ ~ParseD(t, {}).ok

InvSound == Sound(Toks)
InvComplete == Complete(Toks)
InvUnique == Unique(Toks)
InvDerivable == Derivable(Toks)
=============================================================================
