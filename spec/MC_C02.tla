------------------------------- MODULE MC_C02 -------------------------------
(***************************************************************************)
(* Property C02 (type confinement).  The value universe of the             *)
(* specification IS the property: everything a program can obtain, store   *)
(* or return is plain data, a builtin of the table or a lambda it defined. *)
(* Every entry of the builtin table applied to every tuple of <= 2         *)
(* arguments from a shape universe (None, bools, numbers, attribute-like   *)
(* and format-like strings, nested lists/dicts, a lambda, a builtin, a     *)
(* slice result) and two-stage compositions; TypeInv must hold in every    *)
(* state.  Relational builtins are explored by trace validation only.      *)
(***************************************************************************)
EXTENDS MCVM

HInt(n) == [t |-> "int", sign |-> 0, digs |-> <<n>>]
HStr(s) == [t |-> "str", s |-> s]
LRef(a) == [t |-> "list", addr |-> a]
DRef(a) == [t |-> "dict", addr |-> a]
Heap0 == << [t |-> "list", items |-> <<HInt(1)>>],
            [t |-> "list", items |-> <<LRef(1), HStr(<<97>>)>>],
            [t |-> "dict", items |-> << <<<<97>>, HInt(1)>> >>],
            [t |-> "dict", items |-> << <<<<107>>, DRef(3)>>, <<<<108>>, LRef(1)>> >>],
            [t |-> "list", items |-> <<>>],
            [t |-> "dict", items |-> <<>>] >>
\* "__class__", "{0.__class__}", "%s"
sClass == <<95, 95, 99, 108, 97, 115, 115, 95, 95>>
sFmt == <<123, 48, 46, 95, 95, 99, 108, 97, 115, 115, 95, 95, 125>>
sPct == <<37, 115>>
Names0 == [n1 |-> [l0 |-> LRef(5), d0 |-> DRef(6), s0 |-> HStr(<<>>), l1 |-> LRef(1), l2 |-> LRef(2), d1 |-> DRef(3), d2 |-> DRef(4), sc1 |-> HStr(sClass), sf |-> HStr(sFmt), sp |-> HStr(sPct),
                   n1 |-> HInt(1), f15 |-> [t |-> "float", dec |-> [sign |-> 0, digs |-> <<1, 5>>, exp |-> -1], repr |-> <<49, 46, 53>>],
                   big |-> [t |-> "int", sign |-> 0, digs |-> [i \in 1..40 |-> 9]]]]
V(n) == NName(n)
Args == {V("l1"), V("l2"), V("d1"), V("d2"), V("sc1"), V("sf"), V("sp"), V("n1"), V("f15"), V("big"), NVal(VNone), NVal(VBool(TRUE)),
         NVal(VNum(0)), NUn("-", NVal(VNum(1))), NVal(VStr(<<>>)), NLambda(<<"v">>, V("v")), V("len"), V("str"), V("dict"),
         NIndex(V("l2"), NSlice(NVal(VNone), NVal(VNum(1)), NVal(VNone))), NList(<<>>), NCall("dict", <<>>)}
Data == {V("l1"), V("l2"), V("d1"), V("d2"), V("sc1"), V("sf"), V("n1"), V("l0"), V("d0"), V("s0")}
\* index tables instead of sets of trees: TLC normalises (sorts) every set it builds, and sorting 17000 trees
\* took minutes; sequences of builtin names and small argument trees are cheap
BSeq == SetToSeq(BuiltinNames \ Relational)
B1Seq == SetToSeq((BuiltinNames \ Relational) \ HigherOrder)
ASeq == SetToSeq(Args)
DSeq == SetToSeq(Data)
FSeq == <<"len", "str", "keys", "sorted", "push">>
NB == Len(BSeq)  NB1 == Len(B1Seq)  NA == Len(ASeq)  ND == Len(DSeq)
Mk(t) == Number(t, 1).t
Model == [one |-> [b \in 1..NB |-> [a \in 1..NA |-> Mk(NCode(<<NAssign("r", NCall(BSeq[b], <<ASeq[a]>>)), V("r")>>))]],
          two |-> [b \in 1..NB |-> [a \in 1..ND |-> [c \in 1..NA |-> Mk(NCode(<<NAssign("r", NCall(BSeq[b], <<DSeq[a], ASeq[c]>>)), V("r")>>))]]],
          pipe |-> [b \in 1..NB1 |-> [a \in 1..NB1 |-> [c \in 1..ND |-> Mk(NCode(<<NAssign("r", NCall(B1Seq[b], <<NCall(B1Seq[a], <<DSeq[c]>>)>>)), V("r")>>))]]],
          alias |-> [b \in 1..Len(FSeq) |-> [a \in 1..ND |-> Mk(NCode(<<NAssign("f", V(FSeq[b])), NAssign("r", NCall("f", <<DSeq[a]>>)), NList(<<V("f"), V("r")>>)>>))]]]
AllScenarios == [kind : {"one"}, b : 1..NB, a : 1..NA, c : {1}]
                \cup [kind : {"two"}, b : 1..NB, a : 1..ND, c : 1..NA]
                \cup [kind : {"pipe"}, b : 1..NB1, a : 1..NB1, c : 1..ND]
                \cup [kind : {"alias"}, b : 1..Len(FSeq), a : 1..ND, c : {1}]
TreeOf(s) == CASE s.kind = "one" -> Model.one[s.b][s.a]
               [] s.kind = "two" -> Model.two[s.b][s.a][s.c]
               [] s.kind = "pipe" -> Model.pipe[s.b][s.a][s.c]
               [] s.kind = "alias" -> Model.alias[s.b][s.a]
C02Calls(s) == <<[tree |-> TreeOf(s), nid |-> "n1", max |-> 500, ast |-> <<>>]>>
C02Host(s) == [x \in {} |-> 0]
C02Names0(s) == Names0
C02Heap0(s) == Heap0
C02Bound(s) == Cap

\* everything reachable from names, from every returned value and from the heap is plain data, a builtin or a lambda
AllPlain ==
    /\ TypeInv
    /\ \A i \in 1..Len(mN.results) : mN.results[i].outcome.t = "ok" => Plain(mN.heap, mN.results[i].outcome.v)
    /\ \A a \in 1..Len(mN.heap) : \A j \in 1..Len(mN.heap[a].items) :
          Plain(mN.heap, IF mN.heap[a].t = "list" THEN mN.heap[a].items[j] ELSE mN.heap[a].items[j][2])
    /\ (mN.ctl.t = "ret" => Plain(mN.heap, mN.ctl.v))
=============================================================================
