----------------------------- MODULE SQLexerSM -----------------------------
(***************************************************************************)
(* The lexer of SQLexer.tla as a TLA+ state machine: the variables are the *)
(* attributes of the PLY lexer object, and there is ONE ACTION PER RULE of *)
(* the master regular expression (plus Ignore, Illegal, Eof), so that      *)
(* -coverage reports how often each rule fired and hooks / trace events    *)
(* line up with actions one to one.  Each action is "this rule is the      *)
(* first that matches at lexpos" (FiringRule) and the effect the rule's    *)
(* function has on the lexer object (Do<RULE>).                            *)
(*                                                                         *)
(* text is chosen in Init from the constant Texts.  The invariant          *)
(* AgreesWithLex ties the machine to the pure function Lex used by         *)
(* SQGrammar: along every behaviour the tokens produced so far are a       *)
(* prefix of Lex(text).toks, and a terminal state equals Lex(text).        *)
(***************************************************************************)
EXTENDS SQLexer

CONSTANT Texts          \* set of code-point sequences

VARIABLES text, lexpos, lineno, parenCount, toks, status, errch, nnl, semis
vars == <<text, lexpos, lineno, parenCount, toks, status, errch, nnl, semis>>

St == [pos |-> lexpos, lineno |-> lineno, paren |-> parenCount, toks |-> toks, status |-> status,
       errpos |-> IF status = "illegal" THEN lexpos ELSE -1, errch |-> errch, nnl |-> nnl, semis |-> semis]

Set(st) == /\ lexpos' = st.pos /\ lineno' = st.lineno /\ parenCount' = st.paren /\ toks' = st.toks
           /\ status' = st.status /\ errch' = st.errch /\ nnl' = st.nnl /\ semis' = st.semis
           /\ UNCHANGED text

Init == /\ text \in Texts
        /\ lexpos = 0 /\ lineno = 1 /\ parenCount = 0 /\ toks = <<>> /\ status = "run"
        /\ errch = -1 /\ nnl = 0 /\ semis = 0

Fires(r) == FiringRule(text, St) = r

R_Ignore    == Fires("Ignore")   /\ Set(DoIgnore(text, St))
R_NEWLINE   == Fires("NEWLINE")  /\ Set(DoNEWLINE(text, St))
R_LPAREN    == Fires("LPAREN")   /\ Set(DoBracket(text, St))
R_RPAREN    == Fires("RPAREN")   /\ Set(DoBracket(text, St))
R_LBRACKET  == Fires("LBRACKET") /\ Set(DoBracket(text, St))
R_RBRACKET  == Fires("RBRACKET") /\ Set(DoBracket(text, St))
R_LBRACE    == Fires("LBRACE")   /\ Set(DoBracket(text, St))
R_RBRACE    == Fires("RBRACE")   /\ Set(DoBracket(text, St))
R_STRING    == Fires("STRING")   /\ Set(DoSTRING(text, St))
R_NUMBER    == Fires("NUMBER")   /\ Set(DoNUMBER(text, St))
R_NAME      == Fires("NAME")     /\ Set(DoNAME(text, St))
R_COMMENT   == Fires("COMMENT")  /\ Set(DoCOMMENT(text, St))
R_SHORT_OP  == Fires("SHORT_OP") /\ Set(DoOp(text, St))
R_POWER     == Fires("POWER") /\ Set(DoOp(text, St))
R_DOT       == Fires("DOT") /\ Set(DoOp(text, St))
R_EQ        == Fires("EQ") /\ Set(DoOp(text, St))
R_GTE       == Fires("GTE") /\ Set(DoOp(text, St))
R_LAMBDA    == Fires("LAMBDA") /\ Set(DoOp(text, St))
R_LTE       == Fires("LTE") /\ Set(DoOp(text, St))
R_NE        == Fires("NE") /\ Set(DoOp(text, St))
R_PIPE      == Fires("PIPE") /\ Set(DoOp(text, St))
R_PLUS      == Fires("PLUS") /\ Set(DoOp(text, St))
R_TIMES     == Fires("TIMES") /\ Set(DoOp(text, St))
R_ASSIGN    == Fires("ASSIGN") /\ Set(DoOp(text, St))
R_COLON     == Fires("COLON") /\ Set(DoOp(text, St))
R_COMMA     == Fires("COMMA") /\ Set(DoOp(text, St))
R_DIVIDE    == Fires("DIVIDE") /\ Set(DoOp(text, St))
R_GT        == Fires("GT") /\ Set(DoOp(text, St))
R_LT        == Fires("LT") /\ Set(DoOp(text, St))
R_MINUS     == Fires("MINUS") /\ Set(DoOp(text, St))
R_Illegal   == Fires("Illegal")  /\ Set(DoIllegal(text, St))
R_Eof       == Fires("Eof")      /\ Set(DoEof(text, St))

Next == \/ R_Ignore \/ R_NEWLINE \/ R_LPAREN \/ R_RPAREN \/ R_LBRACKET \/ R_RBRACKET \/ R_LBRACE \/ R_RBRACE
        \/ R_STRING \/ R_NUMBER \/ R_NAME \/ R_COMMENT
        \/ R_SHORT_OP \/ R_POWER \/ R_DOT \/ R_EQ \/ R_GTE \/ R_LAMBDA \/ R_LTE \/ R_NE \/ R_PIPE \/ R_PLUS \/ R_TIMES
        \/ R_ASSIGN \/ R_COLON \/ R_COMMA \/ R_DIVIDE \/ R_GT \/ R_LT \/ R_MINUS
        \/ R_Illegal \/ R_Eof

Spec == Init /\ [][Next]_vars

---------------------------------------------------------------------------
IsPrefix(a, b) == Len(a) <= Len(b) /\ SubSeq(b, 1, Len(a)) = a

AgreesWithLex ==
    LET lx == Lex(text) IN
    /\ IsPrefix(toks, lx.toks)
    /\ status # "run" =>
          /\ toks = lx.toks
          /\ (status = "illegal") = (lx.err = "illegal")
          /\ lexpos = lx.pos /\ lineno = lx.lineno /\ parenCount = lx.paren
          /\ errch = lx.errch

(* the lexer's counter is the physical line: both advance by line breaks only *)
LineCounters ==
    /\ lineno = 1 + nnl
    /\ \A k \in DOMAIN toks : toks[k].line = 1 + Cardinality({j \in 1..(toks[k].endpos - Len(toks[k].text)) : text[j] = cNL})

(* exactly one rule fires in every running state: the machine is deterministic and never stuck *)
Deterministic == status = "run" => FiringRule(text, St) \notin {"Stopped"}
=============================================================================
