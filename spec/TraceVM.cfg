SPECIFICATION Spec
CONSTANT Deviations <- DevSet
CONSTANT Cap = 10000
INVARIANT Emit
CHECK_DEADLOCK FALSE
