SPECIFICATION Spec
CONSTANT Deviations <- DevSet
INVARIANT Emit
INVARIANT BudgetInv
INVARIANT ScopeBalance
INVARIANT SizeInv
PROPERTY LimitExact
PROPERTY NoEffectAtLimit
CHECK_DEADLOCK FALSE
