SPECIFICATION Spec
CONSTANT Deviations <- DevSet
INVARIANT Emit
CHECK_DEADLOCK FALSE
