------------------------------- MODULE MC_C13 -------------------------------
(***************************************************************************)
(* Property C13: apart from the mutators, no builtin changes any of its    *)
(* arguments.  Every non-mutating, deterministic entry of the builtin      *)
(* table applied to every tuple of <= 2 (for some, 3) arguments drawn from *)
(* a universe of host lists, dicts, strings, numbers, flags and key        *)
(* functions, alone and in two-stage pipelines b1(b2(x)).                  *)
(***************************************************************************)
EXTENDS MCVM

HInt(n) == [t |-> "int", sign |-> 0, digs |-> <<n>>]
HStr(s) == [t |-> "str", s |-> s]
LRef(a) == [t |-> "list", addr |-> a]
DRef(a) == [t |-> "dict", addr |-> a]
LObj(xs) == [t |-> "list", items |-> xs]
DObj(ps) == [t |-> "dict", items |-> ps]

Heap0 == << LObj(<<HInt(3), HInt(1), HInt(2)>>),                       \* h1 unsorted
            LObj(<<>>),                                                 \* h2 empty
            LObj(<<LRef(4), LRef(5)>>), LObj(<<HInt(2)>>), LObj(<<HInt(1)>>),   \* h3 nested (3,4,5)
            LObj(<<HInt(1), HStr(<<97>>), HInt(1)>>),                   \* h4 mixed, duplicate
            DObj(<< <<<<98>>, HInt(1)>>, <<<<97>>, HInt(2)>> >>),       \* d1
            DObj(<<>>),                                                 \* d2
            DObj(<< <<<<107>>, LRef(1)>> >>),                           \* d3 holds h1
            DObj(<< <<<<-2, 49>>, HInt(7)>>, <<<<120>>, LRef(1)>>, <<<<-2, 45, 50>>, HStr(<<97>>)>> >>) >>   \* d4: host dict {1: 7, "x": h1, -2: "a"}
Names0 == [n1 |-> [h1 |-> LRef(1), h2 |-> LRef(2), h3 |-> LRef(3), h4 |-> LRef(6), d1 |-> DRef(7), d2 |-> DRef(8), d3 |-> DRef(9), d4 |-> DRef(10),
                   s1 |-> HStr(<<98, 32, 97>>), n2 |-> HInt(2)]]

NonMutators == BuiltinNames \ (Mutators \cup Relational)
V(n) == NName(n)
Neg == NLambda(<<"v">>, NUn("-", V("v")))
Pick2 == NLambda(<<"p", "q">>, V("q"))
Args1 == {V("h1"), V("h2"), V("h3"), V("h4"), V("d1"), V("d2"), V("d3"), V("d4"), V("s1"), V("n2"), NVal(VBool(TRUE)), NVal(VNone), Neg, Pick2}
Data1 == {V("h1"), V("h2"), V("h3"), V("h4"), V("d1"), V("d2"), V("d3"), V("d4"), V("s1")}
Unary == {"len", "str", "keys", "values", "items", "sum", "min", "max", "sorted", "reversed", "enumerate", "pretty", "join", "list",
          "lower", "upper", "strip", "abs", "int", "round", "floor", "ceil", "dict", "split"}

\* index tables instead of sets of trees (TLC sorts every set it builds; sorting thousands of trees is slow)
BSeq == SetToSeq(NonMutators)
USeq == SetToSeq(Unary)
ASeq == SetToSeq(Args1)
DSeq == SetToSeq(Data1)
B3Seq == <<"sorted", "get", "replace", "split">>
C3Seq == <<Neg, Pick2, NVal(VNone), V("s1")>>
E3Seq == <<NVal(VBool(TRUE)), V("n2"), V("s1")>>
Mk(t) == Number(t, 1).t
Model == [one |-> [b \in 1..Len(BSeq) |-> [a \in 1..Len(ASeq) |-> Mk(NCode(<<NCall(BSeq[b], <<ASeq[a]>>)>>))]],
          two |-> [b \in 1..Len(BSeq) |-> [a \in 1..Len(DSeq) |-> [c \in 1..Len(ASeq) |-> Mk(NCode(<<NCall(BSeq[b], <<DSeq[a], ASeq[c]>>)>>))]]],
          three |-> [b \in 1..4 |-> [a \in 1..Len(DSeq) |-> [c \in 1..4 |-> [e \in 1..3 |-> Mk(NCode(<<NCall(B3Seq[b], <<DSeq[a], C3Seq[c], E3Seq[e]>>)>>))]]]],
          pipe |-> [b \in 1..Len(USeq) |-> [a \in 1..Len(USeq) |-> [c \in 1..Len(DSeq) |-> Mk(NCode(<<NCall(USeq[b], <<NCall(USeq[a], <<DSeq[c]>>)>>)>>))]]]]
AllScenarios == [kind : {"one"}, b : 1..Len(BSeq), a : 1..Len(ASeq), c : {1}, e : {1}]
                \cup [kind : {"two"}, b : 1..Len(BSeq), a : 1..Len(DSeq), c : 1..Len(ASeq), e : {1}]
                \cup [kind : {"three"}, b : 1..4, a : 1..Len(DSeq), c : 1..4, e : 1..3]
                \cup [kind : {"pipe"}, b : 1..Len(USeq), a : 1..Len(USeq), c : 1..Len(DSeq), e : {1}]
TreeOf(s) == CASE s.kind = "one" -> Model.one[s.b][s.a]
               [] s.kind = "two" -> Model.two[s.b][s.a][s.c]
               [] s.kind = "three" -> Model.three[s.b][s.a][s.c][s.e]
               [] s.kind = "pipe" -> Model.pipe[s.b][s.a][s.c]
C13Calls(s) == <<[tree |-> TreeOf(s), nid |-> "n1", max |-> 500, ast |-> <<>>]>>
C13Host(s) == [x \in {} |-> 0]
C13Names0(s) == Names0
C13Heap0(s) == Heap0
C13Bound(s) == Cap

(***************************************************************************)
\* the step that applies a non-mutating builtin, and every own step of a higher-order builtin,
\* leaves every existing object exactly as it was
ArgsPreserved ==
    [][( \/ (mN.ctl.t = "call" /\ mN.ctl.f.t = "builtin" /\ mN.ctl.f.name \notin Mutators)
         \/ (mN.ctl.t = "ret" /\ Len(mN.k) > 0 /\ mN.k[Len(mN.k)].f = "ho") )
       => \A a \in 1..Len(mN.heap) : mN'.heap[a] = mN.heap[a]]_vars
\* no program of this space contains a mutator or a mutating lambda: host objects are intact at every state
HostIntact == \A a \in 1..Len(Heap0) : mN.heap[a] = Heap0[a]
=============================================================================
