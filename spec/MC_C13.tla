------------------------------- MODULE MC_C13 -------------------------------
(***************************************************************************)
(* Property C13: apart from the mutators, no builtin changes any of its    *)
(* arguments.  Every non-mutating, deterministic entry of the builtin      *)
(* table applied to every tuple of <= 2 (for some, 3) arguments drawn from *)
(* a universe of host lists, dicts, strings, numbers, flags and key        *)
(* functions, alone and in two-stage pipelines b1(b2(x)).                  *)
(***************************************************************************)
EXTENDS MCVM

HInt(n) == [t |-> "int", sign |-> 0, digs |-> <<n>>]
HStr(s) == [t |-> "str", s |-> s]
LRef(a) == [t |-> "list", addr |-> a]
DRef(a) == [t |-> "dict", addr |-> a]
LObj(xs) == [t |-> "list", items |-> xs]
DObj(ps) == [t |-> "dict", items |-> ps]

Heap0 == << LObj(<<HInt(3), HInt(1), HInt(2)>>),                       \* h1 unsorted
            LObj(<<>>),                                                 \* h2 empty
            LObj(<<LRef(4), LRef(5)>>), LObj(<<HInt(2)>>), LObj(<<HInt(1)>>),   \* h3 nested (3,4,5)
            LObj(<<HInt(1), HStr(<<97>>), HInt(1)>>),                   \* h4 mixed, duplicate
            DObj(<< <<<<98>>, HInt(1)>>, <<<<97>>, HInt(2)>> >>),       \* d1
            DObj(<<>>),                                                 \* d2
            DObj(<< <<<<107>>, LRef(1)>> >>) >>                         \* d3 holds h1
Names0 == [n1 |-> [h1 |-> LRef(1), h2 |-> LRef(2), h3 |-> LRef(3), h4 |-> LRef(6), d1 |-> DRef(7), d2 |-> DRef(8), d3 |-> DRef(9),
                   s1 |-> HStr(<<98, 32, 97>>), n2 |-> HInt(2)]]

NonMutators == BuiltinNames \ (Mutators \cup Relational)
V(n) == NName(n)
Neg == NLambda(<<"v">>, NUn("-", V("v")))
Pick2 == NLambda(<<"p", "q">>, V("q"))
Args1 == {V("h1"), V("h2"), V("h3"), V("h4"), V("d1"), V("d2"), V("d3"), V("s1"), V("n2"), NVal(VBool(TRUE)), NVal(VNone), Neg, Pick2}
Data1 == {V("h1"), V("h2"), V("h3"), V("h4"), V("d1"), V("d2"), V("d3"), V("s1")}
Unary == {"len", "str", "keys", "values", "items", "sum", "min", "max", "sorted", "reversed", "enumerate", "pretty", "join", "list",
          "lower", "upper", "strip", "abs", "int", "round", "floor", "ceil", "dict", "split"}

Progs ==
    {NCode(<<NCall(b, <<a>>)>>) : b \in NonMutators, a \in Args1}
    \cup {NCode(<<NCall(b, <<a, c>>)>>) : b \in NonMutators, a \in Data1, c \in Args1}
    \cup {NCode(<<NCall(b, <<a, c, e>>)>>) : b \in {"sorted", "get", "replace", "split"}, a \in Data1, c \in {Neg, Pick2, NVal(VNone), V("s1")},
                                            e \in {NVal(VBool(TRUE)), V("n2"), V("s1")}}
    \cup {NCode(<<NCall(b1, <<NCall(b2, <<a>>)>>)>>) : b1 \in Unary, b2 \in Unary, a \in Data1}

Model == LET seq == SetToSeq(Progs) IN [n |-> Len(seq), tree |-> [i \in 1..Len(seq) |-> Number(seq[i], 1).t]]
AllScenarios == [pi : 1..Model.n]
C13Calls(s) == <<[tree |-> Model.tree[s.pi], nid |-> "n1", max |-> 500, ast |-> <<>>]>>
C13Host(s) == [x \in {} |-> 0]
C13Names0(s) == Names0
C13Heap0(s) == Heap0
C13Bound(s) == Cap

(***************************************************************************)
\* the step that applies a non-mutating builtin, and every own step of a higher-order builtin,
\* leaves every existing object exactly as it was
ArgsPreserved ==
    [][( \/ (mN.ctl.t = "call" /\ mN.ctl.f.t = "builtin" /\ mN.ctl.f.name \notin Mutators)
         \/ (mN.ctl.t = "ret" /\ Len(mN.k) > 0 /\ mN.k[Len(mN.k)].f = "ho") )
       => \A a \in 1..Len(mN.heap) : mN'.heap[a] = mN.heap[a]]_vars
\* no program of this space contains a mutator or a mutating lambda: host objects are intact at every state
HostIntact == \A a \in 1..Len(Heap0) : mN.heap[a] = Heap0[a]
=============================================================================
