------------------------------- MODULE MC_Lex -------------------------------
(***************************************************************************)
(* Direction A (specification -> code) for the lexer and list_names.       *)
(*                                                                         *)
(* TLC enumerates ALL character strings of length <= maxlen over an        *)
(* alphabet of representative characters, computes Lex and ListNames and   *)
(* prints one JSON line per string; harness/lexparse.py feeds the same     *)
(* string to the real lexer (lex.token() until None / ParserError) and to  *)
(* list_names and compares types, lexemes, values, lineno, error           *)
(* character, residual lexpos / lineno / paren_count, names.               *)
(*                                                                         *)
(* Parameters: JSON file named by environment variable LEXPARSE_CFG        *)
(*   { "groups": [ { "maxlen": L, "alphabet": [cp, ...] }, ... ],          *)
(*     "extra": [ {cp, cls, s, dv}, ... ] }   (classes of non-ASCII chars) *)
(***************************************************************************)
EXTENDS SQLexer, Json, IOUtils

Cfg == JsonDeserialize(IOEnv.LEXPARSE_CFG)
Groups == Cfg.groups

ExtraFn == [c \in {Cfg.extra[j].cp : j \in DOMAIN Cfg.extra} |->
               LET j == CHOOSE j \in DOMAIN Cfg.extra : Cfg.extra[j].cp = c IN Cfg.extra[j]]
MCExtraInfo(c) == ExtraFn[c]

VARIABLES g, s, out
vars == <<g, s, out>>

Result(gi, str) ==
    LET text == [j \in DOMAIN str |-> Groups[gi].alphabet[str[j]]]
        lx == Lex(text)
    IN [g |-> gi, s |-> str,
        toks |-> [k \in DOMAIN lx.toks |->
                    [type |-> lx.toks[k].type, text |-> lx.toks[k].text, val |-> lx.toks[k].val,
                     lineno |-> lx.toks[k].ilineno, line |-> lx.toks[k].line]],
        err |-> lx.err, errpos |-> lx.errpos, errch |-> lx.errch,
        res |-> [pos |-> lx.pos, lineno |-> lx.lineno, paren |-> lx.paren],
        names |-> NamesOf(lx.toks)]

Init == g \in DOMAIN Groups /\ s = <<>> /\ out = Result(g, <<>>)

Next == /\ Len(s) < Groups[g].maxlen
        /\ \E a \in DOMAIN Groups[g].alphabet : s' = Append(s, a) /\ out' = Result(g, s')
        /\ UNCHANGED g

Spec == Init /\ [][Next]_vars

Emit == PrintT(ToJson(out))

(* sanity of the token records, checked on every enumerated string *)
TokensWellFormed ==
    \A k \in DOMAIN out.toks :
        /\ out.toks[k].line >= 1 /\ out.toks[k].lineno >= 1
        /\ Len(out.toks[k].text) >= 1
=============================================================================
