SPECIFICATION Spec
CONSTANT Scripts <- AllScripts
CONSTANT Deviations = {}
CONSTANT MaxLen = 4
INVARIANT TypeOK
INVARIANT Survives
INVARIANT EvalsAreLines
INVARIANT OneNames
INVARIANT PrintedCount
INVARIANT Emit
PROPERTY Termination
CHECK_DEADLOCK FALSE
