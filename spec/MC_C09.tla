------------------------------- MODULE MC_C09 -------------------------------
(***************************************************************************)
(* Property C09: laziness of and / or / if-else, and once-left-to-right    *)
(* evaluation of every other operand.  Scenario space: all expression      *)
(* shapes up to a depth and leaf bound over every construct that has       *)
(* operands, a distinct host probe t1..tk at every leaf (numbered left to  *)
(* right), under all assignments of probe outcomes                         *)
(* {truthy 1, falsy 0, the host list, raises}.                             *)
(***************************************************************************)
EXTENDS MCVM

CONSTANTS MaxLeaves, MaxDepth

HInt(n) == [t |-> "int", sign |-> 0, digs |-> <<n>>]
HostFn(n) == [t |-> "hostfn", name |-> n]
Heap0 == << [t |-> "list", items |-> <<HInt(0), HInt(1)>>],
            [t |-> "list", items |-> <<[t |-> "list", addr |-> 3], [t |-> "list", addr |-> 4]>>],
            [t |-> "list", items |-> <<HInt(1), HInt(0)>>],
            [t |-> "list", items |-> <<HInt(0), HInt(1)>>] >>
NestedList == [t |-> "list", addr |-> 2]
HostList == [t |-> "list", addr |-> 1]
ProbeNames == <<"t1", "t2", "t3", "t4", "t5">>

Leaf == NCall("t", <<>>)
Rep == NCall("t5", <<>>)
RECURSIVE Leaves(_)
RECURSIVE SumLeaves(_, _)
Leaves(t) == IF t = Leaf THEN 1 ELSE IF "ch" \in DOMAIN t THEN SumLeaves(t.ch, 1) ELSE 0
SumLeaves(ch, i) == IF i > Len(ch) THEN 0 ELSE Leaves(ch[i]) + SumLeaves(ch, i + 1)

Grow(S) ==
         S \cup {NBin(o, a, b) : o \in {"and", "or", "+", "<", "in"}, a \in S, b \in S}
           \cup {NUn(o, a) : o \in {"not", "-"}, a \in S}
           \cup {NIf(c, a, b) : c \in S, a \in S, b \in S}
           \cup {NList(<<a, b>>) : a \in S, b \in S}
           \cup {NCall("max", <<a, b, c>>) : a \in S, b \in S, c \in {Leaf}}
           \cup {NDict(<<a, b>>) : a \in S, b \in S}
           \cup {NDict(<<a, b, c, e>>) : a \in {Leaf}, b \in {Leaf}, c \in {Leaf}, e \in {Leaf}}
           \cup {NIndex(a, b) : a \in S, b \in S}
           \cup {NIndex(a, NSlice(b, c, e)) : a \in {Leaf}, b \in {Leaf}, c \in {Leaf}, e \in {Leaf}}
           \cup {NSetItem(a, b, c) : a \in {Leaf}, b \in S, c \in S}
           \cup {NSetOp(a, b, <<43, 61>>, c) : a \in {Leaf}, b \in {Leaf}, c \in S}
           \cup {NDel(a, b) : a \in S, b \in S}
           \cup {NCall("push", <<a, b>>) : a \in S, b \in S}
\* shapes added at the outermost level only (not nested further):
ExtraShapes ==
         {}
           \* the same probe (t5: always truthy, may be called any number of times) written at several operand positions
           \cup {NIf(Rep, Rep, a) : a \in {Leaf}} \cup {NIf(a, Rep, Rep) : a \in {Leaf}} \cup {NIf(Rep, a, Rep) : a \in {Leaf}}
           \cup {NBin(o, Rep, Rep) : o \in {"and", "or", "+", "=="}} \cup {NList(<<Rep, Rep, a>>) : a \in {Leaf}}
           \* compound assignment whose target / key is itself a subscript of a host container by a probe
           \cup {NSetOp(NIndex(NName("nn"), a), b, <<43, 61>>, c) : a \in {Leaf}, b \in {Leaf, NVal(VNum(0))}, c \in {Leaf}}
           \cup {NSetOp(NName("hl"), NIndex(NName("hl"), a), <<45, 61>>, c) : a \in {Leaf}, c \in {Leaf}}
           \cup {NSetItem(NIndex(NName("nn"), a), NIndex(NName("hl"), b), c) : a \in {Leaf}, b \in {Leaf}, c \in {Leaf}}
Shapes0 == {Leaf}
Shapes1 == Grow(Shapes0)
\* depth 2 is built only from the depth-1 shapes that can still fit the leaf bound
Shapes2 == Grow({s \in Shapes1 : Leaves(s) <= MaxLeaves - 1})
Shapes(d) == IF d = 0 THEN Shapes0 ELSE IF d = 1 THEN Shapes1 ELSE Shapes2

\* rename the probe leaves t -> t1, t2, ... in preorder
RECURSIVE Label(_, _)
RECURSIVE LabelSeq(_, _, _, _)
Label(t, k) ==
    IF t = Leaf THEN [t |-> NCall(ProbeNames[k], <<>>), k |-> k + 1]
    ELSE IF "ch" \in DOMAIN t THEN (LET r == LabelSeq(t.ch, 1, k, <<>>) IN [t |-> [t EXCEPT !.ch = r.s], k |-> r.k])
    ELSE [t |-> t, k |-> k]
LabelSeq(ch, i, k, acc) ==
    IF i > Len(ch) THEN [s |-> acc, k |-> k]
    ELSE LET r == Label(ch[i], k) IN LabelSeq(ch, i + 1, r.k, Append(acc, r.t))

Outcomes == {"one", "zero", "list", "raise"}
\* One constant holding every table.  TLC evaluates constant definitions eagerly at start-up and, while
\* doing so, re-evaluates any other constant a definition refers to; a single LET keeps that linear.
Model == LET seq == SetToSeq({s \in Shapes(MaxDepth) \cup ExtraShapes : Leaves(s) <= MaxLeaves /\ (Leaves(s) >= 1 \/ s \in ExtraShapes)})
             n == Len(seq)
             tree == [i \in 1..n |-> Number(NCode(<<Label(seq[i], 1).t>>), 1).t]
             lv == [i \in 1..n |-> Leaves(seq[i])]
             \* a scenario: shape index + one outcome per leaf
             scen == UNION {[si : {i}, o : [1..lv[i] -> Outcomes]] : i \in 1..n}
         IN [tree |-> tree, leaves |-> lv, scen |-> scen]
ShapeTree == Model.tree
ShapeLeaves == Model.leaves
AllScenarios == Model.scen

ProbeBeh(o) == [h |-> "probe", ret |-> CASE o = "one" -> HInt(1) [] o = "zero" -> HInt(0) [] o = "list" -> HostList [] OTHER -> HInt(0),
                raises |-> o = "raise"]
C09Calls(s) == <<[tree |-> ShapeTree[s.si], nid |-> "n1", max |-> 100, ast |-> <<>>]>>
C09Host(s) == [n \in {ProbeNames[i] : i \in 1..ShapeLeaves[s.si]} \cup {"t5"} |->
                 IF n = "t5" THEN ProbeBeh("one") ELSE ProbeBeh(s.o[CHOOSE i \in 1..ShapeLeaves[s.si] : ProbeNames[i] = n])]
C09Names0(s) == [n1 |-> [n \in {ProbeNames[i] : i \in 1..ShapeLeaves[s.si]} \cup {"nn", "hl", "t5"} |->
                            IF n = "nn" THEN NestedList ELSE IF n = "hl" THEN HostList ELSE HostFn(n)]]
C09Heap0(s) == Heap0
C09Bound(s) == Cap

(***************************************************************************)
(* The property, stated over the event history of the run                  *)
(***************************************************************************)
Tree == ShapeTree[sc.si]
RECURSIVE NodesOf(_)
NodesOf(t) == {t} \cup (IF "ch" \in DOMAIN t THEN UNION {NodesOf(t.ch[i]) : i \in 1..Len(t.ch)} ELSE {})
AllNodes == NodesOf(Tree)

PosOf(kind, id) == IF \E i \in 1..Len(hist) : hist[i].e = kind /\ hist[i].id = id
                   THEN CHOOSE i \in 1..Len(hist) : hist[i].e = kind /\ hist[i].id = id ELSE 0
CountOf(kind, id) == Cardinality({i \in 1..Len(hist) : hist[i].e = kind /\ hist[i].id = id})
ExitVal(id) == hist[PosOf("x", id)].v
Finished(id) == PosOf("x", id) # 0
ChildIds(n) == [i \in 1..Len(n.ch) |-> n.ch[i].id]
\* the charges of n's direct children, in history order
ChildCharges(n) == LET ids == {n.ch[i].id : i \in 1..Len(n.ch)} IN
                   SelectSeq([i \in 1..Len(hist) |-> IF hist[i].e = "c" /\ hist[i].id \in ids THEN hist[i].id ELSE 0], LAMBDA x : x # 0)
IsPrefixOf(a, b) == Len(a) <= Len(b) /\ SubSeq(b, 1, Len(a)) = a

NodeOk(n) ==
    IF "ch" \notin DOMAIN n \/ Len(n.ch) = 0 THEN CountOf("c", n.id) <= 1
    ELSE LET cc == ChildCharges(n)  ids == ChildIds(n) IN
         /\ CountOf("c", n.id) <= 1                                      \* every node at most once
         /\ (cc # <<>> => PosOf("c", n.id) # 0 /\ PosOf("c", n.id) < PosOf("c", cc[1]))    \* operands after the node is entered
         /\ CASE n.k = "bin" /\ n.op \in {"and", "or"} ->
                   /\ IsPrefixOf(cc, ids)
                   /\ (Len(cc) = 2 => Finished(ids[1]) /\ Truthy(mN.heap, ExitVal(ids[1])) = (n.op = "and"))
                   /\ (Finished(n.id) /\ Len(cc) = 1 => Truthy(mN.heap, ExitVal(ids[1])) # (n.op = "and") /\ ExitVal(n.id) = ExitVal(ids[1]))
                   /\ (Finished(n.id) /\ Len(cc) = 2 => ExitVal(n.id) = ExitVal(ids[2]))
                   /\ (Finished(n.id) => Len(cc) >= 1)
              [] n.k = "if" ->
                   /\ cc \in {<<>>, <<ids[1]>>, <<ids[1], ids[2]>>, <<ids[1], ids[3]>>}
                   /\ (Len(cc) = 2 => Finished(ids[1]) /\ (Truthy(mN.heap, ExitVal(ids[1])) <=> cc[2] = ids[2]))
                   /\ (Finished(n.id) => Len(cc) = 2 /\ ExitVal(n.id) = ExitVal(cc[2]))
              [] OTHER ->
                   /\ IsPrefixOf(cc, ids)                                \* left to right, each once
                   /\ (Finished(n.id) => cc = ids)                       \* all of them before the operation is applied
                   /\ \A i \in 2..Len(cc) : Finished(cc[i - 1]) /\ PosOf("x", cc[i - 1]) < PosOf("c", cc[i])
         /\ (Finished(n.id) => \A i \in 1..Len(cc) : Finished(cc[i]) /\ PosOf("x", cc[i]) < PosOf("x", n.id))
\* the host-visible probe log is exactly the sequence of probe leaves that were evaluated
ProbeCalls == SelectSeq([i \in 1..Len(hist) |-> IF hist[i].e = "p" THEN hist[i].name ELSE ""], LAMBDA x : x # "")
LogIsHistory == [i \in 1..Len(mN.log) |-> mN.log[i].name] = ProbeCalls
\* probes fire in left-to-right order of their leaves (names are numbered left to right), each at most once
ProbeOrder == \A i, j \in 1..Len(ProbeCalls) : (i < j /\ ProbeCalls[i] # "t5" /\ ProbeCalls[j] # "t5") =>
                 (CHOOSE a \in 1..5 : ProbeNames[a] = ProbeCalls[i]) < (CHOOSE b \in 1..5 : ProbeNames[b] = ProbeCalls[j])
OrderInv == \A n \in AllNodes : NodeOk(n)
=============================================================================
