SPECIFICATION Spec
CONSTANTS
  ExtraInfo <- AsciiOnly
  Deviations = {"ReservedNeedsLookahead", "NotInBindsTight", "ParenSingleParamRejected"}
  MaxCalls = 3
  CacheKind = "none"
INVARIANT HistInd
INVARIANT ResetCovers
INVARIANT CacheKeys
CHECK_DEADLOCK FALSE
