-------------------------------- MODULE MCVM --------------------------------
(***************************************************************************)
(* Model-checking harness for the evaluator: a PRODUCT of two machines run *)
(* on the same scenario, mN with the scenario's budgets and mU with        *)
(* unlimited budgets, stepped in lock-step until the budget of mN fires.   *)
(* Scenarios (programs x budgets x host bindings x call histories) are     *)
(* chosen by Init from the constant set Scenarios, so TLC quantifies over  *)
(* all of them.                                                            *)
(***************************************************************************)
EXTENDS SQVM, SQGen, SequencesExt, Json

\* Scenarios: a set of small descriptors; the operators below expand a descriptor (the MC module
\* keeps the numbered trees in constant tables so that states stay small)
CONSTANTS Scenarios, ScCalls(_), ScHost(_), ScNames0(_), ScHeap0(_), ScBound(_),
          KeepHist      \* BOOLEAN: record the event history of mN (needed by the order properties of C09)

VARIABLES sc, mN, mU, phase, atLimit, hist
vars == <<sc, mN, mU, phase, atLimit, hist>>

CallsU(s) == [i \in 1..Len(ScCalls(s)) |-> [ScCalls(s)[i] EXCEPT !.max = Unlimited]]
Swallows(s) == \E n \in DOMAIN ScHost(s) : ScHost(s)[n].h = "call" /\ ScHost(s)[n].mode = "swallow"

Init == /\ sc \in Scenarios
        /\ mN = InitMachine(ScHeap0(sc), ScNames0(sc), <<>>, ScBound(sc))
        /\ mU = InitMachine(ScHeap0(sc), ScNames0(sc), <<>>, ScBound(sc))
        /\ phase = "sync"
        /\ atLimit = [log |-> <<>>, heap |-> <<>>, names |-> <<>>]
        /\ hist = <<>>

\* everything except the budgets
Core(m) == [m EXCEPT !.vms = [i \in DOMAIN m.vms |-> [m.vms[i] EXCEPT !.max = 0]]]
LimitFired(m) == m.ctl.t = "exc" /\ m.ctl.e.exc = "OpsLimit"

SyncStep ==
    /\ phase = "sync" /\ Running(mN)
    /\ LET n2 == Step(mN, ScCalls(sc), ScHost(sc), NoOrc)
           u2 == Step(mU, CallsU(sc), ScHost(sc), NoOrc) IN
       /\ mN' = n2 /\ mU' = u2
       /\ hist' = IF KeepHist THEN hist \o n2.ev ELSE hist
       /\ IF mN.ctl.t = "eval" /\ LimitFired(n2)
          THEN /\ phase' = "nOnly"
               /\ atLimit' = [log |-> n2.log, heap |-> n2.heap, names |-> n2.names]
          ELSE /\ phase' = IF Running(n2) THEN "sync" ELSE "done"
               /\ UNCHANGED atLimit
    /\ UNCHANGED sc
\* after the limit fired: finish the aborted call of mN, then the same call of mU
NOnlyStep ==
    /\ phase = "nOnly"
    /\ mN' = Step(mN, ScCalls(sc), ScHost(sc), NoOrc)
    /\ phase' = IF mN'.ctl.t \in {"start", "halt", "unspec"} THEN "uOnly" ELSE "nOnly"
    /\ hist' = IF KeepHist THEN hist \o mN'.ev ELSE hist
    /\ UNCHANGED <<sc, mU, atLimit>>
UOnlyStep ==
    /\ phase = "uOnly"
    /\ IF mU.ctl.t \in {"start", "halt", "unspec"} \/ Len(mU.log) > 40
       THEN phase' = "done" /\ UNCHANGED mU
       ELSE mU' = Step(mU, CallsU(sc), ScHost(sc), NoOrc) /\ phase' = "uOnly"
    /\ UNCHANGED <<sc, mN, atLimit, hist>>

\* named actions by the kind of step of mN (coverage)
StartCallA == StepKind(mN) = "StartCall" /\ SyncStep
ChargeA    == StepKind(mN) = "Charge" /\ SyncStep
DispatchA  == StepKind(mN) = "Dispatch" /\ SyncStep
ResolveA   == StepKind(mN) = "Resolve" /\ SyncStep
CallA      == StepKind(mN) = "Call" /\ SyncStep
ReturnA    == StepKind(mN) = "Return" /\ SyncStep
UnwindA    == StepKind(mN) = "Unwind" /\ SyncStep

Next == StartCallA \/ ChargeA \/ DispatchA \/ ResolveA \/ CallA \/ ReturnA \/ UnwindA \/ NOnlyStep \/ UOnlyStep
Spec == Init /\ [][Next]_vars

(***************************************************************************)
(* C01                                                                     *)
(***************************************************************************)
\* while the budget has not fired the bounded run IS the unbounded run (hence monotone in N:
\* a run that finishes under N never fires, so it is the unbounded run, as is every run under N' > N)
Lockstep == phase = "sync" => Core(mN) = Core(mU)
\* no VM record is charged beyond its budget (hosts that swallow the limit error excepted)
BudgetInv == Swallows(sc) \/ \A v \in 1..Len(mN.vms) : mN.vms[v].max = Unlimited \/ mN.vms[v].ops <= mN.vms[v].max
\* each finished call: ops-limit outcome iff the call's own record reached its budget;
\* normal outcome only below the budget; every node evaluation of the call charged to the call
ResultInv ==
    \A i \in 1..Len(mN.results) :
        LET r == mN.results[i]  mx == ScCalls(sc)[i].max IN
        ScCalls(sc)[i].tree.k # "parsefail" =>
          /\ r.nev = r.ops                                                   \* ChargedAll
          /\ (~Swallows(sc) /\ r.outcome.t = "ok" /\ mx # Unlimited) => r.ops < mx
          /\ (~Swallows(sc) /\ r.outcome.t = "exc" /\ r.outcome.e.exc = "OpsLimit") => r.ops = mx
          /\ (~Swallows(sc) /\ mx # Unlimited /\ r.ops >= mx) => (r.outcome.t = "exc" /\ r.outcome.e.exc = "OpsLimit")
\* the charge that fires the limit has no effect; the error is raised exactly at the N-th operation
LimitExact == [][\A v \in 1..Len(mN.vms) :
                    (v <= Len(mN'.vms) /\ mN'.vms[v].ops # mN.vms[v].ops)
                    => /\ mN'.vms[v].ops = mN.vms[v].ops + 1
                       /\ mN.ctl.t = "eval"
                       /\ LimitFired(mN') <=> (mN.vms[v].max # Unlimited /\ mN'.vms[v].ops >= mN.vms[v].max)]_vars
NoEffectAtLimit == [][(mN.ctl.t = "eval" /\ LimitFired(mN')) =>
                        (mN'.heap = mN.heap /\ mN'.names = mN.names /\ mN'.log = mN.log /\ mN'.clos = mN.clos
                         /\ \A v \in 1..Len(mN.vms) : mN'.vms[v].scopes = mN.vms[v].scopes)]_vars
\* host-visible effects of the aborted run are a prefix of those of the unbounded run, and (for
\* hosts that let the error propagate) the aborted run has no effects after the limit
Prefix == phase \in {"uOnly", "done"} /\ atLimit.log # <<>> => IsPrefix(atLimit.log, mU.log)
PrefixAtLimit == phase = "nOnly" => IsPrefix(atLimit.log, mU.log)
NoEffectAfterLimit == (phase \in {"nOnly", "uOnly"} /\ ~Swallows(sc)) =>
                        (mN.log = atLimit.log /\ mN.heap = atLimit.heap /\ mN.names = atLimit.names)
\* once a record is exhausted every further charge to it raises again (swallowing hosts)
StickyLimit == [][\A v \in 1..Len(mN.vms) :
                    (v <= Len(mN'.vms) /\ mN.vms[v].max # Unlimited /\ mN.vms[v].ops >= mN.vms[v].max /\ mN'.vms[v].ops # mN.vms[v].ops)
                    => LimitFired(mN')]_vars

(***************************************************************************)
(* C10 / C02 / C03 / termination                                           *)
(***************************************************************************)
ScopeBalance == mN.ctl.t \in {"start", "halt"} => \A v \in 1..Len(mN.vms) : Len(mN.vms[v].scopes) = 1
ScopeStackShape == \A v \in 1..Len(mN.vms) : Len(mN.vms[v].scopes) >= 1 /\ mN.vms[v].scopes[1].s = "host"
                                             /\ \A i \in 2..Len(mN.vms[v].scopes) : mN.vms[v].scopes[i].s = "local"
\* every lambda frame on the continuation owns exactly one local scope of its record
LamFrames(m, v) == Cardinality({i \in 1..Len(m.k) : m.k[i].f = "lam" /\ m.k[i].vm = v})
ScopeMatchesFrames == \A v \in 1..Len(mN.vms) : Len(mN.vms[v].scopes) = 1 + LamFrames(mN, v)
TypeInv == \A n \in DOMAIN mN.names : \A x \in DOMAIN mN.names[n] :
              Plain(mN.heap, mN.names[n][x]) \/ mN.names[n][x].t = "hostfn"
SizeBound == ScBound(sc)
SizeInv == \A a \in 1..Len(mN.heap) : Len(mN.heap[a].items) <= SizeBound
Terminates == TLCGet("level") <= 4000
\* C18: every name an evaluation asks the host mapping for occurs in the source (hence in list_names(source),
\* which yields every NAME token - SQLexer/SQGrammar: NamesInTreeListed), apart from the implicit names of the
\* syntax sugar.  Stated for calls without host-supplied ASTs and without closures of earlier calls.
LookedInv == \A i \in 1..Len(mN.results) :
                (Len(ScCalls(sc)[i].ast) = 0 /\ i = 1 /\ ScCalls(sc)[i].tree.k # "parsefail")
                => mN.results[i].looked \subseteq (TreeNames(ScCalls(sc)[i].tree) \cup ImplicitNames)
LookedNow == (mN.ci = 1 /\ Len(ScCalls(sc)[1].ast) = 0 /\ ScCalls(sc)[1].tree.k # "parsefail")
             => mN.looked \subseteq (TreeNames(ScCalls(sc)[1].tree) \cup ImplicitNames)

(***************************************************************************)
(* Direction A: one JSON line per scenario whose exploration finished; the *)
(* harness replays the scenario on the real SqParser and validates the     *)
(* recorded trace with TraceVM; the summary printed here is cross-checked. *)
(***************************************************************************)
Outcome(r) == IF r.outcome.t = "ok" THEN "ok" ELSE r.outcome.e.exc \o "/" \o r.outcome.e.name
Emit == phase # "done" \/
        PrintT(ToJson([sc |-> sc, calls |-> ScCalls(sc), names0 |-> ScNames0(sc), heap0 |-> ScHeap0(sc), host |-> ScHost(sc),
                       end |-> mN.ctl.t,
                       summary |-> [i \in 1..Len(mN.results) |-> [out |-> Outcome(mN.results[i]), ops |-> mN.results[i].ops]]]))
\* the descriptor only (for models whose scenarios are re-rendered by the harness at another scale)
EmitSc == phase # "done" \/ PrintT(ToJson([sc |-> sc, end |-> mN.ctl.t,
                                           summary |-> [i \in 1..Len(mN.results) |-> [out |-> Outcome(mN.results[i]), ops |-> mN.results[i].ops]]]))
=============================================================================
