------------------------------- MODULE MC_C16 -------------------------------
(***************************************************************************)
(* Property C16 (evaluator part): every language-level failure - reading   *)
(* an undefined variable, calling an undefined function (in expressions    *)
(* and in compound assignments alike), reading a missing key or index,     *)
(* popping an empty list, exceeding the size cap or the op budget - is a   *)
(* ParserError (or its ops-limit subclass), at every syntactic position    *)
(* where it can occur.  Each scenario plants exactly one failure in one    *)
(* context of an otherwise failure-free program.                           *)
(***************************************************************************)
EXTENDS MCVM

HInt(n) == [t |-> "int", sign |-> 0, digs |-> <<n>>]
Num(n) == NVal(VNum(n))
SZ == NVal(VStr(<<122>>))
Heap0 == << [t |-> "list", items |-> <<HInt(1), HInt(2)>>],
            [t |-> "dict", items |-> << <<<<97>>, HInt(1)>> >>],
            [t |-> "list", items |-> <<>>],
            [t |-> "list", items |-> [i \in 1..Cap |-> HInt(0)]] >>
Names0 == [n1 |-> [l |-> [t |-> "list", addr |-> 1], d |-> [t |-> "dict", addr |-> 2], e |-> [t |-> "list", addr |-> 3],
                   full |-> [t |-> "list", addr |-> 4], hcall |-> [t |-> "hostfn", name |-> "hcall"]]]
Lv == NName("l")  Dv == NName("d")

\* failing expressions
FailExprs == <<
    NName("u"),                                        \* undefined variable
    NCall("nofn", <<Num(1)>>),                         \* undefined function
    NCall("nofn", <<>>),
    NIndex(Dv, SZ),                                    \* missing key
    NIndex(Lv, Num(9)),                                \* index out of range
    NIndex(NVal(VStr(<<97, 98>>)), Num(5)),            \* string index out of range
    NCall("pop", <<NName("e")>>),                      \* pop of an empty list
    NCall("pop", <<Lv, Num(9)>>),                      \* pop index out of range
    NCall("push", <<NName("full"), Num(1)>>),          \* size cap
    NCall("insert", <<NName("full"), Num(0), Num(1)>>),
    NCall("__setitem__", <<NName("full"), Num(0), Num(1)>>),
    NCall("__setitem_with_op__", <<Dv, SZ, NVal(VStr(<<43, 61>>)), Num(1)>>),     \* compound on a missing key
    NCall("__setitem_with_op__", <<Lv, Num(9), NVal(VStr(<<43, 61>>)), Num(1)>>),
    NCall("map", <<Num(1), NLambda(<<"v">>, NName("v"))>>),                       \* map over a non-container
    NCall("filter", <<SZ, NLambda(<<"v">>, NName("v"))>>),
    NCall("rand", <<Num(1), Num(2), Num(3)>>),
    NBin("*", SZ, Num(2)) >>                                                        \* multiplication of a non-number
\* failing statements
FailStmts == << NShort("u", "+=", Num(1)), NShort("u", "*=", Num(2)),
                NSetOp(Dv, SZ, <<43, 61>>, Num(1)), NSetOp(Lv, Num(9), <<45, 61>>, Num(1)),
                NSetItem(NName("full"), Num(0), Num(1)), NSetOp(NName("full"), Num(0), <<43, 61>>, Num(1)) >>

\* contexts: an expression with a hole
Ctx(i, x) ==
    CASE i = 1 -> x
      [] i = 2 -> NBin("+", x, Num(1))
      [] i = 3 -> NBin("+", Num(1), x)
      [] i = 4 -> NBin("and", Num(1), x)
      [] i = 5 -> NBin("or", x, Num(1))
      [] i = 6 -> NUn("not", x)
      [] i = 7 -> NUn("-", x)
      [] i = 8 -> NCall("len", <<x>>)
      [] i = 9 -> NCall("max", <<Num(1), x>>)
      [] i = 10 -> NList(<<Num(1), x>>)
      [] i = 11 -> NDict(<<x, Num(1)>>)
      [] i = 12 -> NDict(<<SZ, x>>)
      [] i = 13 -> NIndex(Lv, x)
      [] i = 14 -> NIndex(x, Num(0))
      [] i = 15 -> NIndex(Lv, NSlice(x, NVal(VNone), NVal(VNone)))
      [] i = 16 -> NIndex(Lv, NSlice(Num(0), x, NVal(VNone)))
      [] i = 17 -> NIf(x, Num(1), Num(2))
      [] i = 18 -> NIf(Num(1), x, Num(2))
      [] i = 19 -> NIf(Num(0), Num(1), x)
      [] i = 20 -> NCall("map", <<Lv, NLambda(<<"v">>, x)>>)
      [] i = 21 -> NCall("sorted", <<Lv, NLambda(<<"v">>, x)>>)
      [] i = 22 -> NCall("reduce", <<Lv, NLambda(<<"p", "q">>, x)>>)
      [] i = 23 -> NCall("hcall", <<NLambda(<<"v">>, x), Num(1)>>)
      [] i = 24 -> NCall("get", <<Dv, x>>)
      [] i = 25 -> NBin("in", x, Lv)
      [] i = 26 -> NBin("<", Num(1), x)
NCtx == 26
\* statement contexts for an expression
SCtx(j, x) ==
    CASE j = 1 -> <<x>>
      [] j = 2 -> <<NAssign("y", x)>>
      [] j = 3 -> <<NAssign("y", Num(1)), NShort("y", "+=", x)>>
      [] j = 4 -> <<NSetItem(Lv, Num(0), x)>>
      [] j = 5 -> <<NSetItem(Lv, x, Num(1))>>
      [] j = 6 -> <<NSetOp(Lv, Num(0), <<43, 61>>, x)>>
      [] j = 7 -> <<NDel(Lv, x)>>
      [] j = 8 -> <<Num(1), x, Num(2)>>
NSCtx == 8

Model == [fi \in 1..Len(FailExprs) |-> [ci \in 1..NCtx |-> [si \in 1..NSCtx |->
            Number(NCode(SCtx(si, Ctx(ci, FailExprs[fi]))), 1).t]]]
StmtModel == [fi \in 1..Len(FailStmts) |-> Number(NCode(<<Num(1), FailStmts[fi]>>), 1).t]
AstModel == [fi \in 1..Len(FailStmts) |->
               LET f == Number(NLambda(<<"v">>, NCode(<<FailStmts[fi]>>)), 1)
                   mn == Number(NCode(<<NCall("f", <<Num(1)>>)>>), f.n) IN [f |-> f.t, main |-> mn.t]]
\* budget: a failure-free program under every budget that is too small
BudgetProg == Number(NCode(<<NAssign("y", NBin("+", Num(1), Num(2))), NCall("map", <<Lv, NLambda(<<"v">>, NBin("+", NName("v"), NName("y")))>>)>>), 1).t

AllScenarios == [kind : {"expr"}, fi : 1..Len(FailExprs), ci : 1..NCtx, si : 1..NSCtx, n : {Unlimited}]
                \cup [kind : {"stmt", "ast"}, fi : 1..Len(FailStmts), ci : {1}, si : {1}, n : {Unlimited}]
                \cup [kind : {"budget"}, fi : {1}, ci : {1}, si : {1}, n : 1..14]
C16Calls(s) ==
    CASE s.kind = "expr" -> <<[tree |-> Model[s.fi][s.ci][s.si], nid |-> "n1", max |-> s.n, ast |-> <<>>]>>
      [] s.kind = "stmt" -> <<[tree |-> StmtModel[s.fi], nid |-> "n1", max |-> s.n, ast |-> <<>>]>>
      [] s.kind = "ast" -> <<[tree |-> AstModel[s.fi].main, nid |-> "n1", max |-> s.n, ast |-> <<[name |-> "f", tree |-> AstModel[s.fi].f]>>]>>
      [] s.kind = "budget" -> <<[tree |-> BudgetProg, nid |-> "n1", max |-> s.n, ast |-> <<>>]>>
C16Host(s) == [hcall |-> [h |-> "call", mode |-> "propagate"]]
C16Names0(s) == Names0
C16Heap0(s) == Heap0
C16Bound(s) == Cap

(***************************************************************************)
\* the planted failure is the only failure: the call ends with a ParserError (or its ops-limit subclass),
\* never with another exception class and never normally
ClassInv == \A i \in 1..Len(mN.results) :
               /\ mN.results[i].outcome.t = "exc"
               /\ mN.results[i].outcome.e.exc \in {"ParserError", "OpsLimit"}
Reached == phase = "done" => mN.ctl.t = "halt" \/ mN.ctl.t = "unspec"
=============================================================================
