SPECIFICATION Spec
CONSTANT Deviations = {}
CONSTANT Cap = 10000
CONSTANT Scenarios <- AllScenarios
CONSTANT ScCalls <- C01Calls
CONSTANT ScHost <- C01Host
CONSTANT ScNames0 <- C01Names0
CONSTANT ScHeap0 <- C01Heap0
CONSTANT ScBound <- C01Bound
CONSTANT MaxN = 12
CONSTANT Tier = "quick"
CONSTANT KeepHist = FALSE
INVARIANT Lockstep
INVARIANT BudgetInv
INVARIANT ResultInv
INVARIANT Prefix
INVARIANT PrefixAtLimit
INVARIANT NoEffectAfterLimit
INVARIANT ScopeBalance
INVARIANT ScopeStackShape
INVARIANT ScopeMatchesFrames
INVARIANT SizeInv
INVARIANT Terminates
INVARIANT Emit
PROPERTY LimitExact
PROPERTY NoEffectAtLimit
PROPERTY StickyLimit
CHECK_DEADLOCK FALSE
