SPECIFICATION Spec
CONSTANT Deviations = {}
CONSTANT Cap = 6
CONSTANT Scenarios <- AllScenarios
CONSTANT ScCalls <- C03Calls
CONSTANT ScHost <- C03Host
CONSTANT ScNames0 <- C03Names0
CONSTANT ScHeap0 <- C03Heap0
CONSTANT ScBound <- C03Bound
CONSTANT KeepHist = FALSE
CONSTANT MaxLen = 2
INVARIANT SizeInv
INVARIANT ScopeBalance
INVARIANT Terminates
INVARIANT EmitSc
PROPERTY AtCapFails
CHECK_DEADLOCK FALSE
