---------------------------- MODULE TraceSession ----------------------------
(***************************************************************************)
(* Trace validation of recorded sessions against SQSession: every recorded *)
(* call (parse / eval's parse / list_names full or abandoned) is taken     *)
(* through the specification's own Begin and Run/Hit actions and the       *)
(* observed outcome, lexer residue and cache key set must be the           *)
(* specification's.  SOURCES_FILE: [sources, traces: <<[calls: <<[call,    *)
(* obs]>>]>>].                                                             *)
(***************************************************************************)
EXTENDS SQSession

VARIABLES tid, l, verdict
tvars == <<vars, tid, l, verdict>>

Traces == Input.traces
T == Traces[tid].calls

ObsMatches(o, ob) ==
    IF "names" \in DOMAIN o
    THEN /\ "names" \in DOMAIN ob /\ o.names = ob.names
         /\ ("err" \notin DOMAIN o \/ (o.err = "illegal") = (ob.err = 1))
    ELSE IF o.ok THEN ob.ok /\ ob.tree = o.tree
    ELSE /\ ~ob.ok /\ ob.kind = o.kind
         /\ (o.kind = "syntax" => ob.text = o.msg.text /\ ob.line = o.msg.line)
         /\ (o.kind = "illegal" => ob.ch = o.msg.ch)

\* which part of the outcome differs (the checks of C06 / C16 / C18 / C20 each own some of them)
OutcomeClause(o, ob) ==
    IF "names" \in DOMAIN o THEN "outcome.names"
    ELSE IF o.ok /\ ~ob.ok THEN "outcome.rejected"          \* the specification accepts the text, the code raised
    ELSE IF ~o.ok /\ ob.ok THEN "outcome.accepted"          \* the specification rejects the text, the code returned a tree
    ELSE IF o.ok THEN "outcome.tree"
    ELSE IF ob.kind # o.kind THEN "outcome.kind"
    ELSE IF o.kind = "syntax" /\ ob.text # o.msg.text THEN "outcome.token"
    ELSE IF o.kind = "syntax" THEN "outcome.line"
    ELSE "outcome.char"

TInit == Init /\ tid \in 1..Len(Traces) /\ l = 1 /\ verdict = "run"
TBegin == /\ verdict = "run" /\ l <= Len(T) /\ Begin(T[l].call) /\ UNCHANGED <<tid, l, verdict>>
TRun == /\ verdict = "run" /\ (Run \/ Hit)
        /\ LET o == outs'[Len(outs')].o  ob == T[l].obs IN
           verdict' = IF ~ObsMatches(o, ob) THEN OutcomeClause(o, ob)
                      ELSE IF "residue" \in DOMAIN ob /\ ob.residue # res' THEN "residue"
                      ELSE IF "keys" \in DOMAIN ob /\ {ob.keys[j] : j \in 1..Len(ob.keys)} # {cache'[j][1] : j \in 1..Len(cache')} THEN "cachekeys"
                      ELSE "run"
        /\ l' = l + 1 /\ UNCHANGED tid
TNoop == /\ verdict = "run" /\ l <= Len(T) /\ Noop(T[l].call)
         /\ verdict' = IF "residue" \in DOMAIN T[l].obs /\ T[l].obs.residue # res THEN "residue" ELSE "run"
         /\ l' = l + 1 /\ UNCHANGED tid
TNext == TBegin \/ TRun \/ TNoop
TSpec == TInit /\ [][TNext]_tvars

Done == verdict # "run" \/ (l > Len(T) /\ phase = "idle")
Emit == ~Done \/ PrintT(ToJson([tid |-> tid, v |-> IF verdict = "run" THEN "accepted" ELSE "rejected", clause |-> verdict, at |-> l - 1]))
=============================================================================
