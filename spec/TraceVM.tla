------------------------------ MODULE TraceVM ------------------------------
(***************************************************************************)
(* Trace validation (code -> specification) for the evaluator layer.       *)
(*                                                                         *)
(* CASES_FILE holds [deviations, cases]; each case is one recorded session *)
(* of the real SqParser: the parsed trees, the host names, the host        *)
(* functions and the event stream of harness/vmtrace.py.  Init picks a     *)
(* case; every Next step advances the SQVM machine by exactly one Step and *)
(* requires the events that step emits to be the next recorded events,     *)
(* with values compared up to a bijection between observed object          *)
(* identities and specification addresses.  Verdicts are total: accepted,  *)
(* rejected(at event l, clause), leftdomain(at l).                         *)
(***************************************************************************)
EXTENDS SQVM, Json, IOUtils

Input == JsonDeserialize(IOEnv.CASES_FILE)
Cases == Input.cases
DevSet == {Input.deviations[i] : i \in 1..Len(Input.deviations)}

VARIABLES tid, m, l, st, verdict
vars == <<tid, m, l, st, verdict>>

Case == Cases[tid]
Evs == Case.events

(***************************************************************************)
(* Matching observed (deep) values against specification values            *)
(***************************************************************************)
Range(f) == {f[x] : x \in DOMAIN f}
Fail(s, why) == [s EXCEPT !.ok = FALSE, !.why = why]
IsContainer(v) == v.t \in {"list", "dict", "tuple"}

RECURSIVE MatchV(_, _, _, _, _)
RECURSIVE MatchSeq(_, _, _, _, _, _)
RECURSIVE MatchPairs(_, _, _, _, _, _)
RECURSIVE MatchRuns(_, _, _, _, _, _, _)

BindAddr(s, oa, sa) ==
    IF oa \in DOMAIN s.a THEN (IF s.a[oa] = sa THEN s ELSE Fail(s, "object identity differs"))
    ELSE IF sa \in Range(s.a) THEN Fail(s, "object identity differs (aliasing)")
    ELSE [s EXCEPT !.a = FnPut(@, oa, sa)]
\* An observed closure object may stand for several specified closures (an implementation may hand out the same callable
\* again when a lambda node is evaluated again - closures are immutable, no property speaks of their identity): the
\* binding then follows the most recent one.  What the closure DOES is checked by the events of its calls.
BindLam(s, ol, sl) ==
    IF ol \in DOMAIN s.l THEN (IF s.l[ol] = sl THEN s ELSE [s EXCEPT !.l[ol] = sl])
    ELSE IF sl \in Range(s.l) THEN Fail(s, "closure identity differs (aliasing)")
    ELSE [s EXCEPT !.l = FnPut(@, ol, sl)]

MatchV(h, ov, sv, s, fuel) ==
    IF ~s.ok THEN s
    ELSE IF fuel = 0 THEN Fail(s, "value too deep")
    ELSE IF ov.t # sv.t THEN Fail(s, "value type differs: observed " \o ov.t \o ", specified " \o sv.t)
    ELSE CASE ov.t = "tuple" ->
                IF Len(ov.items) # Len(sv.items) THEN Fail(s, "tuple length differs")
                ELSE MatchSeq(h, ov.items, sv.items, 1, s, fuel - 1)
           [] ov.t = "list" ->
                LET s1 == BindAddr(s, ov.addr, sv.addr)  its == h[sv.addr].items IN
                IF ~s1.ok \/ "seen" \in DOMAIN ov THEN s1
                ELSE IF "runs" \in DOMAIN ov
                THEN (IF ov.n # Len(its) THEN Fail(s1, "list length differs") ELSE MatchRuns(h, ov.runs, its, 1, 1, s1, fuel - 1))
                ELSE IF Len(ov.items) # Len(its) THEN Fail(s1, "list length differs")
                ELSE MatchSeq(h, ov.items, its, 1, s1, fuel - 1)
           [] ov.t = "dict" ->
                LET s1 == BindAddr(s, ov.addr, sv.addr)  ps == h[sv.addr].items IN
                IF ~s1.ok \/ "seen" \in DOMAIN ov THEN s1
                ELSE IF "n" \in DOMAIN ov
                THEN (IF ov.n # Len(ps) THEN Fail(s1, "dict length differs")
                      ELSE MatchPairs(h, ov.tail, SubSeq(ps, Len(ps) - Len(ov.tail) + 1, Len(ps)), 1,
                                      MatchPairs(h, ov.head, SubSeq(ps, 1, Len(ov.head)), 1, s1, fuel - 1), fuel - 1))
                ELSE IF Len(ov.items) # Len(ps) THEN Fail(s1, "dict length differs")
                ELSE MatchPairs(h, ov.items, ps, 1, s1, fuel - 1)
           [] ov.t = "lambda" -> BindLam(s, ov.lid, sv.lid)
           [] ov.t = "slice" -> MatchV(h, ov.c, sv.c, MatchV(h, ov.b, sv.b, MatchV(h, ov.a, sv.a, s, fuel - 1), fuel - 1), fuel - 1)
           [] ov.t = "float" -> IF ov.dec = sv.dec THEN s ELSE Fail(s, "float differs")
           [] OTHER -> IF ov = sv THEN s ELSE Fail(s, "value differs (" \o ov.t \o ")")
\* no object or closure identity inside: can be compared by plain equality
RECURSIVE Flat(_)
Flat(v) == CASE v.t \in {"list", "dict", "lambda", "opaque"} -> FALSE
             [] v.t = "tuple" -> \A i \in 1..Len(v.items) : Flat(v.items[i])
             [] OTHER -> TRUE
MatchSeq(h, os, ss, i, s, fuel) ==
    IF ~s.ok \/ i > Len(os) THEN s
    ELSE IF i = 1 /\ Len(os) > 64 /\ \A j \in 1..Len(os) : Flat(os[j])      \* long flat sequences: no element-wise recursion
    THEN (IF \A j \in 1..Len(os) : os[j] = ss[j] THEN s ELSE Fail(s, "element of a long sequence differs"))
    ELSE MatchSeq(h, os, ss, i + 1, MatchV(h, os[i], ss[i], s, fuel), fuel)
MatchPairs(h, ops, sps, i, s, fuel) ==
    IF ~s.ok \/ i > Len(ops) THEN s
    ELSE IF i = 1 /\ Len(ops) > 64 /\ \A j \in 1..Len(ops) : Flat(ops[j][2])
    THEN (IF \A j \in 1..Len(ops) : ops[j][1] = sps[j][1] /\ ops[j][2] = sps[j][2] THEN s ELSE Fail(s, "entry of a long dict differs"))
    ELSE IF ops[i][1] # sps[i][1] THEN Fail(s, "dict key differs")
    ELSE MatchPairs(h, ops, sps, i + 1, MatchV(h, ops[i][2], sps[i][2], s, fuel), fuel)
MatchRuns(h, runs, its, ri, pos, s, fuel) ==
    IF ~s.ok THEN s
    ELSE IF ri > Len(runs) THEN (IF pos = Len(its) + 1 THEN s ELSE Fail(s, "list length differs"))
    ELSE LET r == runs[ri] IN
         IF pos + r.c - 1 > Len(its) THEN Fail(s, "list length differs")
         ELSE IF IsContainer(r.v) \/ r.v.t = "lambda"
         THEN MatchRuns(h, runs, its, ri + 1, pos + 1, MatchV(h, r.v, its[pos], s, fuel), fuel)
         ELSE IF \A j \in pos..(pos + r.c - 1) : its[j] = r.v THEN MatchRuns(h, runs, its, ri + 1, pos + r.c, s, fuel)
         ELSE Fail(s, "list element differs")

Match(h, ov, sv, s) == MatchV(h, ov, sv, s, 40)

\* names: observed record nid -> (name -> deep value)
RECURSIVE MatchNames(_, _, _, _, _)
MatchNames(h, on, sn, keys, s) ==
    IF ~s.ok \/ keys = {} THEN s
    ELSE LET k == CHOOSE x \in keys : TRUE IN MatchNames(h, on, sn, keys \ {k}, Match(h, on[k], sn[k], s))
MatchAllNames(mm, onames, s) ==
    LET RECURSIVE Go(_, _)
        Go(nids, s1) == IF ~s1.ok \/ nids = {} THEN s1
                        ELSE LET n == CHOOSE x \in nids : TRUE IN
                             IF DOMAIN onames[n] # DOMAIN mm.names[n] THEN Fail(s1, "names key set differs")
                             ELSE Go(nids \ {n}, MatchNames(mm.heap, onames[n], mm.names[n], DOMAIN onames[n], s1))
    IN Go(DOMAIN onames, s)

(***************************************************************************)
(* Oracle values: observed references are translated through the bijection *)
(***************************************************************************)
RECURSIVE TransV(_, _)
TransV(iv, s) ==
    CASE iv.t \in {"ilist", "tuple"} -> [iv EXCEPT !.items = [i \in 1..Len(iv.items) |-> TransV(iv.items[i], s)]]
      [] iv.t \in {"list", "dict"} -> IF iv.addr \in DOMAIN s.a THEN [t |-> iv.t, addr |-> s.a[iv.addr]] ELSE [t |-> "opaque", type |-> "unknown object"]
      [] iv.t = "lambda" -> IF iv.lid \in DOMAIN s.l THEN [t |-> "lambda", lid |-> s.l[iv.lid]] ELSE [t |-> "opaque", type |-> "unknown closure"]
      [] OTHER -> iv
TransOrc(orc, s) == IF orc.t = "val" THEN [t |-> "val", v |-> TransV(orc.v, s)] ELSE orc

(***************************************************************************)
(* One event                                                               *)
(***************************************************************************)
MatchEvent(mm, oe, se, s) ==
    IF oe.e # se.e THEN Fail(s, "event kind differs: observed " \o oe.e \o ", specified " \o se.e)
    ELSE CASE se.e = "c" -> IF oe.id = se.id /\ oe.vm = se.vm /\ oe.ops = se.ops /\ oe.r = se.r THEN s
                            ELSE Fail(s, "charge differs (node, VM record, op count or raised flag)")
           [] se.e = "x" -> IF oe.id # se.id THEN Fail(s, "exit of a different node") ELSE Match(mm.heap, oe.v, se.v, s)
           [] se.e = "e" -> IF oe.id # se.id THEN Fail(s, "exit of a different node")
                            ELSE IF oe.cls # se.cls THEN Fail(s, "exception class differs: observed " \o oe.cls \o "/" \o oe.name \o ", specified " \o se.cls)
                            \* which Python exception a host-level error is (TypeError, AttributeError, ...) is no property's business
                            ELSE IF se.cls # "Other" /\ se.name # "?" /\ oe.name # se.name THEN Fail(s, "exception type differs: observed " \o oe.name \o ", specified " \o se.name)
                            ELSE s
           [] se.e = "p" -> IF oe.name # se.name \/ Len(oe.args) # Len(se.args) THEN Fail(s, "host call differs")
                            ELSE MatchSeq(mm.heap, oe.args, se.args, 1, s, 40)
           [] se.e = "end" ->
                LET s1 == IF oe.out.t # se.out.t THEN Fail(s, "outcome differs: observed " \o oe.out.t \o ", specified " \o se.out.t)
                          ELSE IF se.out.t = "ok" THEN Match(mm.heap, oe.out.v, se.out.v, s)
                          ELSE IF se.out.e.exc = "any" THEN s
                          ELSE IF oe.out.e.exc # se.out.e.exc THEN Fail(s, "final exception class differs: observed " \o oe.out.e.exc \o "/" \o oe.out.e.name \o ", specified " \o se.out.e.exc)
                          ELSE IF se.out.e.exc # "Other" /\ se.out.e.name # "?" /\ oe.out.e.name # se.out.e.name THEN Fail(s, "final exception type differs: observed " \o oe.out.e.name)
                          ELSE s
                    s2 == IF ~s1.ok THEN s1 ELSE IF oe.ops # se.ops THEN Fail(s1, "ops charged to the call differ") ELSE s1
                    s3 == IF ~s2.ok THEN s2 ELSE IF oe.nev # se.nev THEN Fail(s2, "node evaluations differ") ELSE s2
                    s4 == IF ~s3.ok THEN s3 ELSE MatchAllNames(mm, oe.names, s3)
                    s5 == IF ~s4.ok THEN s4
                          ELSE IF \E v \in 1..Len(oe.depth) : v <= Len(mm.vms) /\ oe.depth[v] # Len(mm.vms[v].scopes) + 1
                          THEN Fail(s4, "scope stack depth differs") ELSE s4
                    s6 == IF ~s5.ok THEN s5
                          ELSE IF oe.looked # <<"*">> /\ {oe.looked[i] : i \in 1..Len(oe.looked)} # se.looked THEN Fail(s5, "names requested from the host differ") ELSE s5
                IN s6

RECURSIVE MatchEvents(_, _, _, _, _)
\* returns [s, l]
MatchEvents(mm, ses, i, ll, s) ==
    IF ~s.ok \/ i > Len(ses) THEN [s |-> s, l |-> ll]
    ELSE IF ll > Len(Evs) THEN [s |-> Fail(s, "recorded trace ends, specification continues with " \o ses[i].e), l |-> ll]
    ELSE MatchEvents(mm, ses, i + 1, ll + 1, MatchEvent(mm, Evs[ll], ses[i], s))

(***************************************************************************)
(* Properties evaluated at every step of every observed execution.  They   *)
(* are folded into the verdict (a TLC INVARIANT would abort the whole      *)
(* batch at the first violating trace).  Not evaluated when the trace is   *)
(* re-judged against a deviation model (Input.props = FALSE).              *)
(***************************************************************************)
Swallows == \E n \in DOMAIN Case.host : Case.host[n].h = "call" /\ Case.host[n].mode = "swallow"
Bound == IF "bound" \in DOMAIN Case THEN Case.bound ELSE Cap
\* C01: no VM record is charged beyond its budget unless a host callback swallowed the limit error
BudgetInvP(m2) == Swallows \/ \A v \in 1..Len(m2.vms) : m2.vms[v].max = Unlimited \/ m2.vms[v].ops <= m2.vms[v].max
\* C01: a counter moves by one, only at a Charge, and the limit error is raised exactly when it reaches the budget
LimitExactP(m1, m2) ==
    \A v \in 1..Len(m1.vms) :
        m2.vms[v].ops # m1.vms[v].ops
        => /\ m2.vms[v].ops = m1.vms[v].ops + 1
           /\ m1.ctl.t = "eval"
           /\ (m2.ctl.t = "exc" /\ m2.ctl.e.exc = "OpsLimit") <=> (m1.vms[v].max # Unlimited /\ m2.vms[v].ops >= m1.vms[v].max)
\* C01: a charge that raises has no effect
NoEffectAtLimitP(m1, m2) ==
    (m1.ctl.t = "eval" /\ m2.ctl.t = "exc") => (m2.heap = m1.heap /\ m2.names = m1.names /\ m2.log = m1.log /\ m2.clos = m1.clos)
\* C01/C07: every node evaluation of a call is charged to the record of that call
ChargedAllP(m2) == \A i \in 1..Len(m2.results) : m2.results[i].nev = m2.results[i].ops
\* C10: the scope stack is balanced whenever an eval call finishes
ScopeBalanceP(m2) == m2.ctl.t = "start" => \A v \in 1..Len(m2.vms) : Len(m2.vms[v].scopes) = 1
\* C03: no container longer than the bound
SizeInvP(m2) == \A a \in 1..Len(m2.heap) : Len(m2.heap[a].items) <= Bound

\* C18: names requested from the host during a call are among list_names(source) of that call (recorded by the
\* harness as calls[i].listed) or the implicit names; calls with host ASTs / closures of earlier calls excepted
ListedP(m2) == \A i \in 1..Len(m2.results) :
                  ("listed" \in DOMAIN Case.calls[i] /\ Len(Case.calls[i].ast) = 0 /\ (i = 1 \/ "listedall" \in DOMAIN Case))
                  => m2.results[i].looked \subseteq ({Case.calls[i].listed[j] : j \in 1..Len(Case.calls[i].listed)} \cup ImplicitNames)
\* C08: every number token of a call's text carries exactly the written decimal value
LitOk(lit) == LET d == DecFromLiteral(lit.text) IN
              lit.v.t = "dec" /\ lit.v.sign = d.sign /\ lit.v.digs = d.digs /\ lit.v.exp = d.exp
LiteralsP(m2) == \A i \in 1..Len(m2.results) :
                  "lits" \in DOMAIN Case.calls[i] => \A j \in 1..Len(Case.calls[i].lits) : LitOk(Case.calls[i].lits[j])
\* the interactive loop (smartquery/repl.py, SQRepl): what it prints after a line is repr(result) for a result other than
\* None, repr(exception) for an Exception, nothing otherwise
PrintedP(m1, m2) ==
    (Len(m2.results) = Len(m1.results) + 1 /\ "printed" \in DOMAIN Case.calls[Len(m2.results)]) =>
    LET r == m2.results[Len(m2.results)].outcome
        pr == Case.calls[Len(m2.results)].printed IN
    IF r.t = "ok"
    THEN IF r.v.t = "none" THEN pr.n = 0
         ELSE LET s == ToRepr(m2.heap, r.v) IN IsBadStr(s) \/ pr.text = s \o <<10>>
    ELSE pr.n = 1 /\ (r.e.exc \in {"any", "Other"} \/ pr.head = r.e.name)       \* "any": the text does not parse (SQGrammar says which error)
PropViolation(m1, m2) ==
    \* the first two do not depend on which deviations of the evaluator are switched on
    IF ~PrintedP(m1, m2) THEN "REPL Printed: the loop did not print repr(result) / repr(exception) for this line"
    ELSE IF ~LiteralsP(m2) THEN "C08 LiteralExact: a number token does not carry its written decimal value"
    ELSE IF ~Input.props THEN ""
    ELSE IF ~ListedP(m2) THEN "C18 LookedListed: a name requested from the host is not reported by list_names"
    ELSE IF ~BudgetInvP(m2) THEN "C01 BudgetInv: a VM record was charged beyond its budget"
    ELSE IF ~LimitExactP(m1, m2) THEN "C01 LimitExact"
    ELSE IF ~NoEffectAtLimitP(m1, m2) THEN "C01 NoEffectAtLimit"
    ELSE IF ~ChargedAllP(m2) THEN "C01 ChargedAll: node evaluations of a call not charged to that call"
    ELSE IF ~ScopeBalanceP(m2) THEN "C10 ScopeBalance: a lambda scope outlived its call"
    ELSE IF ~SizeInvP(m2) THEN "C03 SizeInv: a container exceeds the size bound"
    ELSE ""

(***************************************************************************)
(* Behaviour                                                               *)
(***************************************************************************)
HostOf(c) == c.host
EmptyMap == [x \in {} |-> 0]
IdMap(n) == [x \in 1..n |-> x]

\* long uniform host containers travel run-length encoded / as bulk records
RECURSIVE ExpandRuns(_, _)
ExpandRuns(runs, i) == IF i > Len(runs) THEN <<>> ELSE [j \in 1..runs[i].c |-> runs[i].v] \o ExpandRuns(runs, i + 1)
RECURSIVE BulkKey(_)
BulkKey(i) == <<107>> \o (IF i < 10 THEN <<48 + i>> ELSE Tail(BulkKey(i \div 10)) \o <<48 + (i % 10)>>)
ExpandObj(o) == IF "runs" \in DOMAIN o THEN [t |-> "list", items |-> ExpandRuns(o.runs, 1)]
                ELSE IF "kbulk" \in DOMAIN o THEN [t |-> "dict", items |-> [i \in 1..o.kbulk |-> <<BulkKey(i - 1), o.v>>]]
                ELSE IF "ibulk" \in DOMAIN o THEN [t |-> "dict", items |-> [i \in 1..o.ibulk |-> << <<-2>> \o Tail(BulkKey(i - 1)), o.v>>]]   \* int keys 0 .. n-1
                ELSE o
ExpandHeap(hp) == [a \in 1..Len(hp) |-> ExpandObj(hp[a])]

Init == /\ tid \in 1..Len(Cases)
        /\ m = InitMachine(ExpandHeap(Cases[tid].heap0), Cases[tid].names0, <<>>, IF "bound" \in DOMAIN Cases[tid] THEN Cases[tid].bound ELSE Cap)
        /\ l = 1
        /\ st = [ok |-> TRUE, why |-> "", a |-> IdMap(Len(Cases[tid].heap0)), l |-> EmptyMap]
        /\ verdict = [s |-> "run"]

Advance ==
    LET l1 == l
        need == NeedsOracle(m)
        haveO == l1 <= Len(Evs) /\ Evs[l1].e = "o"
        orc == IF need /\ haveO THEN TransOrc(Evs[l1].orc, st) ELSE NoOrc
        l2 == IF need /\ haveO THEN l1 + 1 ELSE l1
        m2 == Step(m, Case.calls, HostOf(Case), orc)
        r == MatchEvents(m2, m2.ev, 1, l2, st)
        pv == IF r.s.ok /\ m2.ctl.t \notin {"unspec", "badoracle"} THEN PropViolation(m, m2) ELSE ""
    IN IF need /\ ~haveO
       THEN /\ verdict' = [s |-> "rejected", l |-> l1, why |-> "a relational builtin was expected to be called here", spec |-> <<>>]
            /\ UNCHANGED <<tid, m, l, st>>
       ELSE /\ m' = m2
            /\ l' = r.l
            /\ st' = r.s
            /\ tid' = tid
            /\ verdict' = IF ~r.s.ok THEN [s |-> "rejected", l |-> r.l - 1, why |-> r.s.why, spec |-> m2.ev]
                          ELSE IF m2.ctl.t = "unspec" THEN [s |-> "leftdomain", l |-> r.l, why |-> m2.ctl.why]
                          ELSE IF m2.ctl.t = "badoracle" THEN [s |-> "rejected", l |-> l1, why |-> m2.ctl.why, spec |-> <<>>]
                          ELSE IF pv # "" THEN [s |-> "rejected", l |-> r.l - 1, why |-> "property " \o pv, spec |-> <<>>]
                          ELSE IF m2.ctl.t = "halt"
                          THEN (IF r.l = Len(Evs) + 1 THEN [s |-> "accepted", l |-> r.l]
                                ELSE [s |-> "rejected", l |-> r.l, why |-> "recorded trace continues after the specification halted", spec |-> <<>>])
                          ELSE [s |-> "run"]

\* one named action per kind of machine step: -coverage shows which were exercised
StartCallA == verdict.s = "run" /\ StepKind(m) = "StartCall" /\ Advance
ChargeA    == verdict.s = "run" /\ StepKind(m) = "Charge" /\ Advance
DispatchA  == verdict.s = "run" /\ StepKind(m) = "Dispatch" /\ Advance
ResolveA   == verdict.s = "run" /\ StepKind(m) = "Resolve" /\ Advance
CallA      == verdict.s = "run" /\ StepKind(m) = "Call" /\ Advance
ReturnA    == verdict.s = "run" /\ StepKind(m) = "Return" /\ Advance
UnwindA    == verdict.s = "run" /\ StepKind(m) = "Unwind" /\ Advance

Next == StartCallA \/ ChargeA \/ DispatchA \/ ResolveA \/ CallA \/ ReturnA \/ UnwindA

Spec == Init /\ [][Next]_vars

Emit == verdict.s = "run" \/
        PrintT(ToJson([tid |-> Case.tid, v |-> verdict.s, l |-> verdict.l,
                       why |-> IF "why" \in DOMAIN verdict THEN verdict.why ELSE "",
                       spec |-> IF "spec" \in DOMAIN verdict THEN verdict.spec ELSE <<>>,
                       calls |-> Len(m.results)]))
=============================================================================
