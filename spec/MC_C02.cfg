SPECIFICATION Spec
CONSTANT Deviations = {}
CONSTANT Cap = 10000
CONSTANT Scenarios <- AllScenarios
CONSTANT ScCalls <- C02Calls
CONSTANT ScHost <- C02Host
CONSTANT ScNames0 <- C02Names0
CONSTANT ScHeap0 <- C02Heap0
CONSTANT ScBound <- C02Bound
CONSTANT KeepHist = FALSE
INVARIANT AllPlain
INVARIANT ScopeBalance
INVARIANT Terminates
INVARIANT Emit
CHECK_DEADLOCK FALSE
