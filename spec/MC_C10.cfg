SPECIFICATION Spec
CONSTANT Deviations = {}
CONSTANT Cap = 10000
CONSTANT Scenarios <- AllScenarios
CONSTANT ScCalls <- C10Calls
CONSTANT ScHost <- C10Host
CONSTANT ScNames0 <- C10Names0
CONSTANT ScHeap0 <- C10Heap0
CONSTANT ScBound <- C10Bound
CONSTANT KeepHist = FALSE
INVARIANT ScopeBalance
INVARIANT ScopeStackShape
INVARIANT ScopeMatchesFrames
INVARIANT Lockstep
INVARIANT BudgetInv
INVARIANT Terminates
INVARIANT Emit
PROPERTY HostWrittenOnlyAtTop
PROPERTY LocalsVanish
CHECK_DEADLOCK FALSE
