---------------------------- MODULE SQRegexTimer ----------------------------
(***************************************************************************)
(* Property C05: the three regex builtins (match, match_groups, match_all) *)
(* as a begin/end pair with a timer.                                       *)
(*                                                                         *)
(*  RegexBegin(fn, timeoutMs, plen, slen)  enabled only if the call into   *)
(*      the regex engine (if any) carries a timeout, 0 < timeout <= 50 ms  *)
(*  RegexEnd(elapsedMs, outcome)           enabled only if the measured    *)
(*      duration lies inside Envelope(plen, slen) = C + (plen + slen) / K  *)
(*      and the outcome is a value, a TimeoutError, a regex error or any   *)
(*      other ordinary Exception                                           *)
(*                                                                         *)
(* TraceRegex validates recorded calls of the real builtins (CASES_FILE:   *)
(* [calls |-> <<[fn, engine |-> <<[timeoutMs]>>, plen, slen, ms,           *)
(* outcome]>>]); a call is rejected with the name of the disabled action.  *)
(* One TLC state per recorded call.                                        *)
(***************************************************************************)
EXTENDS Integers, Sequences, TLC, Json, IOUtils

MaxTimeoutMs == 50
EnvelopeConstMs == 500          \* "a constant on the order of the 50 ms timeout", with a wide margin against scheduling noise
CharsPerMs == 200               \* "plus time linear in the lengths of pattern and subject": 5 microseconds per character
Envelope(plen, slen) == EnvelopeConstMs + (plen + slen) \div CharsPerMs
RegexFns == {"match", "match_groups", "match_all"}
Outcomes == {"value", "TimeoutError", "error", "Exception"}

Input == JsonDeserialize(IOEnv.CASES_FILE)
Calls == Input.calls

VARIABLES i, phase, verdict
vars == <<i, phase, verdict>>

Init == i \in 1..Len(Calls) /\ phase = "idle" /\ verdict = "run"
C == Calls[i]
\* every entry into the regex engine made by this builtin call carries a small positive timeout
\* (a call answered without entering the engine at all - a literal fast path, an argument check - is constrained by RegexEnd only)
TimeoutOk == \A j \in 1..Len(C.engine) : C.engine[j].timeoutMs > 0 /\ C.engine[j].timeoutMs <= MaxTimeoutMs
RegexBegin == /\ phase = "idle" /\ verdict = "run"
              /\ IF C.fn \in RegexFns /\ TimeoutOk
                 THEN phase' = "running" /\ UNCHANGED verdict
                 ELSE verdict' = "RegexBegin disabled: a call into the regex engine without a timeout in (0, 50 ms]" /\ UNCHANGED phase
              /\ UNCHANGED i
RegexEnd == /\ phase = "running" /\ verdict = "run"
            /\ verdict' = IF C.outcome \notin Outcomes THEN "RegexEnd disabled: the call did not end with a value or an ordinary Exception"
                          ELSE IF C.ms > Envelope(C.plen, C.slen) THEN "RegexEnd disabled: duration outside the envelope"
                          ELSE "accepted"
            /\ phase' = "idle" /\ UNCHANGED i
Next == RegexBegin \/ RegexEnd
Spec == Init /\ [][Next]_vars

Emit == verdict = "run" \/ PrintT(ToJson([id |-> C.id, v |-> verdict]))
=============================================================================
