------------------------------ MODULE MC_LexSM ------------------------------
(* The lexer state machine on all texts of length <= MaxLen over a small alphabet: one action per rule,   *)
(* checked against the pure function Lex (AgreesWithLex) and the line-counter invariants; run with        *)
(* -coverage 1 to see every rule action taken.                                                            *)
EXTENDS SQLexerSM

CONSTANT MaxLen
Alphabet == <<34, 92, 110, 114, 97, 49, 46, 37, 35, 10, 13, 59, 40, 41, 91, 125, 61, 42, 43, 45, 47, 60, 62, 33, 124,
              44, 58, 32, 36, 123, 93>>
MCExtraInfo(c) == [cls |-> "other", s |-> "?", dv |-> -1]

RECURSIVE Strings(_)
Strings(n) == IF n = 0 THEN {<<>>}
              ELSE LET S == Strings(n - 1) IN
                   S \cup {Append(x, Alphabet[a]) : x \in {y \in S : Len(y) = n - 1}, a \in DOMAIN Alphabet}
MCTexts == Strings(MaxLen)
=============================================================================
