------------------------------ MODULE SQLexer ------------------------------
(***************************************************************************)
(* The PLY lexer of smartquery/lexer.py as a pure state machine.           *)
(*                                                                         *)
(* Source text is a sequence of Unicode code points (cps).  The lexer      *)
(* state is the record                                                     *)
(*                                                                         *)
(*   [pos, lineno, paren, toks, status, errpos, errch, nnl, semis]         *)
(*                                                                         *)
(* pos    = lexer.lexpos (0-based), lineno = lexer.lineno,                 *)
(* paren  = lexer.paren_count (may go negative), toks = tokens returned so *)
(* far, status = "run" | "eof" | "illegal".  nnl / semis are history       *)
(* counters (number of \n|\r\n resp. ; matched so far by the NEWLINE rule) *)
(* from which the normative physical line is derived.                      *)
(*                                                                         *)
(* One step (LexStep) = one firing of one rule of PLY's master regular     *)
(* expression, in PLY's order: the ignore set first (lex.py:314), then the *)
(* function rules in definition order, then the string rules sorted by     *)
(* decreasing regex length (stable; lex.py:721-725), then t_error.         *)
(* Python's re alternation is ordered: the FIRST alternative that matches  *)
(* wins, not the longest.                                                  *)
(*                                                                         *)
(* Character classes.  ASCII is defined here exactly.  For every other     *)
(* code point (and for ASCII control characters other than \t \n \r, which *)
(* have no TLA+ string literal) the harness supplies ExtraInfo(cp) =       *)
(*   [cls |-> "word" | "digit" | "other", s |-> 1-char STRING, dv |-> Int] *)
(* computed with Python's re for exactly the characters that occur:        *)
(* "digit" <=> \d, "word" <=> \w but not \d, dv = decimal digit value.     *)
(***************************************************************************)
EXTENDS Naturals, Integers, Sequences, FiniteSets, TLC

CONSTANT ExtraInfo(_)

---------------------------------------------------------------------------
(* Characters *)
cTAB == 9    cNL == 10   cCR == 13   cSP == 32   cBANG == 33  cDQ == 34
cHASH == 35  cPCT == 37  cSQ == 39   cLP == 40   cRP == 41    cSTAR == 42
cPLUS == 43  cCOMMA == 44 cMINUS == 45 cDOT == 46 cSLASH == 47 cCOLON == 58
cSEMI == 59  cLT == 60   cEQ == 61   cGT == 62   cLB == 91    cBSL == 92
cRB == 93    cLC == 123  cBAR == 124 cRC == 125
c_n == 110   c_r == 114  c_t == 116

AsciiTab == << " ", "!", "\"", "#", "$", "%", "&", "'", "(", ")", "*", "+", ",", "-", ".", "/",
   "0", "1", "2", "3", "4", "5", "6", "7", "8", "9", ":", ";", "<", "=", ">", "?", "@",
   "A", "B", "C", "D", "E", "F", "G", "H", "I", "J", "K", "L", "M", "N", "O", "P", "Q", "R", "S", "T",
   "U", "V", "W", "X", "Y", "Z", "[", "\\", "]", "^", "_", "`",
   "a", "b", "c", "d", "e", "f", "g", "h", "i", "j", "k", "l", "m", "n", "o", "p", "q", "r", "s", "t",
   "u", "v", "w", "x", "y", "z", "{", "|", "}", "~" >>

BuiltinChar(c) == (c >= 32 /\ c <= 126) \/ c = cTAB \/ c = cNL \/ c = cCR

CharStr(c) == IF c >= 32 /\ c <= 126 THEN AsciiTab[c - 31]
              ELSE IF c = cTAB THEN "\t"
              ELSE IF c = cNL THEN "\n"
              ELSE IF c = cCR THEN "\r"
              ELSE ExtraInfo(c).s

RECURSIVE StrOfFrom(_, _)
StrOfFrom(s, i) == IF i > Len(s) THEN "" ELSE CharStr(s[i]) \o StrOfFrom(s, i + 1)
(* code points -> TLA+ string (identifiers in trees are TLA+ strings) *)
StrOf(s) == StrOfFrom(s, 1)

IsDigit(c) == IF c < 128 THEN c >= 48 /\ c <= 57 ELSE ExtraInfo(c).cls = "digit"
IsWordStart(c) == IF c < 128 THEN (c >= 65 /\ c <= 90) \/ (c >= 97 /\ c <= 122) \/ c = 95
                  ELSE ExtraInfo(c).cls = "word"
IsWord(c) == IsDigit(c) \/ IsWordStart(c)
DigitVal(c) == IF c < 128 THEN c - 48 ELSE ExtraInfo(c).dv

---------------------------------------------------------------------------
(* Keyword table (lexer.py:5-28); reserved-unused words are keywords too *)
Keywords ==
    <<97, 110, 100>> :> "AND" @@ <<111, 114>> :> "OR" @@ <<105, 110>> :> "IN" @@
    <<110, 111, 116>> :> "NOT" @@ <<105, 102>> :> "IF" @@ <<101, 108, 115, 101>> :> "ELSE" @@
    <<84, 114, 117, 101>> :> "TRUE" @@ <<70, 97, 108, 115, 101>> :> "FALSE" @@
    <<78, 111, 110, 101>> :> "NONE" @@ <<100, 101, 108>> :> "DEL" @@
    <<102, 111, 114>> :> "FOR" @@ <<119, 104, 105, 108, 101>> :> "WHILE" @@
    <<98, 114, 101, 97, 107>> :> "BREAK" @@ <<99, 111, 110, 116, 105, 110, 117, 101>> :> "CONTINUE" @@
    <<100, 101, 102>> :> "DEF" @@ <<114, 97, 105, 115, 101>> :> "RAISE" @@
    <<101, 108, 105, 102>> :> "ELIF"

ReservedUnused == {"FOR", "WHILE", "BREAK", "CONTINUE", "DEF", "RAISE", "ELIF"}

(* PLY's master-regex order for the INITIAL state (compared with the real  *)
(* lexer's lexstatere by the harness at run time).                          *)
RuleOrder == << "NEWLINE", "LPAREN", "RPAREN", "LBRACKET", "RBRACKET", "LBRACE", "RBRACE",
                "STRING", "NUMBER", "NAME", "COMMENT",
                "SHORT_OP", "POWER", "DOT", "EQ", "GTE", "LAMBDA", "LTE", "NE", "PIPE", "PLUS", "TIMES",
                "ASSIGN", "COLON", "COMMA", "DIVIDE", "GT", "LT", "MINUS" >>

---------------------------------------------------------------------------
(* Scanners.  All indices below are 1-based indices into cps; an "end" is  *)
(* the index of the first character NOT consumed.                          *)

SubSeqX(s, a, b) == IF a > b THEN <<>> ELSE SubSeq(s, a, b)

RECURSIVE ScanDigits(_, _)
ScanDigits(cps, i) == IF i <= Len(cps) /\ IsDigit(cps[i]) THEN ScanDigits(cps, i + 1) ELSE i

RECURSIVE ScanWord(_, _)
ScanWord(cps, i) == IF i <= Len(cps) /\ IsWord(cps[i]) THEN ScanWord(cps, i + 1) ELSE i

(* '.' of the regexes: anything but \n *)
RECURSIVE ScanLine(_, _)
ScanLine(cps, i) == IF i <= Len(cps) /\ cps[i] # cNL THEN ScanLine(cps, i + 1) ELSE i

(* %.*?% : index of the closing %, searching from i; 0 if a \n or the end comes first *)
RECURSIVE ScanPct(_, _)
ScanPct(cps, i) == IF i > Len(cps) \/ cps[i] = cNL THEN 0
                   ELSE IF cps[i] = cPCT THEN i ELSE ScanPct(cps, i + 1)

(* q([^\\\n]|(\\.))*?q : index of the closing quote, searching from i; 0 = no match. *)
(* Each character can be consumed in exactly one way and the non-greedy star tries   *)
(* the closing quote first, so the scan is deterministic.                            *)
RECURSIVE ScanStr(_, _, _)
ScanStr(cps, i, q) ==
    IF i > Len(cps) THEN 0
    ELSE IF cps[i] = q THEN i
    ELSE IF cps[i] = cNL THEN 0
    ELSE IF cps[i] = cBSL THEN
        (IF i + 1 <= Len(cps) /\ cps[i + 1] # cNL THEN ScanStr(cps, i + 2, q) ELSE 0)
    ELSE ScanStr(cps, i + 1, q)

(* str.replace of a two-character pattern <<a, b>> by <<r>>, left to right, non-overlapping *)
RECURSIVE Repl2(_, _, _, _, _)
Repl2(s, i, a, b, r) ==
    IF i > Len(s) THEN <<>>
    ELSE IF i < Len(s) /\ s[i] = a /\ s[i + 1] = b THEN <<r>> \o Repl2(s, i + 2, a, b, r)
    ELSE <<s[i]>> \o Repl2(s, i + 1, a, b, r)

(* lexer.py:111-118: the sequential .replace chain -- the order matters *)
Unescape(body) ==
    LET s1 == Repl2(body, 1, cBSL, c_n, cNL)
        s2 == Repl2(s1, 1, cBSL, c_t, cTAB)
        s3 == Repl2(s2, 1, cBSL, cSQ, cSQ)
        s4 == Repl2(s3, 1, cBSL, cDQ, cDQ)
    IN s4

---------------------------------------------------------------------------
(* Rule matchers: XEnd(cps, i) = end index of the match of rule X at i,    *)
(* or 0 if the rule's regex does not match there.                          *)

At(cps, i) == IF i <= Len(cps) THEN cps[i] ELSE -1

NewlineEnd(cps, i) ==
    IF At(cps, i) = cCR /\ At(cps, i + 1) = cNL THEN i + 2
    ELSE IF At(cps, i) = cNL \/ At(cps, i) = cSEMI THEN i + 1 ELSE 0

(* returns the index of the closing quote (0 = no match) *)
StringClose(cps, i) ==
    LET c == At(cps, i) IN
    IF c = cDQ \/ c = cSQ THEN ScanStr(cps, i + 1, c)
    ELSE IF c = c_r /\ (At(cps, i + 1) = cDQ \/ At(cps, i + 1) = cSQ) THEN ScanStr(cps, i + 2, At(cps, i + 1))
    ELSE 0
StringEnd(cps, i) == LET e == StringClose(cps, i) IN IF e = 0 THEN 0 ELSE e + 1

NumberEnd(cps, i) ==
    IF i <= Len(cps) /\ IsDigit(cps[i]) THEN
        LET j == ScanDigits(cps, i) IN
        IF At(cps, j) = cDOT /\ j + 1 <= Len(cps) /\ IsDigit(cps[j + 1]) THEN ScanDigits(cps, j + 1) ELSE j
    ELSE 0

NameEnd(cps, i) ==
    LET c == At(cps, i)
        p == IF c = cPCT THEN ScanPct(cps, i + 1) ELSE 0
    IN IF p # 0 THEN p + 1
       ELSE IF i <= Len(cps) /\ IsWordStart(c) THEN ScanWord(cps, i + 1)
       ELSE 0

CommentEnd(cps, i) == IF At(cps, i) = cHASH THEN ScanLine(cps, i + 1) ELSE 0

(* string rules, in master order *)
OpRule(cps, i) ==
    LET c == At(cps, i)  d == At(cps, i + 1) IN
    IF c \in {cPLUS, cMINUS, cSTAR, cSLASH} /\ d = cEQ THEN [type |-> "SHORT_OP", n |-> 2]
    ELSE IF c = cSTAR /\ d = cSTAR THEN [type |-> "POWER", n |-> 2]
    ELSE IF c = cDOT THEN [type |-> "DOT", n |-> 1]
    ELSE IF c = cEQ /\ d = cEQ THEN [type |-> "EQ", n |-> 2]
    ELSE IF c = cGT /\ d = cEQ THEN [type |-> "GTE", n |-> 2]
    ELSE IF c = cEQ /\ d = cGT THEN [type |-> "LAMBDA", n |-> 2]
    ELSE IF c = cLT /\ d = cEQ THEN [type |-> "LTE", n |-> 2]
    ELSE IF c = cBANG /\ d = cEQ THEN [type |-> "NE", n |-> 2]
    ELSE IF c = cBAR THEN [type |-> "PIPE", n |-> 1]
    ELSE IF c = cPLUS THEN [type |-> "PLUS", n |-> 1]
    ELSE IF c = cSTAR THEN [type |-> "TIMES", n |-> 1]
    ELSE IF c = cEQ THEN [type |-> "ASSIGN", n |-> 1]
    ELSE IF c = cCOLON THEN [type |-> "COLON", n |-> 1]
    ELSE IF c = cCOMMA THEN [type |-> "COMMA", n |-> 1]
    ELSE IF c = cSLASH THEN [type |-> "DIVIDE", n |-> 1]
    ELSE IF c = cGT THEN [type |-> "GT", n |-> 1]
    ELSE IF c = cLT THEN [type |-> "LT", n |-> 1]
    ELSE IF c = cMINUS THEN [type |-> "MINUS", n |-> 1]
    ELSE [type |-> "", n |-> 0]

BracketType(c) == CASE c = cLP -> "LPAREN" [] c = cRP -> "RPAREN" [] c = cLB -> "LBRACKET"
                    [] c = cRB -> "RBRACKET" [] c = cLC -> "LBRACE" [] c = cRC -> "RBRACE" [] OTHER -> ""

(***************************************************************************)
(* Which rule fires at state st ("Eof", "Ignore", a rule name of RuleOrder *)
(* -- all string rules are reported under their token type --, "Illegal"). *)
(***************************************************************************)
FiringRule(cps, st) ==
    LET i == st.pos + 1  c == At(cps, i) IN
    IF st.status # "run" THEN "Stopped"
    ELSE IF i > Len(cps) THEN "Eof"
    ELSE IF c = cSP \/ c = cTAB THEN "Ignore"
    ELSE IF NewlineEnd(cps, i) # 0 THEN "NEWLINE"
    ELSE IF BracketType(c) # "" THEN BracketType(c)
    ELSE IF StringEnd(cps, i) # 0 THEN "STRING"
    ELSE IF NumberEnd(cps, i) # 0 THEN "NUMBER"
    ELSE IF NameEnd(cps, i) # 0 THEN "NAME"
    ELSE IF CommentEnd(cps, i) # 0 THEN "COMMENT"
    ELSE IF OpRule(cps, i).n # 0 THEN OpRule(cps, i).type
    ELSE "Illegal"

---------------------------------------------------------------------------
(* Tokens.                                                                 *)
(*  type, text (lexeme), val (STRING: unescaped; else the lexeme),         *)
(*  line    normative PHYSICAL line = 1 + number of \n before the token,   *)
(*  ilineno lexer.lineno when the token was matched (= tok.lineno),        *)
(*  semis   number of ';' NEWLINE tokens before this one,                  *)
(*  endpos / paren : lexer.lexpos / paren_count right after the token      *)
(*          (the lexer residue if the parser stops at this token).         *)
MkTok(st, type, text, val, endpos, paren) ==
    [type |-> type, text |-> text, val |-> val, line |-> 1 + st.nnl, ilineno |-> st.lineno,
     semis |-> st.semis, endpos |-> endpos, paren |-> paren]

LexInit == [pos |-> 0, lineno |-> 1, paren |-> 0, toks |-> <<>>, status |-> "run",
            errpos |-> -1, errch |-> -1, nnl |-> 0, semis |-> 0]

(* --- one operator per rule: the effect of the rule firing at st --- *)

DoEof(cps, st) == [st EXCEPT !.pos = Len(cps) + 1, !.status = "eof"]     \* lex.py:408 lexpos + 1
DoIgnore(cps, st) == [st EXCEPT !.pos = @ + 1]

DoNEWLINE(cps, st) ==
    LET i == st.pos + 1
        e == NewlineEnd(cps, i)
        text == SubSeq(cps, i, e - 1)
        semi == cps[i] = cSEMI
        returned == semi \/ st.paren = 0
        \* lexer.lineno counts every physical line break, also inside brackets, and never ';'
        \* (since repo commit "fix: syntax-error messages report the physical line ..."; before it the counter
        \* advanced exactly when a NEWLINE token was returned)
        st1 == [st EXCEPT !.pos = e - 1,
                          !.nnl = IF semi THEN @ ELSE @ + 1,
                          !.lineno = IF semi THEN @ ELSE @ + 1,
                          !.semis = IF semi THEN @ + 1 ELSE @]
    IN IF returned
       THEN [st1 EXCEPT !.toks = Append(@, MkTok(st, "NEWLINE", text, text, e - 1, st.paren))]
       ELSE st1          \* ignored inside brackets: no token

DoBracket(cps, st) ==
    LET i == st.pos + 1
        ty == BracketType(cps[i])
        d == IF ty \in {"LPAREN", "LBRACKET", "LBRACE"} THEN 1 ELSE -1
    IN [st EXCEPT !.pos = @ + 1, !.paren = @ + d,
                  !.toks = Append(@, MkTok(st, ty, <<cps[i]>>, <<cps[i]>>, st.pos + 1, st.paren + d))]

DoSTRING(cps, st) ==
    LET i == st.pos + 1
        close == StringClose(cps, i)
        text == SubSeq(cps, i, close)
        raw == cps[i] = c_r
        val == IF raw THEN SubSeqX(cps, i + 2, close - 1) ELSE Unescape(SubSeqX(cps, i + 1, close - 1))
    IN [st EXCEPT !.pos = close, !.toks = Append(@, MkTok(st, "STRING", text, val, close, st.paren))]

DoNUMBER(cps, st) ==
    LET i == st.pos + 1
        e == NumberEnd(cps, i)
        text == SubSeq(cps, i, e - 1)
    IN [st EXCEPT !.pos = e - 1, !.toks = Append(@, MkTok(st, "NUMBER", text, text, e - 1, st.paren))]

DoNAME(cps, st) ==
    LET i == st.pos + 1
        e == NameEnd(cps, i)
        text == SubSeq(cps, i, e - 1)
        ty == IF text \in DOMAIN Keywords THEN Keywords[text] ELSE "NAME"
    IN [st EXCEPT !.pos = e - 1, !.toks = Append(@, MkTok(st, ty, text, text, e - 1, st.paren))]

DoCOMMENT(cps, st) == [st EXCEPT !.pos = CommentEnd(cps, st.pos + 1) - 1]    \* returns None: no token

DoOp(cps, st) ==
    LET i == st.pos + 1
        r == OpRule(cps, i)
        text == SubSeq(cps, i, i + r.n - 1)
    IN [st EXCEPT !.pos = @ + r.n, !.toks = Append(@, MkTok(st, r.type, text, text, st.pos + r.n, st.paren))]

DoIllegal(cps, st) ==        \* t_error raises ParserError('Illegal character c'); lexpos stays at c
    [st EXCEPT !.status = "illegal", !.errpos = st.pos, !.errch = cps[st.pos + 1]]

Brackets == {"LPAREN", "RPAREN", "LBRACKET", "RBRACKET", "LBRACE", "RBRACE"}

(* one firing of one rule *)
LexStep(cps, st) ==
    LET r == FiringRule(cps, st) IN
    CASE r = "Stopped" -> st
      [] r = "Eof" -> DoEof(cps, st)
      [] r = "Ignore" -> DoIgnore(cps, st)
      [] r = "NEWLINE" -> DoNEWLINE(cps, st)
      [] r \in Brackets -> DoBracket(cps, st)
      [] r = "STRING" -> DoSTRING(cps, st)
      [] r = "NUMBER" -> DoNUMBER(cps, st)
      [] r = "NAME" -> DoNAME(cps, st)
      [] r = "COMMENT" -> DoCOMMENT(cps, st)
      [] r = "Illegal" -> DoIllegal(cps, st)
      [] OTHER -> DoOp(cps, st)

(* one call of lexer.token(): run rules until a token is returned, the end is reached or t_error raises *)
RECURSIVE LexToken(_, _)
LexToken(cps, st) ==
    IF st.status # "run" THEN st
    ELSE LET st1 == LexStep(cps, st) IN
         IF st1.status # "run" \/ Len(st1.toks) > Len(st.toks) THEN st1 ELSE LexToken(cps, st1)

RECURSIVE LexRun(_, _)
LexRun(cps, st) == IF st.status # "run" THEN st ELSE LexRun(cps, LexStep(cps, st))

(***************************************************************************)
(* Lex(cps): the whole token stream and the residual lexer state.          *)
(*   toks, err ("none" | "illegal"), errpos (0-based lexpos of the illegal *)
(*   character), errch, pos / lineno / paren (residue after the run).      *)
(***************************************************************************)
Lex(cps) ==
    LET st == LexRun(cps, LexInit) IN
    [toks |-> st.toks, err |-> IF st.status = "illegal" THEN "illegal" ELSE "none",
     errpos |-> st.errpos, errch |-> st.errch, pos |-> st.pos, lineno |-> st.lineno, paren |-> st.paren]

(* Property C18: list_names yields the NAME values in source order and raises at the first illegal character, *)
(* after having yielded the names before it.                                                                  *)
NamesOf(toks) == LET F[i \in 0..Len(toks)] ==
                        IF i = 0 THEN <<>>
                        ELSE IF toks[i].type = "NAME" THEN Append(F[i - 1], toks[i].val) ELSE F[i - 1]
                 IN F[Len(toks)]

ListNames(cps) == LET lx == Lex(cps) IN [names |-> NamesOf(lx.toks), err |-> lx.err, errch |-> lx.errch]

(* lexer.lineno right after token tk has been returned *)
LinenoAfter(tk) == tk.ilineno + (IF tk.type = "NEWLINE" /\ tk.text # <<59>> THEN 1 ELSE 0)

=============================================================================
