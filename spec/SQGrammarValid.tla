-------------------------- MODULE SQGrammarValid --------------------------
(***************************************************************************)
(* The DECLARATIVE reading of property C06, independent of the parser      *)
(* ParseD of SQGrammar:                                                    *)
(*                                                                         *)
(*   AllDerivs(toks)  every derivation tree of the (ambiguous) context-    *)
(*                    free grammar Productions for the token string, by a  *)
(*                    bottom-up tabulation over spans (generic: driven by  *)
(*                    the constant Productions only);                      *)
(*   ValidDeriv(d)    the disambiguation filter the operator table         *)
(*                    dictates, stated on derivation trees and derived     *)
(*                    from Productions + Precedence only;                  *)
(*   Act(toks, d)     the tree-building actions of rules.py, one clause    *)
(*                    per production, transcribed a second time;           *)
(*   ValidTrees(toks) == {Act(d) : d in AllDerivs(toks), ValidDeriv(d)}.   *)
(*                                                                         *)
(* MC_ParseValid checks, for all token strings up to a length bound:       *)
(*   Sound     ParseD(toks, {}) accepts  =>  its tree is in ValidTrees     *)
(*   Complete  ValidTrees # {}  =>  ParseD(toks, {}) accepts               *)
(*   Unique    ValidTrees has at most one element                          *)
(* i.e. the normative parser accepts exactly the grammar filtered by the   *)
(* table and the filter leaves no ambiguity.                               *)
(*                                                                         *)
(* The filter.  A production of `expression` that ends in `expression` is  *)
(* RIGHT-OPEN with context (r, a) = precedence of the rule (%prec, else    *)
(* the rightmost terminal; none = ("right", 0)).  A production of          *)
(* `expression` that starts with `expression t ...` is LEFT-OPEN with left *)
(* binding power s = level of t (for `not in`: the level of its rule, i.e. *)
(* of IN -- the normative reading).  With                                  *)
(*     Shifts(s, r, a)  == s > r \/ (s = r /\ a = "right")                 *)
(*     Blocked(s, r, a) == s = r /\ a = "nonassoc"                         *)
(* a derivation is valid iff                                               *)
(*  (a) for every right-open node with context (r, a): every left-open     *)
(*      node X on the LEFT spine of its last operand has Shifts(s_X, r, a) *)
(*      (the operand really was allowed to extend that far);               *)
(*  (b) for every occurrence `expression t` in any production where t can  *)
(*      continue an expression, with s the binding power of t: every       *)
(*      right-open node X on the RIGHT spine of that operand has neither   *)
(*      Shifts(s, r_X, a_X) nor Blocked(s, r_X, a_X) (X really had to end  *)
(*      before t; covers  DEL e [..]  and  e [..] = ..  as well);          *)
(*  (c) `slice : expression` is never used (a[e] is an index, not a slice).*)
(***************************************************************************)
EXTENDS SQGrammar

NTOrder == <<"expression", "dict_item", "slice", "arglist", "arglist_def", "statement", "line", "code">>
ASSUME Range(NTOrder) = NonTerminals

ProdsOf(X) == {q \in DOMAIN Productions : Productions[q][1] = X}

Look(T, sym, i, m) == IF <<sym, i, m>> \in DOMAIN T THEN T[<<sym, i, m>>] ELSE {}

(* all child sequences deriving rhs[q..] from tokens i .. j-1 *)
RECURSIVE Seqs(_, _, _, _, _, _)
Seqs(toks, T, rhs, q, i, j) ==
    IF q > Len(rhs) THEN (IF i = j THEN {<<>>} ELSE {})
    ELSE LET sym == rhs[q] IN
         IF sym \in NonTerminals THEN
             UNION { {<<d>> \o rest : d \in Look(T, sym, i, m), rest \in Seqs(toks, T, rhs, q + 1, m, j)} : m \in i..j }
         ELSE IF i < j /\ toks[i].type = sym THEN
             { <<[tok |-> i]>> \o rest : rest \in Seqs(toks, T, rhs, q + 1, i + 1, j) }
         ELSE {}

(* the table, filled by increasing span length and, within a length, in NTOrder (unit productions) *)
RECURSIVE FillPos(_, _, _, _, _), FillNT(_, _, _, _), FillLen(_, _, _)
FillPos(toks, k, r, i, T) ==
    IF i + k > Len(toks) + 1 THEN T
    ELSE LET X == NTOrder[r]
             val == UNION { {[p |-> p, ch |-> c] : c \in Seqs(toks, T, RhsClean(p), 1, i, i + k)} : p \in ProdsOf(X) }
         IN FillPos(toks, k, r, i + 1, T @@ (<<X, i, i + k>> :> val))
FillNT(toks, k, r, T) == IF r > Len(NTOrder) THEN T ELSE FillNT(toks, k, r + 1, FillPos(toks, k, r, 1, T))
FillLen(toks, k, T) == IF k > Len(toks) THEN T ELSE FillLen(toks, k + 1, FillNT(toks, k, 1, T))

AllDerivs(toks) == FillLen(toks, 0, <<>>)[<<"code", 1, Len(toks) + 1>>]

---------------------------------------------------------------------------
(* The filter *)

IsLeaf(d) == "tok" \in DOMAIN d
Lhs(d) == Productions[d.p][1]
Rhs(d) == RhsClean(d.p)

ContTokens == {Productions[q][2][2] : q \in {x \in ProdsOf("expression") :
                   Len(Productions[x][2]) >= 2 /\ Productions[x][2][1] = "expression"}}

LeftOpen(d) == ~IsLeaf(d) /\ Lhs(d) = "expression" /\ Len(Rhs(d)) >= 2 /\ Rhs(d)[1] = "expression"
RightOpen(d) == ~IsLeaf(d) /\ Lhs(d) = "expression" /\ Len(Rhs(d)) >= 2 /\ Rhs(d)[Len(Rhs(d))] = "expression"

(* binding power of the continuation token t in production p (normative: `not in` has the level of its rule) *)
ContLevel(t) == IF t = "NOT" THEN LevelTab["IN"] ELSE LevelTab[t]
Lbp(d) == ContLevel(Rhs(d)[2])

(* precedence of a rule: %prec, else its rightmost terminal *)
RulePrecSym(p) ==
    LET full == Productions[p][2]
        r == RhsClean(p)
        ts == {q \in DOMAIN r : r[q] \notin NonTerminals} IN
    IF Len(full) >= 2 /\ full[Len(full) - 1] = "%prec" THEN full[Len(full)]
    ELSE IF ts = {} THEN "" ELSE r[CHOOSE q \in ts : \A x \in ts : x <= q]
RuleLevel(p) == LET s == RulePrecSym(p) IN IF s \in DOMAIN LevelTab THEN LevelTab[s] ELSE 0
RuleAssoc(p) == AssocOf(RuleLevel(p))

RECURSIVE LeftSpineOK(_, _, _)
LeftSpineOK(d, r, a) == LeftOpen(d) => (Shifts(Lbp(d), r, a) /\ LeftSpineOK(d.ch[1], r, a))

RECURSIVE RightSpineOK(_, _)
RightSpineOK(d, s) ==
    RightOpen(d) => /\ ~Shifts(s, RuleLevel(d.p), RuleAssoc(d.p))
                    /\ ~Blocked(s, RuleLevel(d.p), RuleAssoc(d.p))
                    /\ RightSpineOK(d.ch[Len(d.ch)], s)

RECURSIVE ValidDeriv(_)
ValidDeriv(d) ==
    IsLeaf(d) \/
    LET rhs == Rhs(d) IN
    /\ \A q \in DOMAIN d.ch : ValidDeriv(d.ch[q])
    /\ RightOpen(d) => LeftSpineOK(d.ch[Len(d.ch)], RuleLevel(d.p), RuleAssoc(d.p))              \* (a)
    /\ \A q \in 1..(Len(rhs) - 1) :                                                             \* (b)
          (rhs[q] = "expression" /\ rhs[q + 1] \in ContTokens) => RightSpineOK(d.ch[q], ContLevel(rhs[q + 1]))
    /\ ~(Lhs(d) = "slice" /\ rhs = <<"expression">>)                                            \* (c)

---------------------------------------------------------------------------
(* The actions of rules.py, per production *)

Colon == [k |-> "colon"]
NoLine == [k |-> "none"]

RECURSIVE SliceArgs(_, _, _)
SliceArgs(key, q, was) ==            \* rules.py:189-201
    IF q > Len(key) THEN <<>>
    ELSE IF key[q] = Colon THEN (IF ~was THEN <<VNone>> \o SliceArgs(key, q + 1, FALSE) ELSE SliceArgs(key, q + 1, FALSE))
    ELSE <<key[q]>> \o SliceArgs(key, q + 1, TRUE)
Pad3(s) == IF Len(s) = 1 THEN <<s[1], VNone, VNone>> ELSE IF Len(s) = 2 THEN <<s[1], s[2], VNone>> ELSE s

RECURSIVE Act(_, _)
Act(toks, d) ==
    LET lhs == Lhs(d)
        rhs == Rhs(d)
        n == Len(rhs)
        C(q) == Act(toks, d.ch[q])
        TV(q) == toks[d.ch[q].tok]
        TN(q) == StrOf(toks[d.ch[q].tok].val)
    IN
    CASE lhs = "code" /\ n = 1 -> (IF C(1) = NoLine THEN <<>> ELSE <<C(1)>>)
      [] lhs = "code" /\ n = 3 -> (IF C(3) = NoLine THEN C(1) ELSE Append(C(1), C(3)))
      [] lhs = "line" -> C(1)
      [] lhs = "statement" /\ n = 0 -> NoLine
      [] lhs = "statement" /\ rhs = <<"expression">> -> C(1)
      [] lhs = "statement" /\ rhs = <<"COMMENT">> -> NoOpNode
      [] lhs = "statement" /\ rhs = <<"NAME", "ASSIGN", "expression">> ->
            [k |-> "assign", name |-> TN(1), ch |-> <<C(3)>>]
      [] lhs = "statement" /\ rhs = <<"NAME", "SHORT_OP", "expression">> ->
            [k |-> "short", name |-> TN(1), op |-> TN(2), ch |-> <<C(3)>>]
      [] lhs = "statement" /\ rhs[1] = "DEL" -> Call("__delitem__", <<C(2), C(4)>>)
      [] lhs = "statement" /\ n = 6 /\ rhs[5] = "ASSIGN" -> Call("__setitem__", <<C(1), C(3), C(6)>>)
      [] lhs = "statement" /\ n = 6 /\ rhs[5] = "SHORT_OP" ->
            Call("__setitem_with_op__", <<C(1), C(3), VStr(TV(5).val), C(6)>>)
      [] lhs = "arglist" /\ n = 1 -> <<C(1)>>
      [] lhs = "arglist" /\ n = 3 -> Append(C(1), C(3))
      [] lhs = "arglist_def" /\ n = 1 -> <<NameNode(TN(1))>>
      [] lhs = "arglist_def" /\ n = 3 -> Append(C(1), NameNode(TN(3)))
      [] lhs = "dict_item" /\ rhs[1] = "dict_item" -> C(1) \o C(3)
      [] lhs = "dict_item" -> <<C(1), C(3)>>
      [] lhs = "slice" -> [q \in 1..n |-> IF rhs[q] = "COLON" THEN Colon ELSE C(q)]
      [] lhs = "expression" /\ n = 1 /\ rhs[1] \in ReservedUnused -> [k |-> "reserved", name |-> TN(1)]
      [] lhs = "expression" /\ rhs = <<"NUMBER">> -> Val(NumVal(TV(1).val))
      [] lhs = "expression" /\ rhs = <<"STRING">> -> VStr(TV(1).val)
      [] lhs = "expression" /\ rhs = <<"TRUE">> -> VBool(TRUE)
      [] lhs = "expression" /\ rhs = <<"FALSE">> -> VBool(FALSE)
      [] lhs = "expression" /\ rhs = <<"NONE">> -> VNone
      [] lhs = "expression" /\ rhs = <<"NAME">> -> NameNode(TN(1))
      [] lhs = "expression" /\ rhs = <<"NAME", "LPAREN", "RPAREN">> -> Call(TN(1), <<>>)
      [] lhs = "expression" /\ n >= 4 /\ SubSeq(rhs, 1, 3) = <<"NAME", "LPAREN", "arglist">> -> Call(TN(1), C(3))
      [] lhs = "expression" /\ n >= 6 /\ rhs[1] = "expression" /\ rhs[2] \in {"DOT", "PIPE"} /\ rhs[5] = "arglist" ->
            Call(TN(3), <<C(1)>> \o C(5))            \* normative: a trailing comma drops nothing
      [] lhs = "expression" /\ n \in {3, 5} /\ rhs[1] = "expression" /\ rhs[2] \in {"DOT", "PIPE"} ->
            Call(TN(3), <<C(1)>>)
      [] lhs = "expression" /\ rhs = <<"NAME", "LAMBDA", "expression">> -> Lambda(<<TN(1)>>, C(3))
      [] lhs = "expression" /\ n = 5 /\ rhs[2] = "arglist_def" ->
            Lambda([q \in DOMAIN C(2) |-> ParamName(C(2)[q])], C(5))
      [] lhs = "expression" /\ rhs = <<"expression", "NOT", "IN", "expression">> -> Bin("not in", C(1), C(4))
      [] lhs = "expression" /\ n = 3 /\ rhs[1] = "expression" /\ rhs[3] = "expression" -> Bin(TN(2), C(1), C(3))
      [] lhs = "expression" /\ rhs = <<"LBRACKET", "RBRACKET">> -> Call("list", <<>>)
      [] lhs = "expression" /\ rhs[1] = "LBRACKET" -> Call("list", C(2))
      [] lhs = "expression" /\ rhs = <<"LBRACE", "RBRACE">> -> Call("dict", <<>>)
      [] lhs = "expression" /\ rhs[1] = "LBRACE" -> DictNode(C(2))
      [] lhs = "expression" /\ n = 4 /\ rhs[3] = "slice" ->
            LET a == Pad3(SliceArgs(C(3), 1, FALSE)) IN GetItem(C(1), SliceNode(a[1], a[2], a[3]))
      [] lhs = "expression" /\ n = 4 /\ rhs[2] = "LBRACKET" -> GetItem(C(1), C(3))
      [] lhs = "expression" /\ n = 5 /\ rhs[2] = "IF" -> IfNode(C(3), C(1), C(5))
      [] lhs = "expression" /\ rhs = <<"MINUS", "expression">> -> Un("-", C(2))
      [] lhs = "expression" /\ rhs = <<"NOT", "expression">> -> Un("not", C(2))
      [] lhs = "expression" /\ rhs = <<"LPAREN", "expression", "RPAREN">> -> C(2)

ValidTrees(toks) == {CodeNode(Act(toks, d)) : d \in {x \in AllDerivs(toks) : ValidDeriv(x)}}
AllTrees(toks) == {CodeNode(Act(toks, d)) : d \in AllDerivs(toks)}

Sound(toks) == LET r == ParseD(toks, {}) IN r.ok => r.tree \in ValidTrees(toks)
Complete(toks) == ValidTrees(toks) # {} => ParseD(toks, {}).ok
Unique(toks) == Cardinality(ValidTrees(toks)) <= 1
(* the grammar alone: what the parser accepts is derivable, whatever the table says *)
Derivable(toks) == LET r == ParseD(toks, {}) IN r.ok => r.tree \in AllTrees(toks)
=============================================================================
