-------------------------------- MODULE SQVM --------------------------------
(***************************************************************************)
(* The smartquery evaluator as a small-step abstract machine.              *)
(*                                                                         *)
(* A machine state is one record m; Step(m, calls, host, orc) is the   *)
(* transition function (deterministic once the host behaviour and the      *)
(* oracle values of the relational builtins are fixed).  Modules that own  *)
(* VARIABLES (MC and Trace modules) wrap it into named actions by StepKind(m).   *)
(*                                                                         *)
(*  m.ctl    control: [t |-> "start"]                begin next eval call  *)
(*                    [t |-> "eval", node, vm]       about to charge node  *)
(*                    [t |-> "disp", node, vm]       charged, dispatch     *)
(*                    [t |-> "call", f, args]        apply a callable      *)
(*                    [t |-> "ret", v]               value returns         *)
(*                    [t |-> "exc", e]               exception propagates  *)
(*                    [t |-> "halt"]                 all calls done        *)
(*                    [t |-> "unspec", why]          left the domain       *)
(*  m.k      continuation: stack of frames, top = last                     *)
(*  m.vms    VM records [ops, max, scopes]: one per eval call; closures    *)
(*           keep referring to the record of the call that created them    *)
(*  m.heap   lists and dicts (SQValues)                                    *)
(*  m.clos   closure table [node, vm]                                      *)
(*  m.names  host names mappings: nid -> (name -> value)                   *)
(*  m.log    host-visible effects in order (probe calls)                   *)
(*  m.looked names requested from a host mapping during the current call   *)
(*  m.ci     index of the eval call in progress; m.cvm its VM record       *)
(*  m.nev    node evaluations started during the current call              *)
(*  m.results outcome of each finished call                                *)
(*  m.ev     events emitted by the last step (compared with the tracer)    *)
(***************************************************************************)
EXTENDS SQBuiltins, TLC

Top(s) == s[Len(s)]
Pop(s) == SubSeq(s, 1, Len(s) - 1)
Push(s, x) == Append(s, x)

Unlimited == -1

\* bound: the larger of the 10000-element cap and the longest list, dict or string the host supplied or
\* the source spells out (property C03); no program may make a list or dict longer than that
InitMachine(heap0, names0, clos0, bound) ==
    [ctl |-> [t |-> "start"], k |-> <<>>, vms |-> <<>>, heap |-> heap0, clos |-> clos0, names |-> names0, bound |-> bound,
     log |-> <<>>, looked |-> {}, ci |-> 0, cvm |-> 0, nev |-> 0, results |-> <<>>, ev |-> <<>>]

Running(m) == m.ctl.t \notin {"halt", "unspec"}

(***************************************************************************)
(* Events (what the external tracer observes)                              *)
(***************************************************************************)
EvCharge(node, vm, ops, raised) == [e |-> "c", id |-> node.id, vm |-> vm, ops |-> ops, r |-> raised]
EvExit(node, v)                 == [e |-> "x", id |-> node.id, v |-> v]
EvExc(node, e)                  == [e |-> "e", id |-> node.id, cls |-> e.exc, name |-> e.name]
EvProbe(name, args)             == [e |-> "p", name |-> name, args |-> args]

(***************************************************************************)
(* Scopes.  scopes[vm] is a sequence whose first element is the host       *)
(* mapping [s |-> "host", nid] followed by lambda scopes                   *)
(* [s |-> "local", b |-> (name -> value)].  Below them sits the per-call   *)
(* copy of FUNCTIONS, which no program can write (writes go to the top     *)
(* scope and the stack never has fewer than two scopes).                   *)
(***************************************************************************)
ScopeHas(m, sc, name) == IF sc.s = "host" THEN name \in DOMAIN m.names[sc.nid] ELSE name \in DOMAIN sc.b
ScopeGet(m, sc, name) == IF sc.s = "host" THEN m.names[sc.nid][name] ELSE sc.b[name]

Undef == [t |-> "undef"]
RECURSIVE LookupFrom(_, _, _, _)
\* innermost first; result value or Undef
LookupFrom(m, scopes, name, i) ==
    IF i = 0 THEN (IF name \in BuiltinNames THEN Builtin(name) ELSE Undef)
    ELSE IF ScopeHas(m, scopes[i], name) THEN ScopeGet(m, scopes[i], name)
    ELSE LookupFrom(m, scopes, name, i - 1)
Lookup(m, vm, name) == LookupFrom(m, m.vms[vm].scopes, name, Len(m.vms[vm].scopes))

\* does the lookup consult the host mapping? (all lambda scopes above it miss)
ReachesHost(m, vm, name) ==
    LET sc == m.vms[vm].scopes IN \A i \in 2..Len(sc) : ~ScopeHas(m, sc[i], name)
NoteLookup(m, vm, name) == IF ReachesHost(m, vm, name) THEN [m EXCEPT !.looked = @ \cup {name}] ELSE m

FnPut(f, name, v) == [x \in DOMAIN f \cup {name} |-> IF x = name THEN v ELSE f[x]]

\* write to the top scope of vm
Store(m, vm, name, v) ==
    LET sc == m.vms[vm].scopes  n == Len(sc) IN
    IF sc[n].s = "host" THEN [m EXCEPT !.names[sc[n].nid] = FnPut(@, name, v)]
    ELSE [m EXCEPT !.vms[vm].scopes[n].b = FnPut(@, name, v)]

(***************************************************************************)
(* Frames                                                                  *)
(*  [f |-> "node", node, vm, pc, acc]   node waiting for child pc          *)
(*  [f |-> "lam", vm]                   lambda activation (scope to pop)   *)
(*  [f |-> "ho", fn, ...]               higher-order builtin in progress   *)
(*  [f |-> "host", name, mode]          host callback in progress          *)
(*  [f |-> "ast", name, rest]           ast_names binding in progress      *)
(***************************************************************************)
NodeFrame(node, vm) == [f |-> "node", node |-> node, vm |-> vm, pc |-> 1, acc |-> <<>>]

EvalChild(m, fr, i) == [m EXCEPT !.ctl = [t |-> "eval", node |-> fr.node.ch[i], vm |-> fr.vm]]

Ret(m, v)     == [m EXCEPT !.ctl = [t |-> "ret", v |-> v]]
Raise(m, e)   == [m EXCEPT !.ctl = [t |-> "exc", e |-> e]]
LeftDomain(m, why) == [m EXCEPT !.ctl = [t |-> "unspec", why |-> why]]

(***************************************************************************)
(* The size cap (property C03).  Normatively EVERY step that creates or    *)
(* grows a list or dict beyond m.bound fails with a ParserError and leaves *)
(* the heap unchanged.  The shipped code checks only push / insert / index *)
(* assignment / compound index assignment (and only against the constant   *)
(* cap); the unchecked growth paths are the deviations ConcatUnchecked     *)
(* (list + list), ShortAddUnchecked (x += v, c[k] += v), ShortMulRepeats   *)
(* (x *= k, c[k] *= k) and StrToListUnchecked (builtins that turn a string *)
(* grown by the program into a list).                                      *)
(***************************************************************************)
Oversize(m, h2) == \E a \in 1..Len(h2) : /\ Len(h2[a].items) > m.bound
                                         /\ (a > Len(m.heap) \/ Len(h2[a].items) > Len(m.heap[a].items))
NodeExempt(node) ==
    \/ node.k = "bin" /\ node.op = "+" /\ Dev("ConcatUnchecked")
    \/ node.k = "short" /\ node.op = "+=" /\ Dev("ShortAddUnchecked")
    \/ node.k = "short" /\ node.op = "*=" /\ Dev("ShortMulRepeats")
BuiltinExempt(name, args) ==
    \/ name = "__setitem_with_op__" /\ Len(args) = 4 /\ args[3].t = "str"
       /\ ((args[3].s = <<43, 61>> /\ Dev("ShortAddUnchecked")) \/ (args[3].s = <<42, 61>> /\ Dev("ShortMulRepeats")))
    \/ name \notin {"__setitem_with_op__"} /\ Dev("StrToListUnchecked")

\* turn a result record of SQBuiltins into control
Deliver(m, res, name, args) ==
    IF IsVal(res.r) /\ Oversize(m, res.h) /\ ~BuiltinExempt(name, args) THEN Raise(m, ParserErr)
    ELSE IF IsVal(res.r) THEN Ret([m EXCEPT !.heap = res.h], res.r)
    ELSE IF IsExc(res.r) THEN Raise([m EXCEPT !.heap = res.h], res.r)
    ELSE IF IsUnspec(res.r) THEN LeftDomain(m, res.r.unspec)
    ELSE LeftDomain(m, "unexpected result")

(***************************************************************************)
(* Step: start of an eval call (sq_parser.py:62-83)                        *)
(***************************************************************************)
\* calls[i] = [tree, nid, max, ast |-> <<[name, tree]>>]
StartCall(m, calls) ==
    IF m.ci >= Len(calls) THEN [m EXCEPT !.ctl = [t |-> "halt"], !.ev = <<>>]
    ELSE LET c == calls[m.ci + 1]
             vm == Len(m.vms) + 1
             m1 == [m EXCEPT !.vms = Append(@, [ops |-> 0, max |-> c.max, scopes |-> <<[s |-> "host", nid |-> c.nid]>>]),
                             !.ci = @ + 1, !.cvm = vm, !.nev = 0, !.looked = {}, !.ev = <<>>, !.k = <<>>]
         IN IF c.tree.k = "parsefail" THEN  \* parse() raised: no VM record is created, nothing is evaluated
                [m EXCEPT !.ci = @ + 1, !.k = <<>>, !.looked = {}, !.nev = 0,
                          !.results = Append(@, [outcome |-> [t |-> "exc", e |-> [exc |-> "any", name |-> "?"]], ops |-> 0, nev |-> 0, looked |-> {}]),
                          !.ev = <<[e |-> "end", out |-> [t |-> "exc", e |-> [exc |-> "any", name |-> "?"]], ops |-> 0, nev |-> 0, looked |-> {}]>>]
            ELSE IF Len(c.ast) > 0 THEN
                [m1 EXCEPT !.k = <<[f |-> "ast", name |-> c.ast[1].name, rest |-> Tail(c.ast), main |-> c.tree, vm |-> vm]>>,
                           !.ctl = [t |-> "eval", node |-> c.ast[1].tree, vm |-> vm]]
            ELSE [m1 EXCEPT !.ctl = [t |-> "eval", node |-> c.tree, vm |-> vm]]

(***************************************************************************)
(* Step: Charge (ast_ops.py:19-22).  The only place ops changes.           *)
(***************************************************************************)
\* Normative: every node evaluation is charged to the VM record of the eval call in progress
\* (property C01: "one eval call starts at most N operations ... including every evaluation of a
\* lambda body").  Shipped code (deviation ClosureChargesCreator): a lambda body is evaluated with
\* the VMState captured by the closure, i.e. charged to the record of the call that created it.
ChargedVm(m) == IF Dev("ClosureChargesCreator") THEN m.ctl.vm ELSE m.cvm
Charge(m) ==
    LET node == m.ctl.node  vm == ChargedVm(m)
        ops1 == m.vms[vm].ops + 1
        max == m.vms[vm].max
        raised == max # Unlimited /\ ops1 >= max
        m1 == [m EXCEPT !.vms[vm].ops = ops1, !.nev = @ + 1]
    IN IF raised
       THEN [m1 EXCEPT !.ctl = [t |-> "exc", e |-> OpsLimitErr],
                       !.ev = <<EvCharge(node, vm, ops1, TRUE), EvExc(node, OpsLimitErr)>>]
       ELSE [m1 EXCEPT !.ctl = [t |-> "disp", node |-> node, vm |-> m.ctl.vm],
                       !.ev = <<EvCharge(node, vm, ops1, FALSE)>>]

(***************************************************************************)
(* Step: Dispatch on the node kind                                         *)
(***************************************************************************)
LeafRet(m, node, v) == [Ret(m, v) EXCEPT !.ev = <<EvExit(node, v)>>]
LeafExc(m, node, e) == [Raise(m, e) EXCEPT !.ev = <<EvExc(node, e)>>]

Dispatch(m) ==
    LET node == m.ctl.node  vm == m.ctl.vm  m0 == [m EXCEPT !.ev = <<>>]
        fr == NodeFrame(node, vm)
        pushEval == EvalChild([m0 EXCEPT !.k = Push(@, fr)], fr, 1)
    IN CASE node.k = "val" -> LeafRet(m0, node, node.v)
         [] node.k = "noop" -> LeafRet(m0, node, None)
         [] node.k = "name" ->
              LET v == Lookup(m0, vm, node.name)  m1 == NoteLookup(m0, vm, node.name) IN
              IF v = Undef THEN LeafExc(m1, node, ParserErr) ELSE LeafRet(m1, node, v)
         [] node.k = "lambda" ->
              LET lid == Len(m0.clos) + 1
                  m1 == [m0 EXCEPT !.clos = Append(@, [node |-> node, vm |-> vm])] IN
              LeafRet(m1, node, [t |-> "lambda", lid |-> lid])
         [] node.k = "code" -> IF Len(node.ch) = 0 THEN LeafRet(m0, node, None) ELSE pushEval
         [] node.k = "call" ->
              IF Len(node.ch) = 0 THEN [m0 EXCEPT !.k = Push(@, [fr EXCEPT !.pc = 0]), !.ctl = [t |-> "resolve"]]
              ELSE pushEval
         [] node.k = "dict" ->
              IF Len(node.ch) = 0
              THEN (LET al == Alloc(m0.heap, NewDict(<<>>)) IN LeafRet([m0 EXCEPT !.heap = al.h], node, DictRef(al.a)))
              ELSE pushEval
         [] OTHER -> pushEval     \* bin un assign short if slice

(***************************************************************************)
(* Step: a value returns to the frame on top                               *)
(***************************************************************************)
PopRet(m, node, v) == [m EXCEPT !.k = Pop(@), !.ctl = [t |-> "ret", v |-> v], !.ev = <<EvExit(node, v)>>]
PopExc(m, node, e) == [m EXCEPT !.k = Pop(@), !.ctl = [t |-> "exc", e |-> e], !.ev = <<EvExc(node, e)>>]
PopRes(m, node, res) ==
    IF IsVal(res.r) /\ Oversize(m, res.h) /\ ~NodeExempt(node) THEN PopExc(m, node, ParserErr)
    ELSE IF IsVal(res.r) THEN PopRet([m EXCEPT !.heap = res.h], node, res.r)
    ELSE IF IsExc(res.r) THEN PopExc([m EXCEPT !.heap = res.h], node, res.r)
    ELSE IF IsUnspec(res.r) THEN LeftDomain(m, res.r.unspec)
    ELSE LeftDomain(m, "oracle needed: " \o res.r.oracle)

SetTop(m, fr) == [m EXCEPT !.k[Len(m.k)] = fr]

ShortOpName(op) == op

\* ShortOp.eval after the right-hand side is evaluated (ast_ops.py:147-162)
ShortApply(m, fr, v) ==
    LET node == fr.node  vm == fr.vm
        cp == DeepCopy(m.heap, v)
        m1 == NoteLookup([m EXCEPT !.heap = cp.h], vm, node.name)
        cur == Lookup(m1, vm, node.name)
    IN IF HasNoCopy(m.heap, v) THEN PopExc(m, node, TypeErr)
       ELSE IF cur = Undef
       THEN PopExc(m1, node, IF Dev("ShortOpKeyError") THEN OtherErr("KeyError") ELSE ParserErr)
       ELSE LET ip == InplaceApply(m1.heap, node.op, cur, cp.v) IN
            IF IsVal(ip.r) /\ Oversize(m1, ip.h) /\ ~NodeExempt(node) THEN PopExc(m1, node, ParserErr)
            ELSE IF IsVal(ip.r) THEN PopRet(Store([m1 EXCEPT !.heap = ip.h], vm, node.name, ip.r), node, None)
            ELSE PopRes(m1, node, ip)

\* SliceOp: safe_cast(x, int) on each bound in order
SliceCast(v) == IF v.t = "none" THEN None ELSE (LET r == PyInt(v) IN IF IsIntRep(r) THEN MkInt(r) ELSE r)
\* DictOp: keys were cast when they returned; acc = <<k1, v1, k2, v2, ...>> with k_i cps
RECURSIVE BuildDict(_, _, _)
BuildDict(acc, i, ps) == IF i > Len(acc) THEN ps ELSE BuildDict(acc, i + 2, DSet(ps, acc[i].key, acc[i + 1].val))

\* a ** b outside the exactly specified cases: adopt the observed result if it is a Decimal of
\* at most Prec digits (or an arithmetic signal)
PowOracle(m, node, orc) ==
    IF orc.t = "noorc" THEN LeftDomain(m, "oracle needed: pow")
    ELSE IF orc.t = "raise" THEN (IF orc.e.exc = "Other" THEN PopExc(m, node, orc.e) ELSE [m EXCEPT !.ctl = [t |-> "badoracle", why |-> "** raised a language-level error"]])
    ELSE IF orc.t = "val" /\ orc.v.t = "dec" /\ ~orc.v.sub /\ Len(orc.v.digs) <= Prec THEN PopRet(m, node, orc.v)
    ELSE IF orc.t = "val" /\ orc.v.t = "opaque" THEN LeftDomain(m, "special Decimal (Infinity / NaN) from **")
    ELSE [m EXCEPT !.ctl = [t |-> "badoracle", why |-> "** result is not a Decimal of at most 28 digits"]]

RetToNode(m, fr, v, orc) ==
    LET node == fr.node  nch == Len(node.ch)  acc1 == Append(fr.acc, v) IN
    CASE node.k = "code" ->
            IF fr.pc < nch THEN EvalChild(SetTop(m, [fr EXCEPT !.pc = @ + 1]), fr, fr.pc + 1)
            ELSE PopRet(m, node, v)
      [] node.k = "bin" ->
            IF node.op \in {"and", "or"}
            THEN (IF fr.pc = 1
                  THEN (IF (node.op = "and") = Truthy(m.heap, v)
                        THEN EvalChild(SetTop(m, [fr EXCEPT !.pc = 2]), fr, 2)
                        ELSE PopRet(m, node, v))
                  ELSE PopRet(m, node, v))
            ELSE IF fr.pc = 1 THEN EvalChild(SetTop(m, [fr EXCEPT !.pc = 2, !.acc = acc1]), fr, 2)
            ELSE LET res == BinApply(m.heap, node.op, fr.acc[1], v) IN
                 IF "oracle" \in DOMAIN res.r THEN PowOracle(m, node, orc) ELSE PopRes(m, node, res)
      [] node.k = "un" -> PopRes(m, node, UnaryApply(m.heap, node.op, v))
      [] node.k = "assign" ->
            LET cp == IF Dev("MutAssignNoCopy") THEN [h |-> m.heap, v |-> v] ELSE DeepCopy(m.heap, v) IN   \* mutant: non-vacuity of C12
            IF HasNoCopy(m.heap, v) /\ ~Dev("MutAssignNoCopy") THEN PopExc(m, node, TypeErr) ELSE
            PopRet(Store([m EXCEPT !.heap = cp.h], fr.vm, node.name, cp.v), node, None)
      [] node.k = "short" -> ShortApply(m, fr, v)
      [] node.k = "if" ->
            IF Dev("MutIfBoth")      \* specification mutant (non-vacuity of C09): the then-branch is always evaluated
            THEN (IF fr.pc = 1 THEN EvalChild(SetTop(m, [fr EXCEPT !.pc = 2, !.acc = <<v>>]), fr, 2)
                  ELSE IF fr.pc = 2 /\ ~Truthy(m.heap, fr.acc[1]) THEN EvalChild(SetTop(m, [fr EXCEPT !.pc = 3]), fr, 3)
                  ELSE PopRet(m, node, v))
            ELSE IF fr.pc = 1
            THEN (LET b == IF Truthy(m.heap, v) THEN 2 ELSE 3 IN EvalChild(SetTop(m, [fr EXCEPT !.pc = b]), fr, b))
            ELSE PopRet(m, node, v)
      [] node.k = "slice" ->
            \* slice(safe_cast(start.eval(), int), safe_cast(stop.eval(), int), ...): each bound is cast
            \* as soon as it is evaluated, before the next bound is evaluated
            LET cv == SliceCast(v) IN
            IF ~IsVal(cv) THEN PopRes(m, node, R(m.heap, cv))
            ELSE IF fr.pc < 3 THEN EvalChild(SetTop(m, [fr EXCEPT !.pc = @ + 1, !.acc = Append(@, cv)]), fr, fr.pc + 1)
            ELSE LET a == Append(fr.acc, cv) IN PopRet(m, node, [t |-> "slice", a |-> a[1], b |-> a[2], c |-> a[3]])
      [] node.k = "dict" ->
            LET isKey == fr.pc % 2 = 1
                kc == IF isKey THEN DictKeyCast(m.heap, v) ELSE <<>>
                item == IF isKey THEN [key |-> kc] ELSE [val |-> v] IN
            IF isKey /\ IsBadStr(kc) THEN LeftDomain(m, "str(key)")
            ELSE IF fr.pc < nch THEN EvalChild(SetTop(m, [fr EXCEPT !.pc = @ + 1, !.acc = Append(@, item)]), fr, fr.pc + 1)
            ELSE LET al == Alloc(m.heap, NewDict(BuildDict(Append(fr.acc, item), 1, <<>>))) IN
                 PopRet([m EXCEPT !.heap = al.h], node, DictRef(al.a))
      [] node.k = "call" ->
            IF fr.pc = 0 THEN PopRet(m, node, v)          \* the callee returned
            ELSE IF fr.pc < nch THEN EvalChild(SetTop(m, [fr EXCEPT !.pc = @ + 1, !.acc = acc1]), fr, fr.pc + 1)
            ELSE [SetTop(m, [fr EXCEPT !.pc = 0, !.acc = acc1]) EXCEPT !.ctl = [t |-> "resolve"]]

\* CallOp: arguments are evaluated, now look the function name up (ast_ops.py:221-226)
Resolve(m) ==
    LET fr == Top(m.k)  node == fr.node
        m1 == NoteLookup([m EXCEPT !.ev = <<>>], fr.vm, node.name)
        f == Lookup(m1, fr.vm, node.name) IN
    IF f = Undef THEN PopExc(m1, node, ParserErr)
    ELSE [m1 EXCEPT !.ctl = [t |-> "call", f |-> f, args |-> fr.acc]]

(***************************************************************************)
(* Higher-order builtins: one callback per step (functions.py:156-184,     *)
(* 295-305).  Frame fields: fn, src (container value), i (next position),  *)
(* n0 (initial length of a dict), acc, fv (callback), cur (element handed  *)
(* to the callback), items/rev (sorted)                                    *)
(***************************************************************************)
HoFrame(fn, src, fv) == [f |-> "ho", fn |-> fn, src |-> src, i |-> 1, acc |-> <<>>, fv |-> fv, n0 |-> 0,
                         rev |-> FALSE, items |-> <<>>, cur |-> None]

CallF(m, f, args) == [m EXCEPT !.ctl = [t |-> "call", f |-> f, args |-> args]]

\* current element sequence of a live container
LiveItems(m, src) == IterItems(m.heap, src)

FinishList(m, xs) == IF Len(xs) > m.bound /\ ~Dev("StrToListUnchecked")
                     THEN [m EXCEPT !.k = Pop(@), !.ctl = [t |-> "exc", e |-> ParserErr]]
                     ELSE LET al == Alloc(m.heap, NewList(xs)) IN
                          [m EXCEPT !.heap = al.h, !.k = Pop(@), !.ctl = [t |-> "ret", v |-> ListRef(al.a)]]
PopRaise(m, e) == [m EXCEPT !.k = Pop(@), !.ctl = [t |-> "exc", e |-> e]]

HoNextReduce(m, fr, its) ==
    IF fr.i > Len(its) THEN [m EXCEPT !.k = Pop(@), !.ctl = [t |-> "ret", v |-> fr.acc[1]]]
    ELSE CallF(SetTop(m, fr), fr.fv, <<fr.acc[1], its[fr.i]>>)

SortedFinish(m, fr) ==
    LET n == Len(fr.items)
        keys == IF fr.fv.t = "none"
                THEN (IF fr.src.t = "dict" THEN [j \in 1..n |-> fr.items[j].items[1]] ELSE fr.items)
                ELSE fr.acc
        pairs == [j \in 1..n |-> <<keys[j], fr.items[j]>>] IN
    IF n >= 2 /\ ~AllComparable(m.heap, pairs)
    THEN (IF n = 2 /\ Lt(m.heap, keys[1], keys[2]) = TY3 /\ Lt(m.heap, keys[2], keys[1]) = TY3
          THEN PopRaise(m, TypeErr)
          ELSE LeftDomain(m, "sorted: incomparable keys"))
    ELSE LET sp == SortPairs(m.heap, pairs, fr.rev, 1, <<>>)
             out == [j \in 1..n |-> sp[j][2]] IN
         IF fr.src.t = "dict"
         THEN (LET al == Alloc(m.heap, NewDict([j \in 1..n |-> <<KeyOfVal(out[j].items[1]), out[j].items[2]>>])) IN
               [m EXCEPT !.heap = al.h, !.k = Pop(@), !.ctl = [t |-> "ret", v |-> DictRef(al.a)]])
         ELSE IF Dev("MutSortedInPlace") /\ fr.src.t = "list"      \* specification mutant (non-vacuity of C13)
         THEN FinishList([m EXCEPT !.heap[fr.src.addr].items = out], out)
         ELSE FinishList(m, out)

\* decide what the HO frame on top does next (called when it is created and after each callback)
HoNext(m) ==
    LET fr == Top(m.k) IN
    CASE fr.fn = "map" ->
            IF fr.src.t = "dict"
            THEN (IF LenOf(m.heap, fr.src) # fr.n0 THEN PopRaise(m, OtherErr("RuntimeError"))
                  ELSE IF fr.i > fr.n0 THEN FinishList(m, fr.acc)
                  ELSE LET p == Items(m.heap, fr.src)[fr.i] IN CallF(m, fr.fv, <<KeyVal(p[1]), p[2]>>))
            ELSE LET its == LiveItems(m, fr.src) IN
                 IF fr.i > Len(its) THEN FinishList(m, fr.acc) ELSE CallF(m, fr.fv, <<its[fr.i]>>)
      [] fr.fn = "filter" ->
            LET its == LiveItems(m, fr.src) IN
            IF fr.fv.t = "none" THEN FinishList(m, SelectSeq(its, LAMBDA x : Truthy(m.heap, x)))      \* filter(None, xs): truthy elements
            ELSE IF fr.i > Len(its) THEN FinishList(m, fr.acc)
            ELSE CallF(SetTop(m, [fr EXCEPT !.cur = its[fr.i]]), fr.fv, <<its[fr.i]>>)
      [] fr.fn = "reduce" ->
            \* functools.reduce: acc holds <<accumulator>> once the first element is taken
            LET its == LiveItems(m, fr.src) IN
            IF fr.src.t = "dict" /\ LenOf(m.heap, fr.src) # fr.n0 THEN PopRaise(m, OtherErr("RuntimeError"))
            ELSE IF Len(fr.acc) = 0
            THEN (IF Len(its) = 0 THEN PopRaise(m, TypeErr)
                  ELSE HoNextReduce(m, [fr EXCEPT !.acc = <<its[1]>>, !.i = 2], its))
            ELSE HoNextReduce(m, fr, its)
      [] fr.fn = "sorted" ->
            \* fr.items: snapshot of the elements; acc: keys computed so far
            IF fr.fv.t # "none" /\ fr.i <= Len(fr.items)
            THEN CallF(m, fr.fv, IF fr.src.t = "dict" THEN <<fr.items[fr.i].items[1], fr.items[fr.i].items[2]>> ELSE <<fr.items[fr.i]>>)
            ELSE SortedFinish(m, fr)

\* a callback returned v to the HO frame on top
RetToHo(m, fr, v) ==
    CASE fr.fn = "map" -> HoNext(SetTop(m, [fr EXCEPT !.i = @ + 1, !.acc = Append(@, v)]))
      [] fr.fn = "filter" ->
            \* filter() yields the element it fetched before the call
            HoNext(SetTop(m, [fr EXCEPT !.i = @ + 1, !.acc = IF Truthy(m.heap, v) THEN Append(@, fr.cur) ELSE @]))
      [] fr.fn = "reduce" -> HoNext(SetTop(m, [fr EXCEPT !.i = @ + 1, !.acc = <<v>>]))
      [] fr.fn = "sorted" -> HoNext(SetTop(m, [fr EXCEPT !.i = @ + 1, !.acc = Append(@, v)]))

MsgOrRaise(m, v) == \* raise ParserError(f'{container} is not ...'): the message formats the value
    IF IsBadStr(ToStr(m.heap, v)) THEN LeftDomain(m, "str() in message") ELSE Raise(m, ParserErr)

\* start a higher-order builtin
StartHo(m, name, args) ==
    LET n == Len(args)
        a1 == Arg(args, 1, None)  a2 == Arg(args, 2, None)  a3 == Arg(args, 3, Bool(FALSE)) IN
    IF \E i \in 1..n : args[i].t = "opaque" THEN LeftDomain(m, "opaque argument")
    ELSE IF n >= 1 /\ TooLong(m.heap, a1) THEN LeftDomain(m, "container too long for stepwise higher-order evaluation")
    ELSE IF n >= 1 /\ a1.t \in {"builtin", "hostfn"} THEN LeftDomain(m, "function object as data argument")
    ELSE CASE name = "map" ->
            IF n # 2 THEN Raise(m, TypeErr)
            ELSE IF a1.t \in {"list", "str"} THEN HoNext([m EXCEPT !.k = Push(@, HoFrame("map", a1, a2))])
            ELSE IF a1.t = "dict" THEN HoNext([m EXCEPT !.k = Push(@, [HoFrame("map", a1, a2) EXCEPT !.n0 = LenOf(m.heap, a1)])])
            ELSE MsgOrRaise(m, a1)
      [] name = "filter" ->
            IF n # 2 THEN Raise(m, TypeErr)
            ELSE IF a1.t = "list" THEN HoNext([m EXCEPT !.k = Push(@, HoFrame("filter", a1, a2))])
            ELSE MsgOrRaise(m, a1)
      [] name = "reduce" ->
            IF n # 2 THEN Raise(m, TypeErr)
            ELSE IF a1.t \in {"list", "str", "tuple", "dict"}
            THEN HoNext([m EXCEPT !.k = Push(@, [HoFrame("reduce", a1, a2) EXCEPT !.n0 = IF a1.t = "dict" THEN LenOf(m.heap, a1) ELSE 0])])
            ELSE MsgOrRaise(m, a1)
      [] name = "sorted" ->
            IF n = 0 \/ n > 3 THEN Raise(m, TypeErr)
            ELSE LET its == IF a1.t = "dict"
                            THEN [j \in 1..LenOf(m.heap, a1) |-> Tuple(<<KeyVal(Items(m.heap, a1)[j][1]), Items(m.heap, a1)[j][2]>>)]
                            ELSE IterItems(m.heap, a1)
                     keyOk == a2.t \in {"none", "lambda", "builtin", "hostfn"} IN
                 IF ~Iterable(a1) THEN Raise(m, TypeErr)
                 ELSE IF ~keyOk THEN LeftDomain(m, "sorted with a non-callable key")
                 ELSE HoNext([m EXCEPT !.k = Push(@, [HoFrame("sorted", a1, a2) EXCEPT !.items = its, !.rev = Truthy(m.heap, a3)])])

(***************************************************************************)
(* Step: apply a callable (the f(args) in CallOp.eval and inside builtins) *)
(***************************************************************************)
RECURSIVE BindParams(_, _, _, _)
BindParams(params, args, i, b) ==
    IF i > Len(params) \/ i > Len(args) THEN b
    ELSE BindParams(params, args, i + 1, FnPut(b, params[i], args[i]))
EmptyFn == [x \in {} |-> None]

(***************************************************************************)
(* Relational builtins (rand shuffle regex float-of-fraction power): the   *)
(* specification states an envelope; a behaviour adopts the observed       *)
(* result orc if it lies inside.  orc:                                   *)
(*   [t |-> "noorc"]                     none available (left-domain)      *)
(*   [t |-> "raise", e |-> exception]                                      *)
(*   [t |-> "val", v |-> inline value]   lists inline: [t |-> "ilist",     *)
(*                                        items]; [t |-> "elem", i] = the  *)
(*                                        i-th (1-based) element of arg 1  *)
(***************************************************************************)
RECURSIVE Materialize(_, _)
Materialize(h, iv) ==
    IF iv.t = "ilist"
    THEN (LET RECURSIVE Go(_, _, _)
              Go(hh, i, acc) == IF i > Len(iv.items) THEN [h |-> hh, xs |-> acc]
                                ELSE LET r == Materialize(hh, iv.items[i]) IN Go(r.h, i + 1, Append(acc, r.v))
              g == Go(h, 1, <<>>)
              al == Alloc(g.h, NewList(g.xs)) IN [h |-> al.h, v |-> ListRef(al.a)])
    ELSE IF iv.t = "tuple"
    THEN (LET RECURSIVE Go2(_, _, _)
              Go2(hh, i, acc) == IF i > Len(iv.items) THEN [h |-> hh, xs |-> acc]
                                 ELSE LET r == Materialize(hh, iv.items[i]) IN Go2(r.h, i + 1, Append(acc, r.v))
              g == Go2(h, 1, <<>>) IN [h |-> g.h, v |-> Tuple(g.xs)])
    ELSE [h |-> h, v |-> iv]

IsSubstr(s, p) == Len(p) = 0 \/ FindFrom(s, p, 1) # 0
IntegerValued(v) == (v.t = "int") \/ (v.t = "bool") \/ (v.t = "dec" /\ DecCmp(DRep(v), IntToDec(DecToIntegral(DRep(v), "trunc"))) = 0)
\* bag equality of two value sequences (identity for references)
RECURSIVE IndexOfVal(_, _, _)
IndexOfVal(xs, x, i) == IF i > Len(xs) THEN 0 ELSE IF xs[i] = x THEN i ELSE IndexOfVal(xs, x, i + 1)
RECURSIVE IsPerm(_, _)
IsPerm(xs, ys) == IF Len(xs) # Len(ys) THEN FALSE
                  ELSE IF Len(xs) = 0 THEN TRUE
                  ELSE LET i == IndexOfVal(ys, xs[1], 1) IN IF i = 0 THEN FALSE ELSE IsPerm(Tail(xs), SeqRemoveAt(ys, i))

RegexItemOk(s, it) == \/ it.t = "none"
                      \/ (it.t = "str" /\ IsSubstr(s, it.s))
                      \/ (it.t = "tuple" /\ \A j \in 1..Len(it.items) : it.items[j].t = "none" \/ (it.items[j].t = "str" /\ IsSubstr(s, it.items[j].s)))

\* "ok" or the name of the violated envelope clause
OracleOk(h, name, args, orc) ==
    LET n == Len(args)  a1 == Arg(args, 1, None)  a2 == Arg(args, 2, None) IN
    CASE name = "rand" ->
            IF n = 0 THEN
                (IF orc.t = "val" /\ orc.v.t = "dec" /\ orc.v.sub /\ orc.v.sign = 0 /\ DecCmp(DRep(orc.v), IntToDec([sign |-> 0, digs |-> <<1>>])) = -1
                 THEN "ok" ELSE "rand() not a Decimal in [0, 1)")
            ELSE IF n = 1 THEN \* a list (checked by the caller)
                (IF LenOf(h, a1) = 0 THEN (IF orc.t = "raise" THEN "ok" ELSE "rand([]) returned")
                 ELSE IF orc.t = "elem" /\ orc.i >= 1 /\ orc.i <= LenOf(h, a1) THEN "ok" ELSE "rand(list) not an element")
            ELSE \* n = 2
                IF ~(IsNum(a1) /\ IsNum(a2)) \/ a1.t = "float" \/ a2.t = "float" THEN "unspec"
                ELSE IF ~IntegerValued(a1) \/ ~IntegerValued(a2) THEN "unspec"
                ELSE IF DecCmp(AsDec(a1), AsDec(a2)) = 1 THEN (IF orc.t = "raise" THEN "ok" ELSE "unspec")
                ELSE IF Dev("RandDecimalBounds") /\ (a1.t = "dec" \/ a2.t = "dec")
                THEN (IF orc.t = "raise" /\ orc.e.name = "TypeError" THEN "ok" ELSE "deviation RandDecimalBounds expects TypeError")
                ELSE IF orc.t = "val" /\ orc.v.t = "dec" /\ orc.v.sub /\ orc.v.exp = 0
                        /\ DecCmp(AsDec(a1), DRep(orc.v)) <= 0 /\ DecCmp(DRep(orc.v), AsDec(a2)) <= 0
                THEN "ok" ELSE "rand(a, b) outside [a, b] or not an integer Decimal"
      [] name = "shuffle" ->
            IF n # 1 \/ a1.t # "list" THEN "unspec"
            ELSE IF orc.t = "val" /\ orc.v.t = "ilist" /\ IsPerm(orc.v.items, Items(h, a1)) THEN "ok"
            ELSE "shuffle result is not a permutation in a new list"
      [] name \in RegexBuiltins ->
            IF n < 2 \/ n > 3 \/ a1.t # "str" \/ a2.t # "str" THEN "unspec"
            ELSE IF orc.t = "raise" THEN (IF orc.e.exc = "Other" THEN "ok" ELSE "regex builtin raised a language-level error")
            ELSE IF name = "match" THEN (IF orc.t = "val" /\ RegexItemOk(a1.s, orc.v) /\ orc.v.t # "tuple" THEN "ok" ELSE "match result not None/substring")
            ELSE IF name = "match_groups"
            THEN (IF orc.t = "val" /\ (orc.v.t = "none" \/ (orc.v.t = "ilist" /\ Len(orc.v.items) >= 1 /\ \A j \in 1..Len(orc.v.items) : RegexItemOk(a1.s, orc.v.items[j]) /\ orc.v.items[j].t # "tuple"))
                  THEN "ok" ELSE "match_groups result not None/list of substrings")
            ELSE (IF orc.t = "val" /\ orc.v.t = "ilist" /\ \A j \in 1..Len(orc.v.items) : RegexItemOk(a1.s, orc.v.items[j]) /\ orc.v.items[j].t # "none"
                  THEN "ok" ELSE "match_all result not a list of substrings")
      [] name = "float" ->
            IF orc.t = "raise" THEN (IF orc.e.exc = "Other" THEN "ok" ELSE "float raised a language-level error")
            ELSE IF orc.t = "val" /\ orc.v.t = "dec" /\ orc.v.sub THEN "ok"
            ELSE IF orc.t = "val" /\ orc.v.t = "opaque" THEN "unspec"       \* Decimal('Infinity') from float(1E+500): specials are not modelled
            ELSE "float() result not a Decimal"
      [] name = "pow" ->
            IF orc.t = "raise" THEN (IF orc.e.exc = "Other" THEN "ok" ELSE "** raised a language-level error")
            ELSE IF orc.t = "val" /\ orc.v.t = "dec" /\ ~orc.v.sub /\ Len(orc.v.digs) <= Prec THEN "ok"
            ELSE "** result is not a Decimal of at most 28 digits"

AdoptOracle(m, args, orc) ==
    IF orc.t = "elem" THEN Ret(m, Items(m.heap, args[1])[orc.i])
    ELSE LET r == Materialize(m.heap, orc.v) IN
         IF Oversize(m, r.h) /\ ~Dev("StrToListUnchecked") THEN Raise(m, ParserErr) ELSE Ret([m EXCEPT !.heap = r.h], r.v)

ApplyOracle(m, name, args, orc) ==
    LET n == Len(args) IN
    \* the deterministic parts of _rand
    IF name = "rand" /\ (n > 2 \/ (n = 1 /\ args[1].t # "list")) THEN MsgOrRaise(m, Tuple(args))
    ELSE IF orc.t = "noorc" THEN LeftDomain(m, "oracle needed: " \o name)
    ELSE LET chk == OracleOk(m.heap, name, args, orc) IN
         IF chk = "ok" THEN (IF orc.t = "raise" THEN Raise(m, orc.e) ELSE AdoptOracle(m, args, orc))
         ELSE IF chk = "unspec" THEN LeftDomain(m, "relational builtin outside its specified domain")
         ELSE [m EXCEPT !.ctl = [t |-> "badoracle", why |-> chk]]

\* host functions (probes and callbacks bound in names by the harness)
\* host: name -> [h |-> "probe", ret, raises] | [h |-> "ident"] | [h |-> "call", mode |-> "propagate"|"swallow"]
ApplyHost(m, host, name, args) ==
    IF name \notin DOMAIN host THEN LeftDomain(m, "unknown host function")
    ELSE LET hb == host[name]
             m1 == [m EXCEPT !.log = Append(@, EvProbe(name, args)), !.ev = <<EvProbe(name, args)>>] IN
         CASE hb.h = "probe" -> IF hb.raises THEN Raise(m1, OtherErr("ProbeError")) ELSE Ret(m1, hb.ret)
           [] hb.h = "ident" -> IF Len(args) = 1 THEN Ret(m1, args[1]) ELSE Raise(m1, TypeErr)
           [] hb.h = "eval" ->      \* a host function that runs parser.eval on a program of its own (re-entrant): own VM record and budget,
                                     \* own names mapping; every Exception is swallowed (the function then returns None)
                LET vm == Len(m1.vms) + 1 IN
                [m1 EXCEPT !.vms = Append(@, [ops |-> 0, max |-> hb.max, scopes |-> <<[s |-> "host", nid |-> hb.nid]>>]),
                           !.k = Push(@, [f |-> "hosteval", name |-> name, cvm |-> m.cvm, nev |-> m.nev, looked |-> m.looked]),
                           !.cvm = vm, !.nev = 0,
                           !.ctl = [t |-> "eval", node |-> hb.tree, vm |-> vm]]
           [] hb.h = "call" ->      \* hcall(f, x...) : calls f(x...), propagating or swallowing errors
                IF Len(args) = 0 THEN Raise(m1, TypeErr)
                ELSE [m1 EXCEPT !.k = Push(@, [f |-> "host", name |-> name, mode |-> hb.mode]),
                                !.ctl = [t |-> "call", f |-> args[1], args |-> Tail(args)]]

\* Does the next step consume an observed result?  The tracer records one for EVERY invocation of a
\* relational builtin (rand shuffle match match_groups match_all float) and for every ** whose operands
\* were both evaluated; the specification uses it only where it has no constructive definition.
OracleBuiltins == Relational \cup {"float"}
\* Frame rule for objects the specification does not model (host objects of other types than the plain ones): a builtin
\* that is not a mutator may return or raise anything when given such an object - the observed outcome is adopted - but it
\* changes nothing: the heap and every names mapping stay as they are (the unmodelled object is compared by its digest).
\* (A subscript read is not in the set: it runs the object's own __getitem__ / __missing__, which may legitimately insert.)
FrameBuiltins == {"len", "int", "float", "str", "dict", "list", "startswith", "endswith", "lower", "upper", "strip", "replace", "pretty",
                  "keys", "values", "items", "sum", "get", "join", "split", "round", "floor", "ceil", "abs", "min", "max",
                  "reversed", "enumerate", "index_of"}
FrameCall(f, args) == f.t = "builtin" /\ f.name \in FrameBuiltins /\ \E i \in 1..Len(args) : args[i].t = "opaque"
ApplyFrame(m, orc) ==
    IF orc.t \in {"noorc", "unknown", "elem"} THEN LeftDomain(m, "non-mutator on an unmodelled object: result not followed")
    ELSE IF orc.t = "raise" THEN Raise(m, orc.e)
    ELSE LET r == Materialize(m.heap, orc.v) IN Ret([m EXCEPT !.heap = r.h], r.v)
NeedsOracle(m) ==
    \/ m.ctl.t = "call" /\ m.ctl.f.t = "builtin" /\ m.ctl.f.name \in OracleBuiltins
    \/ m.ctl.t = "call" /\ FrameCall(m.ctl.f, m.ctl.args)
    \/ /\ m.ctl.t = "ret" /\ Len(m.k) > 0 /\ Top(m.k).f = "node" /\ Top(m.k).node.k = "bin" /\ Top(m.k).node.op = "**"
       /\ Top(m.k).pc = 2

ApplyCall(m, host, orc) ==
    LET f == m.ctl.f  args == m.ctl.args  m0 == [m EXCEPT !.ev = <<>>] IN
    CASE f.t = "lambda" ->
            LET c == m0.clos[f.lid]
                params == c.node.params
                nb == IF Len(params) < Len(args) THEN Len(params) ELSE Len(args) IN
            IF \E i \in 1..nb : params[i] = "?" THEN Raise(m0, OtherErr("AttributeError"))
            ELSE LET sc == [s |-> "local", b |-> BindParams(params, args, 1, EmptyFn)] IN
                 [m0 EXCEPT !.vms[c.vm].scopes = Append(@, sc),
                            !.k = Push(@, [f |-> "lam", vm |-> c.vm]),
                            !.ctl = [t |-> "eval", node |-> c.node.ch[1], vm |-> c.vm]]
      [] f.t = "builtin" ->
            IF FrameCall(f, args) THEN ApplyFrame(m0, orc)
            ELSE IF f.name \in HigherOrder THEN StartHo(m0, f.name, args)
            ELSE IF f.name \in Relational THEN ApplyOracle(m0, f.name, args, orc)
            ELSE LET res == CallAtomic(m0.heap, f.name, args) IN
                 IF "oracle" \in DOMAIN res.r THEN ApplyOracle(m0, res.r.oracle, args, orc) ELSE Deliver(m0, res, f.name, args)
      [] f.t = "hostfn" -> ApplyHost(m0, host, f.name, args)
      [] f.t = "opaque" -> LeftDomain(m0, "call of opaque value")
      [] OTHER -> Raise(m0, TypeErr)

(***************************************************************************)
(* Step: return / exception meets the top frame                            *)
(***************************************************************************)
PopScope(m, vm) == [m EXCEPT !.vms[vm].scopes = Pop(@)]

FinishCall(m, outcome) ==
    [m EXCEPT !.results = Append(@, [outcome |-> outcome, ops |-> m.vms[m.cvm].ops, nev |-> m.nev, looked |-> m.looked]),
              !.ctl = [t |-> "start"],
              !.ev = <<[e |-> "end", out |-> outcome, ops |-> m.vms[m.cvm].ops, nev |-> m.nev, looked |-> m.looked]>>]

DoRet(m, orc) ==
    LET v == m.ctl.v  m0 == [m EXCEPT !.ev = <<>>] IN
    IF Len(m.k) = 0 THEN FinishCall(m0, [t |-> "ok", v |-> v])
    ELSE LET fr == Top(m.k) IN
         CASE fr.f = "node" -> RetToNode(m0, fr, v, orc)
           [] fr.f = "lam" -> PopScope([m0 EXCEPT !.k = Pop(@)], fr.vm)
           [] fr.f = "ho" -> RetToHo(m0, fr, v)
           [] fr.f = "host" -> [m0 EXCEPT !.k = Pop(@)]
           [] fr.f = "hosteval" -> [m0 EXCEPT !.k = Pop(@), !.cvm = fr.cvm, !.nev = fr.nev, !.looked = fr.looked]   \* the nested eval returned v
           [] fr.f = "ast" ->
                \* scoped_names[k] = v.eval(state): plain store into the top (host) scope, no copy
                LET m1 == Store([m0 EXCEPT !.k = Pop(@)], fr.vm, fr.name, v) IN
                IF Len(fr.rest) > 0
                THEN [m1 EXCEPT !.k = Push(@, [fr EXCEPT !.name = fr.rest[1].name, !.rest = Tail(fr.rest)]),
                                !.ctl = [t |-> "eval", node |-> fr.rest[1].tree, vm |-> fr.vm]]
                ELSE [m1 EXCEPT !.ctl = [t |-> "eval", node |-> fr.main, vm |-> fr.vm]]

DoExc(m) ==
    LET e == m.ctl.e  m0 == [m EXCEPT !.ev = <<>>] IN
    IF Len(m.k) = 0 THEN FinishCall(m0, [t |-> "exc", e |-> e])
    ELSE LET fr == Top(m.k) IN
         CASE fr.f = "node" -> PopExc(m0, fr.node, e)
           [] fr.f = "lam" -> IF Dev("MutNoPopOnRaise") THEN [m0 EXCEPT !.k = Pop(@)]     \* specification mutant (non-vacuity of C10)
                              ELSE PopScope([m0 EXCEPT !.k = Pop(@)], fr.vm)      \* finally: pop_scope
           [] fr.f = "host" -> IF fr.mode = "swallow" THEN [m0 EXCEPT !.k = Pop(@), !.ctl = [t |-> "ret", v |-> None]]
                               ELSE [m0 EXCEPT !.k = Pop(@)]
           \* the nested eval of a host function raised: the function swallows it and returns None; the outer call goes on
           [] fr.f = "hosteval" -> [m0 EXCEPT !.k = Pop(@), !.cvm = fr.cvm, !.nev = fr.nev, !.looked = fr.looked, !.ctl = [t |-> "ret", v |-> None]]
           [] OTHER -> [m0 EXCEPT !.k = Pop(@)]       \* ho, ast

(***************************************************************************)
(* Names occurring in a tree (property C18: what list_names must report)   *)
(***************************************************************************)
RECURSIVE TreeNames(_)
TreeNames(t) ==
    (IF t.k \in {"name", "call", "assign", "short"} THEN {t.name} ELSE {})
    \cup (IF t.k = "lambda" THEN {t.params[i] : i \in 1..Len(t.params)} \ {"?"} ELSE {})
    \cup (IF "ch" \in DOMAIN t THEN UNION {TreeNames(t.ch[i]) : i \in 1..Len(t.ch)} ELSE {})

(***************************************************************************)
(* The transition function                                                 *)
(***************************************************************************)
StepKind(m) ==
    CASE m.ctl.t = "start" -> "StartCall"
      [] m.ctl.t = "eval" -> "Charge"
      [] m.ctl.t = "disp" -> "Dispatch"
      [] m.ctl.t = "resolve" -> "Resolve"
      [] m.ctl.t = "call" -> "Call"
      [] m.ctl.t = "ret" -> "Return"
      [] m.ctl.t = "exc" -> "Unwind"
      [] OTHER -> "Stuck"

NoOrc == [t |-> "noorc"]

Step(m, calls, host, orc) ==
    CASE m.ctl.t = "start" -> StartCall(m, calls)
      [] m.ctl.t = "eval" -> Charge(m)
      [] m.ctl.t = "disp" -> Dispatch(m)
      [] m.ctl.t = "resolve" -> Resolve(m)
      [] m.ctl.t = "call" -> ApplyCall(m, host, orc)
      [] m.ctl.t = "ret" -> DoRet(m, orc)
      [] m.ctl.t = "exc" -> DoExc(m)

=============================================================================
