INIT Init
NEXT Next
INVARIANT Conforms
CHECK_DEADLOCK FALSE
