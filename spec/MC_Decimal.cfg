INIT Init
NEXT Next
INVARIANT Correct
CHECK_DEADLOCK FALSE
