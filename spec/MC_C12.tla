------------------------------- MODULE MC_C12 -------------------------------
(***************************************************************************)
(* Property C12 (assignment has value semantics).  A host object h of      *)
(* every nested shape (lists, dicts, tuples, shared substructure), stored  *)
(* by every assignment form, followed by every sequence of up to two       *)
(* mutations through the stored side or through the source side.          *)
(***************************************************************************)
EXTENDS MCVM

HInt(n) == [t |-> "int", sign |-> 0, digs |-> <<n>>]
LRef(a) == [t |-> "list", addr |-> a]
DRef(a) == [t |-> "dict", addr |-> a]
LObj(xs) == [t |-> "list", items |-> xs]
DObj(ps) == [t |-> "dict", items |-> ps]
Num(n) == NVal(VNum(n))
SA == NVal(VStr(<<97>>))
SK == NVal(VStr(<<107>>))
H == NName("h")
X == NName("x")

\* host object shapes: <<heap0, value of h>>
Shapes == <<
    << <<LObj(<<HInt(1), HInt(2)>>)>>, LRef(1) >>,
    << <<LObj(<<LRef(2), LRef(3)>>), LObj(<<HInt(1)>>), LObj(<<HInt(2)>>)>>, LRef(1) >>,
    << <<DObj(<< <<<<97>>, LRef(2)>> >>), LObj(<<HInt(1)>>)>>, DRef(1) >>,
    << <<LObj(<<DRef(2), LRef(3)>>), DObj(<< <<<<97>>, HInt(1)>> >>), LObj(<<HInt(2)>>)>>, LRef(1) >>,
    << <<LObj(<<LRef(2), LRef(2)>>), LObj(<<HInt(1)>>)>>, LRef(1) >>,                                     \* shared inner list
    << <<LObj(<<[t |-> "tuple", items |-> <<HInt(1), LRef(2)>>]>>), LObj(<<HInt(2)>>)>>, LRef(1) >> >>     \* tuple holding a list

\* store forms: <<setup statements, stored root R>>
Forms == <<
    << <<NAssign("x", H)>>, X >>,
    << <<NAssign("x", NIndex(H, Num(0)))>>, X >>,
    << <<NAssign("x", NList(<<H, H>>))>>, X >>,
    << <<NAssign("c", NList(<<Num(0), Num(0)>>)), NSetItem(NName("c"), Num(0), H)>>, NIndex(NName("c"), Num(0)) >>,
    << <<NAssign("d", NCall("dict", <<>>)), NSetItem(NName("d"), SK, H)>>, NIndex(NName("d"), SK) >>,
    << <<NAssign("x", NList(<<>>)), NShort("x", "+=", H)>>, X >>,
    << <<NAssign("c", NList(<<NList(<<>>)>>)), NSetOp(NName("c"), Num(0), <<43, 61>>, H)>>, NIndex(NName("c"), Num(0)) >>,
    << <<NAssign("x", NCall("enumerate", <<H>>))>>, NIndex(NIndex(X, Num(0)), Num(1)) >>,
    << <<NAssign("x", NCall("items", <<H>>))>>, NIndex(NIndex(X, Num(0)), Num(1)) >>,
    << <<NAssign("x", H), NAssign("y", X)>>, NName("y") >>,
    << <<NAssign("x", NList(<<NIndex(H, Num(0))>>))>>, NIndex(X, Num(0)) >> >>

\* mutations on a root R: stored side uses the form's R, source side uses h
Muts(Rt) == << NCall("push", <<Rt, Num(9)>>),
              NCall("push", <<NIndex(Rt, Num(0)), Num(9)>>),
              NSetItem(Rt, Num(0), Num(7)),
              NDel(Rt, Num(0)),
              NCall("push", <<NIndex(Rt, SA), Num(9)>>),
              NSetItem(Rt, SA, Num(7)),
              NCall("pop", <<Rt>>),
              NSetOp(Rt, Num(0), <<43, 61>>, NList(<<Num(9)>>)) >>
NMut == 8

\* scenario: shape, form, m1/m2 in 0..2*NMut (0 = none; 1..NMut stored side; NMut+1..2*NMut source side)
AllScenarios == [vi : 1..Len(Shapes), fi : 1..Len(Forms), m1 : 0..(2 * NMut), m2 : 0..(2 * NMut)]

MutStmt(fi, m) == IF m = 0 THEN <<>> ELSE IF m <= NMut THEN <<Muts(Forms[fi][2])[m]>> ELSE <<Muts(H)[m - NMut]>>
Model == [fi \in 1..Len(Forms) |-> [m1 \in 0..(2 * NMut) |-> [m2 \in 0..(2 * NMut) |->
            Number(NCode(Forms[fi][1] \o MutStmt(fi, m1) \o MutStmt(fi, m2)), 1).t]]]
C12Calls(s) == <<[tree |-> Model[s.fi][s.m1][s.m2], nid |-> "n1", max |-> 200, ast |-> <<>>]>>
C12Host(s) == [x \in {} |-> 0]
C12Names0(s) == [n1 |-> [h |-> Shapes[s.vi][2]]]
C12Heap0(s) == Shapes[s.vi][1]
C12Bound(s) == Cap

(***************************************************************************)
(* The property on the specification                                       *)
(***************************************************************************)
N0 == Len(Shapes[sc.vi][1])
SourceMutated == sc.m1 > NMut \/ sc.m2 > NMut
Vars == DOMAIN mN.names["n1"] \ {"h"}
\* what the program stored never shares a mutable object with the host object, nor with the
\* value of another variable (no aliasing operation other than stores occurs in these programs)
Separation ==
    /\ \A v \in Vars : Reach(mN.heap, mN.names["n1"][v]) \cap (1..N0) = {}
    /\ \A v, w \in Vars : v # w => Reach(mN.heap, mN.names["n1"][v]) \cap Reach(mN.heap, mN.names["n1"][w]) = {}
\* a host-supplied object changes only when a mutating operation is applied directly to it
HostOnlyDirect == SourceMutated \/ \A a \in 1..N0 : mN.heap[a] = Shapes[sc.vi][1][a]
\* every store binds fresh objects: the heap only grows, and a store never makes an old object reachable from the target
HeapGrows == [][Len(mN'.heap) >= Len(mN.heap)]_vars
=============================================================================
