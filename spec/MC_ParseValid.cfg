CONSTANTS
  ExtraInfo <- MCExtraInfo
  Deviations <- NoDeviations
INIT Init
NEXT Next
INVARIANT InvSound
INVARIANT InvComplete
INVARIANT InvUnique
INVARIANT InvDerivable
CHECK_DEADLOCK FALSE
