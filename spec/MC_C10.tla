------------------------------- MODULE MC_C10 -------------------------------
(***************************************************************************)
(* Property C10 (scoping).  One name X bound at every subset of the three  *)
(* levels builtin / host-or-top-level / lambda parameter-or-local;         *)
(* host-supplied AST lambdas (the only lambdas whose bodies can assign),   *)
(* nested and recursive calls, bodies that raise under map/filter/sorted   *)
(* or under a host callback that swallows the error and lets the program   *)
(* continue; two-call histories in which the lambda outlives its eval.     *)
(***************************************************************************)
EXTENDS MCVM

HInt(n) == [t |-> "int", sign |-> 0, digs |-> <<n>>]
HostFn(n) == [t |-> "hostfn", name |-> n]
Heap0 == << [t |-> "list", items |-> <<HInt(1), HInt(2)>>] >>
HL == [t |-> "list", addr |-> 1]
Num(n) == NVal(VNum(n))

\* AST lambda bodies over the name X
Bodies(X) == {
    <<NName(X)>>,
    <<NAssign(X, Num(5)), NName(X)>>,
    <<NShort(X, "+=", Num(1)), NName(X)>>,
    <<NAssign("y", NName(X)), NCall("g", <<>>)>>,
    <<NAssign(X, Num(5)), NName("undefined")>>,
    <<NAssign(X, Num(5)), NCall("hcall", <<NName("g")>>), NName(X)>>,
    <<NIf(NBin("<", NName("p"), Num(1)), NName(X), NCall("f", <<NBin("-", NName("p"), Num(1)), Num(9)>>))>>,
    <<NCall(X, <<NList(<<Num(1)>>)>>)>> }
GBodies(X) == { <<NName(X)>>, <<NAssign(X, Num(8)), NName("y")>>, <<NName("nosuch")>> }
ParamSets(X) == { <<>>, <<X>>, <<"p">>, <<"p", X>> }
\* how the main program uses f
Uses(X) == {
    <<NCall("f", <<Num(1), Num(2)>>), NName(X)>>,
    <<NAssign(X, Num(3)), NCall("f", <<Num(1), Num(2)>>), NName(X)>>,
    <<NCall("map", <<NName("l"), NName("f")>>), NName(X)>>,
    <<NCall("hcall", <<NName("f"), Num(0), Num(2)>>), NName(X), NAssign("z", Num(1))>>,
    <<NCall("sorted", <<NName("l"), NName("f")>>), NName(X)>>,
    <<NAssign("h", NLambda(<<X>>, NBin("+", NName(X), Num(1)))), NCall("h", <<Num(4)>>), NName(X)>>,
    <<NCall("filter", <<NName("l"), NLambda(<<X>>, NCall("f", <<NName(X), Num(2)>>))>>), NAssign("z", NName(X))>> }

Model == LET Xs == <<"len", "x">>
             mk(X) == LET bs == SetToSeq(Bodies(X))  gs == SetToSeq(GBodies(X))  ps == SetToSeq(ParamSets(X))  us == SetToSeq(Uses(X)) IN
                      [bs |-> bs, gs |-> gs, ps |-> ps, us |-> us]
             t == [xi \in 1..2 |-> mk(Xs[xi])]
             \* numbered trees: f, g, main
             trees == [xi \in 1..2 |-> [bi \in 1..Len(t[xi].bs) |-> [gi \in 1..Len(t[xi].gs) |-> [pi \in 1..Len(t[xi].ps) |-> [ui \in 1..Len(t[xi].us) |->
                        LET f == Number(NLambda(t[xi].ps[pi], NCode(t[xi].bs[bi])), 1)
                            g == Number(NLambda(<<>>, NCode(t[xi].gs[gi])), f.n)
                            mn == Number(NCode(t[xi].us[ui]), g.n) IN
                        [f |-> f.t, g |-> g.t, main |-> mn.t]]]]]]
         IN [t |-> t, trees |-> trees, xs |-> Xs]
Dims(xi) == [b |-> Len(Model.t[xi].bs), g |-> Len(Model.t[xi].gs), p |-> Len(Model.t[xi].ps), u |-> Len(Model.t[xi].us)]

AllScenarios == UNION {[xi : {xi}, bi : 1..Dims(xi).b, gi : 1..Dims(xi).g, pi : 1..Dims(xi).p, ui : 1..Dims(xi).u,
                        hostx : BOOLEAN, mode : {"propagate", "swallow"}, n : {100, 9, 14}] : xi \in 1..2}

Trees(s) == Model.trees[s.xi][s.bi][s.gi][s.pi][s.ui]
C10Calls(s) == <<[tree |-> Trees(s).main, nid |-> "n1", max |-> s.n,
                  ast |-> <<[name |-> "g", tree |-> Trees(s).g], [name |-> "f", tree |-> Trees(s).f]>>]>>
C10Host(s) == [hcall |-> [h |-> "call", mode |-> s.mode]]
C10Names0(s) == LET base == [l |-> HL, hcall |-> HostFn("hcall")] IN
                [n1 |-> IF s.hostx THEN FnPut(base, Model.xs[s.xi], HInt(7)) ELSE base]
C10Heap0(s) == Heap0
C10Bound(s) == Cap

(***************************************************************************)
(* C10 invariants beyond those of MCVM (ScopeBalance, ScopeMatchesFrames,  *)
(* ScopeStackShape)                                                        *)
(***************************************************************************)
\* the host mapping is written only by a top-level assignment (scope depth 1 of the storing record)
\* or by the ast_names binding step; never while a lambda scope of that record is active
HostWrittenOnlyAtTop ==
    [][mN'.names # mN.names =>
         /\ mN.ctl.t = "ret" /\ Len(mN.k) > 0
         /\ LET fr == mN.k[Len(mN.k)] IN
            \/ fr.f = "ast"
            \/ (fr.f = "node" /\ fr.node.k \in {"assign", "short"} /\ Len(mN.vms[fr.vm].scopes) = 1)]_vars
\* a parameter / local binding never changes an outer binding: when a lambda scope is popped the
\* scopes below it are what they were when it was pushed, except for writes made by deeper code at top level
LocalsVanish == [][\A v \in 1..Len(mN.vms) :
                     (v <= Len(mN'.vms) /\ Len(mN'.vms[v].scopes) < Len(mN.vms[v].scopes))
                     => mN'.vms[v].scopes = SubSeq(mN.vms[v].scopes, 1, Len(mN.vms[v].scopes) - 1)]_vars
=============================================================================
