----------------------------- MODULE MC_Decimal -----------------------------
(***************************************************************************)
(* Exhaustive self check of SQDecimal at precisions 1, 2, 3.               *)
(*                                                                         *)
(* State = (precision p, coefficient ca, coefficient cb).  Init picks p    *)
(* and ca (cb = -1); the only step picks cb.  The invariant is evaluated   *)
(* on every state, i.e. in the worker threads for the ~1.07 million (ca,   *)
(* cb) pairs:                                                              *)
(*                                                                         *)
(*  cb = -1 : unary checks on a = (-1)^s ca 10^e, s in {0,1}, e in -3..3   *)
(*            (DecPlus/DecNeg/DecAbs against the oracle, DecToIntegral and *)
(*            DecQuantize against integer arithmetic, DecCmp reflexive).   *)
(*  cb >= 0 : for both signs of both operands, every exponent pair of      *)
(*            ExpPairs(p) and op in + - * / :                              *)
(*              CorrectlyRounded(.., op, DecOp(a, b, p), p)                *)
(*            (both sides signal for x/0 and 0/0), and DecCmp(a, b) agrees *)
(*            with the cross-multiplied integer order.                     *)
(*                                                                         *)
(* Coefficients: ALL of 0..10^p-1 plus a few (p+1)- and (p+2)-digit ones   *)
(* (operands need not be rounded to the context precision in Python).      *)
(* Exponent pairs: p = 1, 2: all of (-3..3) x (-3..3).  p = 3: the pairs   *)
(* with ea = 0 or eb = 0 (13 pairs, exponent differences -3..3 in both     *)
(* operand orders); the full 49 would cost 4x more for no new alignment    *)
(* (only ea - eb enters the coefficient arithmetic; the absolute exponent  *)
(* is additive and is exercised exhaustively at p = 1, 2).                 *)
(* The oracle works on 32-bit TLC integers: a combination is skipped       *)
(* (Fits) only when an EXTRA coefficient times the exponent gap exceeds    *)
(* 5*10^8; combinations of in-range coefficients are never skipped.        *)
(***************************************************************************)
EXTENDS Integers, Sequences, TLC, SQDecimal

VARIABLES p, ca, cb

Precs == {1, 2, 3}
Exps == -3..3

Extra(q) ==
  CASE q = 1 -> {10, 11, 15, 25, 35, 45, 50, 55, 65, 75, 85, 94, 95, 96, 99, 100, 101, 105,
                 115, 125, 149, 150, 151, 249, 250, 251, 949, 950, 951, 995, 999}
    [] q = 2 -> {100, 101, 105, 115, 125, 135, 145, 149, 150, 151, 155, 195, 199, 250, 251,
                 500, 505, 895, 985, 994, 995, 996, 999, 1000, 1001, 1005, 1050, 1249, 1250,
                 1251, 9949, 9950, 9951, 9995, 9999}
    [] q = 3 -> {1000, 1001, 1005, 1015, 1025, 1235, 1245, 4995, 5005, 9985, 9994, 9995, 9996,
                 9999, 10000, 10001, 10005, 10050, 12345, 12350, 12449, 12450, 12451, 99949,
                 99950, 99951, 99995, 99999}

Coefs(q) == (0..(10^q - 1)) \cup Extra(q)

ExpPairs(q) ==
  IF q <= 2 THEN Exps \X Exps
  ELSE {<<0, e>> : e \in Exps} \cup {<<e, 0>> : e \in Exps}

Abs(x) == IF x < 0 THEN -x ELSE x

Mk(s, c, e) == [sign |-> s, digs |-> D_NatDigs(c), exp |-> e]

\* signed integer value of (-1)^s c 10^(e - m)
SVal(s, c, e, m) == (IF s = 1 THEN -1 ELSE 1) * c * 10^(e - m)

FitsAdd(x, y, ea, eb) ==
  LET g == Abs(ea - eb) IN x <= 500000000 \div 10^g /\ y <= 500000000 \div 10^g
FitsMul(x, y) == x = 0 \/ y <= 1000000000 \div x

Apply(op, a, b, q) ==
  CASE op = "+" -> DecAdd(a, b, q)
    [] op = "-" -> DecSub(a, b, q)
    [] op = "*" -> DecMul(a, b, q)
    [] op = "/" -> DecDiv(a, b, q)

OpOK(op, sa, x, ea, sb, y, eb, q) ==
  LET r == Apply(op, Mk(sa, x, ea), Mk(sb, y, eb), q) IN
  \/ CorrectlyRounded(sa, x, ea, sb, y, eb, op, r, q)
  \/ PrintT(<<"WRONG", q, op, <<sa, x, ea>>, <<sb, y, eb>>, r>>) /\ FALSE

CmpOK(sa, x, ea, sb, y, eb) ==
  LET m == IF ea < eb THEN ea ELSE eb
      d == SVal(sa, x, ea, m) - SVal(sb, y, eb, m)
      c == DecCmp(Mk(sa, x, ea), Mk(sb, y, eb))
  IN \/ (c = (IF d < 0 THEN -1 ELSE IF d > 0 THEN 1 ELSE 0)
         /\ DecEq(Mk(sa, x, ea), Mk(sb, y, eb)) = (d = 0))
     \/ PrintT(<<"WRONGCMP", <<sa, x, ea>>, <<sb, y, eb>>, c>>) /\ FALSE

BinaryOK(q, x, y) ==
  \A sa \in {0, 1} : \A sb \in {0, 1} : \A ee \in ExpPairs(q) :
    LET ea == ee[1]
        eb == ee[2]
    IN /\ FitsAdd(x, y, ea, eb) =>
            /\ OpOK("+", sa, x, ea, sb, y, eb, q)
            /\ OpOK("-", sa, x, ea, sb, y, eb, q)
            /\ CmpOK(sa, x, ea, sb, y, eb)
       /\ FitsMul(x, y) => OpOK("*", sa, x, ea, sb, y, eb, q)
       /\ OpOK("/", sa, x, ea, sb, y, eb, q)

-----------------------------------------------------------------------------
(* Unary operators and integer conversions against TLC integer arithmetic  *)

IntVal(i) == (IF i.sign = 1 THEN -1 ELSE 1) * D_ToNat(i.digs, Len(i.digs))

\* floor(v / 10^k) etc. for v an integer, k >= 0, using only \div on naturals
Integral(s, c, e, mode) ==
  IF e >= 0 THEN (IF s = 1 THEN -1 ELSE 1) * c * 10^e
  ELSE
    LET d    == 10^(-e)
        fl   == c \div d                 \* floor of |v|
        rem  == c - fl * d
        up   == CASE mode = "trunc" -> FALSE
                  [] mode = "floor" -> s = 1 /\ rem # 0
                  [] mode = "ceil"  -> s = 0 /\ rem # 0
                  [] mode = "half_even" -> 2 * rem > d \/ (2 * rem = d /\ fl % 2 = 1)
        mag  == IF up THEN fl + 1 ELSE fl
    IN (IF s = 1 THEN -1 ELSE 1) * mag

IntegralOK(s, c, e) ==
  \A mode \in {"trunc", "floor", "ceil", "half_even"} :
    LET r == DecToIntegral(Mk(s, c, e), mode) IN
    \/ (~IsSig(r) /\ IntVal(r) = Integral(s, c, e, mode)
        /\ (r.digs = <<0>> => r.sign = 0) /\ (Len(r.digs) > 1 => r.digs[1] # 0))
    \/ PrintT(<<"WRONGINT", <<s, c, e>>, mode, r>>) /\ FALSE

\* round(d, nd): value = half-even multiple of 10^-nd, exponent -nd, or
\* InvalidOperation when that needs more than q digits
QuantizeOK(s, c, e, nd, q) ==
  LET r  == DecQuantize(Mk(s, c, e), nd, q)
      \* coefficient of the result at exponent -nd, via the integer oracle
      k  == Abs(Integral(s, c, e + nd, "half_even"))
      \* Python refuses on the adjusted exponent of the operand before rounding
      tooLong == (c # 0) /\ ((Len(D_NatDigs(c)) + e - 1) + nd + 1 > q \/ k >= 10^q)
  IN \/ (c = 0 /\ r = [sign |-> s, digs |-> <<0>>, exp |-> -nd])
     \/ (c # 0 /\ tooLong /\ r = [sig |-> "InvalidOperation"])
     \/ (c # 0 /\ ~tooLong /\ r = [sign |-> s, digs |-> D_NatDigs(k), exp |-> -nd])
     \/ PrintT(<<"WRONGQ", <<s, c, e>>, nd, q, r>>) /\ FALSE

UnaryOK(q, x) ==
  \A s \in {0, 1} : \A e \in Exps :
    LET a    == Mk(s, x, e)
        zero == Mk(0, 0, e)
    IN /\ \/ ( /\ CorrectlyRounded(s, x, e, 0, 0, e, "+", DecPlus(a, q), q)       \* +a = a + 0
               /\ CorrectlyRounded(0, 0, e, s, x, e, "-", DecNeg(a, q), q)        \* -a = 0 - a
               /\ DecPlus(a, q) = DecAdd(a, zero, q)
               /\ DecNeg(a, q) = DecSub(zero, a, q)
               /\ DecAbs(a, q) = (IF s = 1 THEN DecNeg(a, q) ELSE DecPlus(a, q))
               /\ DecCmp(a, a) = 0
               /\ DecIsZero(a) = (x = 0)
               /\ DecFix(a, q) = (IF x = 0 THEN a ELSE DecPlus(a, q)) )
          \/ PrintT(<<"WRONGUNARY", q, <<s, x, e>>>>) /\ FALSE
       /\ IntegralOK(s, x, e)
       /\ \A nd \in -2..4 : QuantizeOK(s, x, e, nd, q)

-----------------------------------------------------------------------------
Init == p \in Precs /\ ca \in Coefs(p) /\ cb = -1
Next == cb = -1 /\ cb' \in Coefs(p) /\ UNCHANGED <<p, ca>>

Correct == IF cb = -1 THEN UnaryOK(p, ca) ELSE BinaryOK(p, ca, cb)

=============================================================================
