----------------------------- MODULE MC_Decimal -----------------------------
(***************************************************************************)
(* Exhaustive self check of SQDecimal at precisions 1, 2, 3.               *)
(*                                                                         *)
(* State = (precision p, coefficient ca, coefficient cb).  Init picks p    *)
(* and ca (cb = -1); the only step picks cb.  The invariant is evaluated   *)
(* on every state, i.e. in the worker threads for the (ca, cb) pairs:      *)
(*                                                                         *)
(*  cb = -1 : unary checks on a = (-1)^s ca 10^e, s in {0,1}, e in -3..3   *)
(*            (DecPlus/DecNeg/DecAbs/DecFix against the oracle,            *)
(*            DecToIntegral and DecQuantize against integer arithmetic).   *)
(*  cb >= 0 : CorrectlyRounded(.., op, DecOp(a, b, p), p) for op in        *)
(*            + - * / (both sides signal for x/0 and 0/0), and DecCmp /    *)
(*            DecEq agree with the cross-multiplied integer order, over    *)
(*            the sign and exponent combinations listed below.             *)
(*                                                                         *)
(* Coefficients: ALL of 0..10^p-1 plus a few (p+1)- and (p+2)-digit ones   *)
(* (operands need not be rounded to the context precision in Python).      *)
(*                                                                         *)
(* p = 1, 2 : the full product: both signs of both operands, all 49        *)
(*            exponent pairs of (-3..3) x (-3..3), all four operations.    *)
(* p = 3    : all 1028 x 1028 ordered coefficient pairs, with              *)
(*            "+"  : a = +ca E0 against b = (+/-)cb E eb, eb in -3..3      *)
(*                   (effective addition and subtraction at every          *)
(*                   alignment; the mirrored operand order is the state    *)
(*                   (cb, ca) up to a common exponent shift), and          *)
(*                   a = -ca E0 against (+/-)cb E0;                        *)
(*            "-", "*", "/" : a = +ca E0 against (+/-)cb E0 (DecSub is     *)
(*                   DecAdd of the negated operand; for * and / the signs  *)
(*                   are xor-ed and the exponents added/subtracted);       *)
(*            cmp  : the same combinations as "+".                         *)
(*            The full product at p = 3 (2*10^8 cases per operation) would *)
(*            take about an hour; sign symmetry and exponent-shift         *)
(*            invariance are established exhaustively at p = 1, 2.         *)
(* The oracle works on 32-bit TLC integers: a combination is skipped       *)
(* (FitsAdd/FitsMul) only when an EXTRA coefficient makes the aligned      *)
(* integers exceed 5*10^8; in-range coefficients are never skipped.        *)
(***************************************************************************)
EXTENDS Integers, Sequences, TLC, SQDecimal

VARIABLES p, ca, cb

Precs == {1, 2, 3}
QuickPrecs == {1, 2}      \* quick tier (cfg: CONSTANT Precs <- QuickPrecs)
Exps == -3..3

Extra(q) ==
  CASE q = 1 -> {10, 11, 15, 25, 35, 45, 50, 55, 65, 75, 85, 94, 95, 96, 99, 100, 101, 105,
                 115, 125, 149, 150, 151, 249, 250, 251, 949, 950, 951, 995, 999}
    [] q = 2 -> {100, 101, 105, 125, 150, 250, 995, 999, 1000, 1001, 1005, 1250, 9950, 9995,
                 9999}
    [] q = 3 -> {1000, 1001, 1005, 1015, 1025, 1235, 1245, 4995, 5005, 9985, 9994, 9995, 9996,
                 9999, 10000, 10001, 10005, 10050, 12345, 12350, 12449, 12450, 12451, 99949,
                 99950, 99951, 99995, 99999}

Coefs(q) == (0..(10^q - 1)) \cup Extra(q)

Abs(x) == IF x < 0 THEN -x ELSE x

Mk(s, c, e) == [sign |-> s, digs |-> D_NatDigs(c), exp |-> e]

\* signed integer value of (-1)^s c 10^(e - m)
SVal(s, c, e, m) == (IF s = 1 THEN -1 ELSE 1) * c * 10^(e - m)

FitsAdd(x, y, ea, eb) ==
  LET g == Abs(ea - eb) IN x <= 500000000 \div 10^g /\ y <= 500000000 \div 10^g
FitsMul(x, y) == x = 0 \/ y <= 1000000000 \div x

Apply(op, a, b, q) ==
  CASE op = "+" -> DecAdd(a, b, q)
    [] op = "-" -> DecSub(a, b, q)
    [] op = "*" -> DecMul(a, b, q)
    [] op = "/" -> DecDiv(a, b, q)

Sgn(d) == IF d < 0 THEN -1 ELSE IF d > 0 THEN 1 ELSE 0

BinaryOK(q, x, y) ==
  LET dx == D_NatDigs(x)
      dy == D_NatDigs(y)
      A(s, e) == [sign |-> s, digs |-> dx, exp |-> e]
      B(s, e) == [sign |-> s, digs |-> dy, exp |-> e]
      OpOK(op, sa, ea, sb, eb) ==
        LET r == Apply(op, A(sa, ea), B(sb, eb), q) IN
        \/ CorrectlyRounded(sa, x, ea, sb, y, eb, op, r, q)
        \/ PrintT(<<"WRONG", q, op, <<sa, x, ea>>, <<sb, y, eb>>, r>>) /\ FALSE
      CmpOK(sa, ea, sb, eb) ==
        LET m == IF ea < eb THEN ea ELSE eb
            d == SVal(sa, x, ea, m) - SVal(sb, y, eb, m)
            c == DecCmp(A(sa, ea), B(sb, eb))
        IN \/ (c = Sgn(d) /\ DecEq(A(sa, ea), B(sb, eb)) = (d = 0))
           \/ PrintT(<<"WRONGCMP", <<sa, x, ea>>, <<sb, y, eb>>, c>>) /\ FALSE
      AddCmp(sa, ea, sb, eb) ==
        FitsAdd(x, y, ea, eb) => (OpOK("+", sa, ea, sb, eb) /\ CmpOK(sa, ea, sb, eb))
      Rest(sa, ea, sb, eb) ==
        /\ FitsAdd(x, y, ea, eb) => OpOK("-", sa, ea, sb, eb)
        /\ FitsMul(x, y) => OpOK("*", sa, ea, sb, eb)
        /\ OpOK("/", sa, ea, sb, eb)
  IN
  IF q <= 2
  THEN \A sa \in {0, 1} : \A sb \in {0, 1} : \A ea \in Exps : \A eb \in Exps :
         AddCmp(sa, ea, sb, eb) /\ Rest(sa, ea, sb, eb)
  ELSE /\ \A sb \in {0, 1} : \A eb \in Exps : AddCmp(0, 0, sb, eb)
       /\ \A sb \in {0, 1} : AddCmp(1, 0, sb, 0) /\ Rest(0, 0, sb, 0)

-----------------------------------------------------------------------------
(* Unary operators and integer conversions against TLC integer arithmetic  *)

IntVal(i) == (IF i.sign = 1 THEN -1 ELSE 1) * D_ToNat(i.digs, Len(i.digs))

\* floor(v / 10^k) etc. for v an integer, k >= 0, using only \div on naturals
Integral(s, c, e, mode) ==
  IF e >= 0 THEN (IF s = 1 THEN -1 ELSE 1) * c * 10^e
  ELSE
    LET d    == 10^(-e)
        fl   == c \div d                 \* floor of |v|
        rem  == c - fl * d
        up   == CASE mode = "trunc" -> FALSE
                  [] mode = "floor" -> s = 1 /\ rem # 0
                  [] mode = "ceil"  -> s = 0 /\ rem # 0
                  [] mode = "half_even" -> 2 * rem > d \/ (2 * rem = d /\ fl % 2 = 1)
        mag  == IF up THEN fl + 1 ELSE fl
    IN (IF s = 1 THEN -1 ELSE 1) * mag

IntegralOK(s, c, e) ==
  \A mode \in {"trunc", "floor", "ceil", "half_even"} :
    LET r == DecToIntegral(Mk(s, c, e), mode) IN
    \/ (~IsSig(r) /\ IntVal(r) = Integral(s, c, e, mode)
        /\ (r.digs = <<0>> => r.sign = 0) /\ (Len(r.digs) > 1 => r.digs[1] # 0))
    \/ PrintT(<<"WRONGINT", <<s, c, e>>, mode, r>>) /\ FALSE

\* round(d, nd): value = half-even multiple of 10^-nd, exponent -nd, or
\* InvalidOperation when that needs more than q digits
QuantizeOK(s, c, e, nd, q) ==
  LET r  == DecQuantize(Mk(s, c, e), nd, q)
      \* coefficient of the result at exponent -nd, via the integer oracle
      k  == Abs(Integral(s, c, e + nd, "half_even"))
      \* Python refuses on the adjusted exponent of the operand before rounding
      tooLong == (c # 0) /\ ((Len(D_NatDigs(c)) + e - 1) + nd + 1 > q \/ k >= 10^q)
  IN \/ (c = 0 /\ r = [sign |-> s, digs |-> <<0>>, exp |-> -nd])
     \/ (c # 0 /\ tooLong /\ r = [sig |-> "InvalidOperation"])
     \/ (c # 0 /\ ~tooLong /\ r = [sign |-> s, digs |-> D_NatDigs(k), exp |-> -nd])
     \/ PrintT(<<"WRONGQ", <<s, c, e>>, nd, q, r>>) /\ FALSE

UnaryOK(q, x) ==
  \A s \in {0, 1} : \A e \in Exps :
    LET a    == Mk(s, x, e)
        zero == Mk(0, 0, e)
    IN /\ \/ ( /\ CorrectlyRounded(s, x, e, 0, 0, e, "+", DecPlus(a, q), q)       \* +a = a + 0
               /\ CorrectlyRounded(0, 0, e, s, x, e, "-", DecNeg(a, q), q)        \* -a = 0 - a
               /\ DecPlus(a, q) = DecAdd(a, zero, q)
               /\ DecNeg(a, q) = DecSub(zero, a, q)
               /\ DecAbs(a, q) = (IF s = 1 THEN DecNeg(a, q) ELSE DecPlus(a, q))
               /\ DecCmp(a, a) = 0
               /\ DecIsZero(a) = (x = 0)
               /\ DecFix(a, q) = (IF x = 0 THEN a ELSE DecPlus(a, q)) )
          \/ PrintT(<<"WRONGUNARY", q, <<s, x, e>>>>) /\ FALSE
       /\ IntegralOK(s, x, e)
       /\ \A nd \in -2..4 : QuantizeOK(s, x, e, nd, q)

-----------------------------------------------------------------------------
Init == p \in Precs /\ ca \in Coefs(p) /\ cb = -1
Next == cb = -1 /\ cb' \in Coefs(p) /\ UNCHANGED <<p, ca>>

Correct == IF cb = -1 THEN UnaryOK(p, ca) ELSE BinaryOK(p, ca, cb)

=============================================================================
