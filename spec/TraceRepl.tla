------------------------------ MODULE TraceRepl ------------------------------
(***************************************************************************)
(* Trace validation of recorded sessions of smartquery/repl.py against     *)
(* SQRepl: every recorded loop event (start, read, interrupt, eof, eval    *)
(* with the identity of the names mapping, the budget and the number of    *)
(* lines printed) must be the event of an enabled SQRepl action, and the   *)
(* way the loop was left must be the specified one.  CASES_FILE: [cases:   *)
(* <<[id, script, events, final: [phase, code]]>>].  One verdict per case. *)
(***************************************************************************)
EXTENDS SQRepl, Json, IOUtils

Input == JsonDeserialize(IOEnv.CASES_FILE)
Cases == Input.cases

VARIABLES tid, l, verdict
tvars == <<vars, tid, l, verdict>>
T == Cases[tid].events

TInit == /\ tid \in 1..Len(Cases) /\ l = 1 /\ verdict = "run"
         /\ script = Cases[tid].script /\ pos = 0 /\ phase = "start" /\ out = <<>> /\ evals = <<>> /\ namesId = 1
         /\ code = "-" /\ ev = [e |-> "init"]

\* the recorded names identity is 1 for the mapping of the first evaluation and k for the k-th distinct mapping
Step == /\ verdict = "run" /\ l <= Len(T) /\ Next
        /\ verdict' = IF ev' = T[l] THEN "run"
                      ELSE IF ev'.e # T[l].e THEN "event kind"
                      ELSE IF ev'.e = "read" THEN "empty line handling"
                      ELSE IF ev'.names # T[l].names THEN "names mapping"
                      ELSE IF ev'.budget # T[l].budget THEN "budget"
                      ELSE IF ev'.printed # T[l].printed THEN "printed lines"
                      ELSE "outcome kind"
        /\ l' = l + 1 /\ UNCHANGED tid
\* the recorded session goes on although the specified loop has been left, or stops although it has not
Stuck == /\ verdict = "run" /\ l <= Len(T) /\ ~ENABLED Next
         /\ verdict' = "events after the loop was left" /\ UNCHANGED <<vars, tid, l>>
Finish == /\ verdict = "run" /\ l = Len(T) + 1
          /\ verdict' = IF ~Done THEN "session ended inside the loop"
                        ELSE IF phase # Cases[tid].final.phase \/ code # Cases[tid].final.code THEN "way out"
                        ELSE "accepted"
          /\ UNCHANGED <<vars, tid, l>>
TNext == Step \/ Stuck \/ Finish
TSpec == TInit /\ [][TNext]_tvars

Emit == verdict = "run" \/ PrintT(ToJson([id |-> Cases[tid].id, v |-> verdict, at |-> l - 1]))
=============================================================================
