SPECIFICATION Spec
CONSTANT Deviations = {}
CONSTANT Cap = 10000
CONSTANT Scenarios <- AllScenarios
CONSTANT ScCalls <- C12Calls
CONSTANT ScHost <- C12Host
CONSTANT ScNames0 <- C12Names0
CONSTANT ScHeap0 <- C12Heap0
CONSTANT ScBound <- C12Bound
CONSTANT KeepHist = FALSE
INVARIANT Separation
INVARIANT HostOnlyDirect
INVARIANT ScopeBalance
INVARIANT Lockstep
INVARIANT Terminates
INVARIANT Emit
PROPERTY HeapGrows
CHECK_DEADLOCK FALSE
