"""Seeded, type-directed generator of smartquery programs and host bindings (direction B
drivers).  Everything is produced as *source text*, so the real lexer and parser are on
the path.  Types: num str bool none list(T) dict(T) fun."""
import random
from decimal import Decimal

NUM_LITS = ['0', '1', '2', '3', '7', '10', '1.5', '0.1', '0.2', '2.50', '1.0', '100', '0.75', '12.345', '9999999999999999999999999999',
            '0.0000001', '123456789.123456789']
STR_LITS = ['""', '"a"', '"b"', '"abc"', '"Hello World"', '"a b c"', '"1"', '"x,y"', "'q'", '"aXbXc"', '" pad "']
NAMES = ['a', 'b', 'c', 'x', 'y']


class Gen:
    def __init__(self, rng, env=None, hostfns=(), features=None):
        self.r = rng
        self.env = dict(env or {})      # name -> type
        self.hostfns = list(hostfns)    # probe names returning num
        self.f = features or {}
        self.lam_depth = 0

    def pick(self, xs):
        return xs[self.r.randrange(len(xs))]

    def vars_of(self, t):
        return [n for n, ty in self.env.items() if ty == t]

    # ---- expressions -------------------------------------------------------------------
    def expr(self, t, d):
        r = self.r
        if d <= 0 or r.random() < 0.15:
            return self.leaf(t)
        if isinstance(t, tuple):
            return self.container(t, d)
        return getattr(self, 'e_' + t)(d)

    FAILS = ['undefined_var', 'nofn(1)', 'hd0["zz"]', 'hl0[9]', '"ab"[5]', 'pop([])', 'pop(hl0, 9)', 'map(1, v => v)', '("z" * 2)',
             '__setitem_with_op__(hd0, "zz", "+=", 1)', 'rand(1, 2, 3)', 'filter("z", v => v)',
             # undefined names of every shape (leading / trailing underscores, like the internal __getitem__ family), in call, pipe and method position
             '__nofn()', '__nofn__(1)', '(1 | __len__)', 'hl0.__getitem(0)', '_nofn()', 'nofn__()', '__undefined_var', '__getitem(hl0, 0)']

    def leaf(self, t):
        if self.f.get('fail') and self.r.random() < self.f['fail']:
            return self.pick(self.FAILS)
        vs = self.vars_of(t)
        if vs and self.r.random() < 0.5:
            return self.pick(vs)
        if t == 'num':
            if self.hostfns and self.r.random() < 0.15:
                return self.pick(self.hostfns) + '()'
            return self.pick(NUM_LITS)
        if t == 'str':
            return self.pick(STR_LITS)
        if t == 'bool':
            return self.pick(['True', 'False'])
        if t == 'none':
            return 'None'
        if t == 'any':
            return self.leaf(self.pick(['num', 'str', 'bool', 'none']))
        if isinstance(t, tuple) and t[0] == 'list':
            n = self.r.randrange(0, 4)
            return '[' + ', '.join(self.leaf(t[1]) for _ in range(n)) + ']'
        if isinstance(t, tuple) and t[0] == 'dict':
            n = self.r.randrange(0, 3)
            return '{' + ', '.join('%s: %s' % (self.keylit(), self.leaf(t[1])) for _ in range(n)) + '}'
        if t == 'fun':
            return 'v => v'
        raise ValueError(t)

    def keylit(self):
        return self.pick(['"a"', '"b"', '"k"', '1', '2', '1.0', 'True', 'None', '"1"', '1.5'])

    def e_any(self, d):
        return self.expr(self.pick(['num', 'str', 'bool', 'none', ('list', 'num'), ('dict', 'num')]), d)

    def e_num(self, d):
        r = self.r
        c = r.randrange(18)
        if c < 5:
            op = self.pick(['+', '-', '*', '/'] if not self.f.get('nodiv') else ['+', '-', '*'])
            return '(%s %s %s)' % (self.expr('num', d - 1), op, self.expr('num', d - 1))
        if c == 5:
            return '(-%s)' % self.expr('num', d - 1)
        if c == 6:
            return 'len(%s)' % self.expr(self.pick(['str', ('list', 'num'), ('dict', 'num')]), d - 1)
        if c == 7:
            f = self.pick(['int', 'round', 'floor', 'ceil', 'abs'])
            if f == 'round' and r.random() < 0.5:
                return 'round(%s, %s)' % (self.expr('num', d - 1), self.pick(['0', '1', '2', '5']))
            return '%s(%s)' % (f, self.expr('num', d - 1))
        if c == 8:
            return '%s(%s)' % (self.pick(['sum', 'min', 'max']), self.nonempty_list('num', d - 1))
        if c == 9:
            return '%s[%s]' % (self.nonempty_list('num', d - 1), self.pick(['0', '-1', '0.9', '1', 'True']))
        if c == 10:
            return '(%s if %s else %s)' % (self.expr('num', d - 1), self.expr('bool', d - 1), self.expr('num', d - 1))
        if c == 11:
            return 'get(%s, %s, %s)' % (self.expr(('dict', 'num'), d - 1), self.keylit(), self.expr('num', d - 1))
        if c == 12:
            return '%s(%s, %s)' % (self.pick(['min', 'max']), self.expr('num', d - 1), self.expr('num', d - 1))
        if c == 13:
            return '(%s | reduce((p, q) => p + q))' % self.nonempty_list('num', d - 1)
        if c == 14 and not self.f.get('nopow'):
            return '(%s ** %s)' % (self.expr('num', d - 1), self.pick(['2', '3', '0', '1', '0.5', '-1', '10']))
        if c == 15:
            return 'index_of(%s, %s)' % (self.expr(('list', 'num'), d - 1), self.expr('num', d - 1))
        if c == 16:
            return '(%s(%s))' % (self.lam(['num'], 'num', d - 1), self.expr('num', d - 1)) if False else self.leaf('num')
        return self.leaf('num')

    def nonempty_list(self, t, d):
        return '[' + ', '.join(self.expr(t, d - 1) for _ in range(self.r.randrange(1, 4))) + ']'

    def e_str(self, d):
        r = self.r
        c = r.randrange(14)
        if c < 3:
            return '(%s + %s)' % (self.expr('str', d - 1), self.expr(self.pick(['str', 'num', 'bool', 'none', ('list', 'num'), 'any']), d - 1))
        if c == 3:
            return '%s(%s)' % (self.pick(['lower', 'upper', 'strip', 'reversed']), self.expr('str', d - 1))
        if c == 4:
            return 'str(%s)' % self.e_any(d - 1)
        if c == 5:
            return 'replace(%s, %s, %s)' % (self.expr('str', d - 1), self.pick(['"a"', '"X"', '" "', '"b"']), self.expr('str', d - 1))
        if c == 6:
            return 'join(%s, %s)' % (self.expr(('list', self.pick(['num', 'str'])), d - 1), self.pick(['","', '""', '" "']))
        if c == 7:
            return '%s[%s]' % (self.pick(['"abc"', '"Hello"']), self.pick(['0', '1', '-1', '2', '1.7']))
        if c == 8:
            return '%s[%s:%s]' % (self.expr('str', d - 1), self.pick(['', '0', '1', '-2']), self.pick(['', '2', '-1', '10']))
        if c == 9:
            return 'pretty(%s)' % self.expr(self.pick(['num', ('list', 'num'), ('dict', 'num'), 'str']), d - 1)
        if c == 10:
            return '(%s if %s else %s)' % (self.expr('str', d - 1), self.expr('bool', d - 1), self.expr('str', d - 1))
        if c == 11:
            return '%s.upper().lower()' % self.leaf('str')
        if c == 12:
            return '(%s | strip)' % self.expr('str', d - 1)
        return self.leaf('str')

    def e_bool(self, d):
        r = self.r
        c = r.randrange(12)
        if c < 3:
            t = self.pick(['num', 'num', 'str'])
            return '(%s %s %s)' % (self.expr(t, d - 1), self.pick(['==', '!=', '<', '>', '<=', '>=']), self.expr(t, d - 1))
        if c == 3:
            return '(%s %s %s)' % (self.expr('bool', d - 1), self.pick(['and', 'or']), self.expr('bool', d - 1))
        if c == 4:
            return '(not %s)' % self.e_any(d - 1)
        if c == 5:
            return '(%s %s %s)' % (self.expr('num', d - 1), self.pick(['in', 'not in']), self.expr(('list', 'num'), d - 1))
        if c == 6:
            return '(%s %s %s)' % (self.pick(STR_LITS), self.pick(['in', 'not in']), self.expr('str', d - 1))
        if c == 7:
            return '%s(%s, %s)' % (self.pick(['startswith', 'endswith']), self.expr('str', d - 1), self.pick(STR_LITS))
        if c == 8:
            return '(%s %s %s)' % (self.keylit(), self.pick(['in', 'not in']), self.expr(('dict', 'num'), d - 1))
        if c == 9:
            return '(%s == %s)' % (self.e_any(d - 1), self.e_any(d - 1))
        if c == 10:
            return '(%s == %s)' % (self.expr(('list', 'num'), d - 1), self.expr(('list', 'num'), d - 1))
        return self.leaf('bool')

    def e_none(self, d):
        return 'None'

    def e_fun(self, d):
        return self.lam(['num'], 'num', d)

    def lam(self, ptypes, rt, d):
        ps = [self.pick(['v', 'w', 'u', 'p', 'q']) + str(i) for i, _ in enumerate(ptypes)]
        if self.env and self.r.random() < 0.25:
            # a parameter that shadows an outer / host name of the program
            ps[0] = self.pick(sorted(self.env))
        saved = dict(self.env)
        for p, t in zip(ps, ptypes):
            self.env[p] = t
        self.lam_depth += 1
        body = self.expr(rt, d - 1)
        self.lam_depth -= 1
        self.env = saved
        if len(ps) == 1 and self.r.random() < 0.6:
            return '(%s => %s)' % (ps[0], body)
        return '((%s) => %s)' % (', '.join(ps), body)

    def container(self, t, d):
        r = self.r
        kind, el = t
        if kind == 'list':
            c = r.randrange(14)
            if c < 3:
                n = r.randrange(0, 4)
                return '[' + ', '.join(self.expr(el, d - 1) for _ in range(n)) + ']'
            if c == 3:
                return '(%s + %s)' % (self.expr(t, d - 1), self.expr(t, d - 1))
            if c == 4:
                return '%s[%s:%s]' % (self.expr(t, d - 1), self.pick(['', '0', '1', '-2', '0.5']), self.pick(['', '2', '-1', '10']))
            if c == 5 and el in ('num', 'str'):
                return 'sorted(%s%s)' % (self.expr(t, d - 1), self.pick(['', ', None, True', ', None, False']))
            if c == 6:
                return 'reversed(%s)' % self.expr(t, d - 1)
            if c == 7:
                return '(%s | map(%s))' % (self.expr(('list', 'num'), d - 1), self.lam(['num'], el, d - 1))
            if c == 8:
                return '(%s | filter(%s))' % (self.expr(t, d - 1), self.lam([el], 'bool', d - 1))
            if c == 9 and el == 'num':
                return 'values(%s)' % self.expr(('dict', 'num'), d - 1)
            if c == 10 and el == 'str':
                return self.pick(['keys(%s)' % self.expr(('dict', 'num'), d - 1), 'split(%s, %s)' % (self.expr('str', d - 1), self.pick(['","', '" "', '"a"']))])
            if c == 11 and el == 'num':
                # keys that tie (a constant, a coarse bucket) with and without the reverse flag: ties keep their order either way
                key = self.pick([self.lam(['num'], 'num', d - 1), 'v => 0', 'v => v > 1', 'v => round(v)', 'v => len(str(v))'])
                return 'sorted(%s, %s%s)' % (self.expr(t, d - 1), key, self.pick(['', ', True', ', False', ', True']))
            if c == 13 and el == 'str':
                return 'sorted(%s, v => len(v)%s)' % (self.expr(t, d - 1), self.pick(['', ', True', ', True']))
            if c == 12 and el == 'num':
                return '(%s | map((k, v) => v))' % self.expr(('dict', 'num'), d - 1)
            return self.leaf(t)
        else:
            c = r.randrange(6)
            if c < 3:
                n = r.randrange(0, 3)
                return '{' + ', '.join('%s: %s' % (self.keylit(), self.expr(el, d - 1)) for _ in range(n)) + '}'
            if c == 3:
                return 'sorted(%s)' % self.expr(t, d - 1)
            if c == 4 and el == 'num':
                return 'sorted(%s, (k, v) => %s, %s)' % (self.expr(t, d - 1), self.pick(['0', 'v > 1', 'len(k)']), self.pick(['True', 'False', 'True']))
            return self.leaf(t)

    # ---- statements ----------------------------------------------------------------------
    def stmt(self, d):
        r = self.r
        c = r.randrange(16)
        lists = [n for n, t in self.env.items() if isinstance(t, tuple) and t[0] == 'list']
        dicts = [n for n, t in self.env.items() if isinstance(t, tuple) and t[0] == 'dict']
        nums = self.vars_of('num')
        if c < 4 or not self.env:
            t = self.pick(['num', 'num', 'str', 'bool', ('list', 'num'), ('list', 'num'), ('dict', 'num'), ('list', ('list', 'num')), 'fun'])
            n = self.pick(NAMES)
            e = self.expr(t, d)
            self.env[n] = t
            return '%s = %s' % (n, e)
        if c == 4 and nums:
            return '%s %s %s' % (self.pick(nums), self.pick(['+=', '-=', '*=', '/=']), self.expr('num', d - 1))
        if c == 5 and lists:
            n = self.pick(lists)
            return '%s.push(%s)' % (n, self.expr(self.env[n][1], d - 1))
        if c == 6 and lists:
            n = self.pick(lists)
            return self.pick(['%s.pop()' % n, 'pop(%s, %s)' % (n, self.pick(['0', '-1', '1', '5'])),
                              'insert(%s, %s, %s)' % (n, self.pick(['0', '1', '-1', '9', '1.5']), self.expr(self.env[n][1], d - 1)),
                              'remove(%s, %s)' % (n, self.expr(self.env[n][1], d - 1))])
        if c == 7 and lists:
            n = self.pick(lists)
            return '%s[%s] = %s' % (n, self.pick(['0', '-1', '1', '0.5', '7']), self.expr(self.env[n][1], d - 1))
        if c == 8 and dicts:
            n = self.pick(dicts)
            return '%s[%s] = %s' % (n, self.keylit(), self.expr(self.env[n][1], d - 1))
        if c == 9 and (dicts or lists):
            n = self.pick(dicts + lists)
            k = self.keylit() if n in dicts else self.pick(['0', '-1', '1'])
            if self.env[n][1] == 'num':
                return '%s[%s] %s %s' % (n, k, self.pick(['+=', '-=', '*=']), self.expr('num', d - 1))
        if c == 10 and (dicts or lists):
            n = self.pick(dicts + lists)
            return 'del %s[%s]' % (n, self.keylit() if n in dicts else self.pick(['0', '-1', '1', '5']))
        if c == 11 and lists:
            n = self.pick(lists)
            return '%s += %s' % (n, self.expr(self.env[n], d - 1))
        if c == 12:
            strs = self.vars_of('str')
            if strs:
                return '%s += %s' % (self.pick(strs), self.e_any(d - 1))
        if c == 13:
            funs = self.vars_of('fun')
            if funs:
                return '%s(%s)' % (self.pick(funs), self.expr('num', d - 1))
        if c == 14:
            return self.pick(['# comment', ''])
        return self.expr(self.pick(['num', 'str', 'bool', ('list', 'num'), ('dict', 'num'), 'any']), d)

    def program(self, nlines, d):
        return '\n'.join(self.stmt(d) for _ in range(nlines))


def host_value(r, depth=2):
    c = r.randrange(12)
    if c == 0:
        return r.choice([0, 1, -1, 7, 10 ** 12, 3])
    if c == 1:
        return Decimal(r.choice(['0', '1', '-2.5', '1E+2', '0.10', '123456789012345678901234567890.5']))
    if c == 2:
        return r.choice(['', 'a', 'Hello', 'a b', '1'])
    if c == 3:
        return r.choice([True, False, None])
    if c == 4:
        return r.choice([0.5, 2.0, 1e10, 0.1])
    if depth > 0 and c in (5, 6, 7):
        return [host_value(r, depth - 1) for _ in range(r.randrange(0, 4))]
    if depth > 0 and c in (8, 9):
        return {r.choice(['a', 'b', '1', 'k']): host_value(r, depth - 1) for _ in range(r.randrange(0, 3))}
    if c == 10:
        return [1, 2, 3]
    return Decimal(r.randrange(-5, 20))


def type_of_host(v):
    if isinstance(v, bool):
        return 'bool'
    if v is None:
        return 'none'
    if isinstance(v, (int, Decimal, float)):
        return 'num'
    if isinstance(v, str):
        return 'str'
    if isinstance(v, list):
        if all(isinstance(x, (int, Decimal)) and not isinstance(x, bool) for x in v):
            return ('list', 'num')
        return ('list', 'any')
    if isinstance(v, dict):
        if all(isinstance(x, (int, Decimal)) and not isinstance(x, bool) for x in v.values()):
            return ('dict', 'num')
        return ('dict', 'any')
    return 'any'


def random_scenario(seed, nlines=None, depth=3, ncalls=None):
    r = random.Random(seed)
    names = {}
    for n in r.sample(['h1', 'h2', 'h3', 'hl', 'hd'], r.randrange(0, 4)):
        names[n] = host_value(r)
    if len(names) >= 2 and r.random() < 0.3:
        ks = sorted(names)
        names[ks[0]] = names[ks[1]]          # two names, one object
    host = {}
    if r.random() < 0.4:
        host['t1'] = {'h': 'probe', 'ret': r.choice([Decimal(3), 0, True, 'p', None]), 'raises': r.random() < 0.15}
    if r.random() < 0.2:
        host['hcall'] = {'h': 'call', 'mode': r.choice(['propagate', 'swallow'])}
    env = {k: type_of_host(v) for k, v in names.items()}
    env = {k: t for k, t in env.items() if t != 'any' and not (isinstance(t, tuple) and t[1] == 'any')}
    g = Gen(r, env=env, hostfns=[k for k, b in host.items() if b['h'] == 'probe' and isinstance(b['ret'], Decimal)],
            features={'nopow': r.random() < 0.5})
    calls = []
    for _ in range(ncalls or r.choice([1, 1, 1, 2, 3])):
        src = g.program(nlines or r.randrange(1, 6), depth)
        if 'hcall' in host and r.random() < 0.7:
            src += '\nhcall(%s, %s)' % (g.lam(['num'], 'num', 2), g.expr('num', 1))
        calls.append({'src': src, 'n': 0, 'max': r.choice([None, None, 3, 8, 15, 30, 60, 200, 1000])})
    return {'names': [names], 'host': host, 'calls': calls, 'seed': seed}


def failing_programs(seed, n):
    """Random programs with language-level failures planted at random expression positions and as
    statements (undefined names in reads / calls / compound assignments, missing keys and indices,
    empty pop, non-container arguments), under budgets that may also run out."""
    out = []
    for i in range(n):
        r = random.Random(seed * 7919 + i)
        names = {'hl0': [1, 2], 'hd0': {'a': 1}}
        host = {}
        if r.random() < 0.3:
            host['hcall'] = {'h': 'call', 'mode': r.choice(['propagate', 'swallow'])}
        g = Gen(r, env={'hl0': ('list', 'num'), 'hd0': ('dict', 'num')}, features={'fail': r.choice([0.05, 0.15, 0.3]), 'nopow': True})
        lines = []
        for _ in range(r.randrange(1, 5)):
            c = r.randrange(10)
            if c == 0:
                lines.append(r.choice(['u1 += 1', 'u2 *= 2', 'hd0["zz"] += 1', 'hl0[9] -= 1', 'u3 -= %s' % g.expr('num', 1)]))
            else:
                lines.append(g.stmt(r.randrange(1, 4)))
        if 'hcall' in host:
            lines.append('hcall(%s, 1)' % g.lam(['num'], 'num', 2))
        out.append({'names': [names], 'host': host, 'calls': [{'src': '\n'.join(lines), 'n': 0, 'max': r.choice([None, 300, 40, 12])}]})
    return out
