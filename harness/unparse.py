"""Specification tree (CONVENTIONS.md JSON form) -> smartquery source text, fully
parenthesised so that no precedence question arises, and spec values -> Python objects."""
from decimal import Decimal

from .common import uncps


class NotExpressible(Exception):
    pass


def dec_text(v):
    if v['sign'] or v['exp'] > 0:
        raise NotExpressible('literal %r' % (v,))
    digs = ''.join(str(d) for d in v['digs'])
    e = -v['exp']
    if e == 0:
        return digs
    if len(digs) <= e:
        digs = '0' * (e - len(digs) + 1) + digs
    return digs[:-e] + '.' + digs[-e:]


def str_text(cps):
    s = uncps(cps)
    if any(c in s for c in '"\\\n\r') or s.startswith('r"'):
        raise NotExpressible('string %r' % s)
    return '"' + s + '"'


def val_text(v):
    t = v['t']
    if t == 'none':
        return 'None'
    if t == 'bool':
        return 'True' if v['b'] else 'False'
    if t == 'dec':
        return dec_text(v)
    if t == 'str':
        return str_text(v['s'])
    raise NotExpressible('literal of type ' + t)


PRIMARY = ('val', 'name')


def expr(n):
    k = n['k']
    if k == 'val':
        return val_text(n['v'])
    if k == 'name':
        return n['name']
    if k == 'bin':
        return '(%s %s %s)' % (expr(n['ch'][0]), n['op'], expr(n['ch'][1]))
    if k == 'un':
        return '(%s %s)' % ('-' if n['op'] == '-' else 'not', expr(n['ch'][0]))
    if k == 'if':
        return '(%s if %s else %s)' % (expr(n['ch'][1]), expr(n['ch'][0]), expr(n['ch'][2]))
    if k == 'dict':
        ch = n['ch']
        if not ch:
            raise NotExpressible('empty DictOp')      # {} parses to dict()
        return '{' + ', '.join('%s: %s' % (expr(ch[i]), expr(ch[i + 1])) for i in range(0, len(ch), 2)) + '}'
    if k == 'lambda':
        if any(p == '?' for p in n['params']) or not n['params']:
            raise NotExpressible('lambda parameters')
        if len(n['params']) == 1:
            # '(p) => e' is derivable but the LALR(1) tables reject it (finding ParenSingleParamRejected)
            return '(%s => %s)' % (n['params'][0], expr(n['ch'][0]))
        return '((%s) => %s)' % (', '.join(n['params']), expr(n['ch'][0]))
    if k == 'call':
        name, ch = n['name'], n['ch']
        if name == 'list':
            return '[' + ', '.join(expr(c) for c in ch) + ']'
        if name == 'dict' and not ch:
            return '{}'
        if name == '__getitem__' and len(ch) == 2:
            return '%s[%s]' % (primary(ch[0]), index(ch[1]))
        # in expression position the index helpers are ordinary calls by name (same tree)
        return '%s(%s)' % (name, ', '.join(expr(c) for c in ch))
    raise NotExpressible('node kind %s in expression position' % k)


def primary(n):
    e = expr(n)
    if n['k'] in PRIMARY or e.startswith('(') or e.startswith('[') or e.startswith('{') or n['k'] == 'call':
        return e
    return '(' + e + ')'


def index(n):
    if n['k'] == 'slice':
        parts = []
        for c in n['ch']:
            parts.append('' if (c['k'] == 'val' and c['v']['t'] == 'none') else expr(c))
        if parts[2] == '':
            return '%s:%s' % (parts[0], parts[1])
        # the grammar has eight slice forms only; with a step just '::c' (a[1:2:3] is a syntax error)
        if parts[0] == '' and parts[1] == '':
            return '::' + parts[2]
        raise NotExpressible('slice with a step and a bound')
    return expr(n)


def statement_form(n):
    name, ch = n['name'], n['ch']
    return (name == '__setitem__' and len(ch) == 3) or (name == '__delitem__' and len(ch) == 2) or \
        (name == '__setitem_with_op__' and len(ch) == 4 and ch[2]['k'] == 'val' and ch[2]['v']['t'] == 'str')


def stmt(n):
    k = n['k']
    if k == 'assign':
        return '%s = %s' % (n['name'], expr(n['ch'][0]))
    if k == 'short':
        return '%s %s %s' % (n['name'], n['op'], expr(n['ch'][0]))
    if k == 'noop':
        # t_COMMENT discards the token, so no source text produces a NoOp node
        raise NotExpressible('NoOp')
    if k == 'call' and statement_form(n):
        name, ch = n['name'], n['ch']
        if name == '__setitem__':
            return '%s[%s] = %s' % (primary(ch[0]), expr(ch[1]), expr(ch[2]))
        if name == '__delitem__':
            return 'del %s[%s]' % (primary(ch[0]), expr(ch[1]))
        return '%s[%s] %s %s' % (primary(ch[0]), expr(ch[1]), uncps(ch[2]['v']['s']), expr(ch[3]))
    return expr(n)


def program(tree):
    if tree['k'] != 'code':
        raise NotExpressible('root is not a code node')
    return '\n'.join(stmt(c) for c in tree['ch'])


def strip_ids(t):
    if isinstance(t, dict):
        return {k: strip_ids(v) for k, v in t.items() if k != 'id'}
    if isinstance(t, list):
        return [strip_ids(x) for x in t]
    return t


# ---- spec values -> Python objects (initial host bindings of TLC-generated scenarios) ----
def py_value(v, heap, memo, hostfns=None):
    t = v['t']
    if t == 'none':
        return None
    if t == 'bool':
        return v['b']
    if t == 'dec':
        d = Decimal((v['sign'], tuple(v['digs']), v['exp']))
        return d            # host-supplied decimals are plain decimal.Decimal
    if t == 'int':
        n = int(''.join(str(d) for d in v['digs']))
        return -n if v['sign'] else n
    if t == 'str':
        return uncps(v['s'])
    if t == 'float':
        return float(uncps(v['repr']))
    if t == 'tuple':
        return tuple(py_value(x, heap, memo, hostfns) for x in v['items'])
    if t in ('list', 'dict'):
        a = v['addr']
        if a in memo:
            return memo[a]
        obj = heap[a - 1]
        if t == 'list':
            out = memo[a] = []
            out.extend(py_value(x, heap, memo, hostfns) for x in obj['items'])
        else:
            out = memo[a] = {}
            for k, x in obj['items']:
                out[int(uncps(k[1:])) if k and k[0] == -2 else uncps(k)] = py_value(x, heap, memo, hostfns)
        return out
    if t == 'hostfn':
        return ('hostfn', v['name'])
    raise NotExpressible('initial value of type ' + t)
