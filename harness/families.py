"""Scenario families (direction B drivers): Python generators of scenarios for vmrun."""
import random
from decimal import Decimal

from . import vmgen


def budget_sweep(seed, n_programs):
    """Random programs, each first measured with a huge budget; returned as a function that,
    given the measured op counts, yields the boundary budgets."""
    scns = []
    for i in range(n_programs):
        s = vmgen.random_scenario(seed * 100003 + i, ncalls=1)
        s['calls'][0]['max'] = 10 ** 6
        scns.append(s)
    return scns


def boundary_budgets(scn, ops):
    out = []
    for mx in sorted({1, 2, max(1, ops - 1), max(1, ops), ops + 1, ops + 2}):
        s = {'names': scn['names'], 'host': scn['host'], 'calls': [dict(scn['calls'][0], max=mx)], 'seed': scn.get('seed')}
        out.append(s)
    return out


LAMS = ['v => v + 1', 'v => t1()', 'v => [v, v] | map(w => w * 2)', 'v => v if v else 0', '(v, w) => v', 'v => f(v + 1)', 'v => [1, 2, 3, 4, 5, 6] | map(w => f(w))']
USES = ['f(1)', '[1, 2, 3] | map(f)', 'hcall(f, 2)', 'sorted([3, 1, 2], f)', '[1, 2] | filter(f)', 't1()\nf(0)', 'g = f\ng(5)']


def closure_sessions(seed, n, more_calls=False):
    """Two- and three-call histories sharing one names mapping: a lambda defined by an
    earlier call is invoked (directly, through map/filter/sorted, through a host callback)
    by later calls under small budgets."""
    r = random.Random(seed)
    out = []
    for i in range(n):
        lam = r.choice(LAMS)
        calls = [{'src': 'f = ' + lam, 'n': 0, 'max': r.choice([3, 4, 5, 100])}]
        for _ in range(r.choice([2, 3, 3] if more_calls else [1, 1, 2])):
            calls.append({'src': r.choice(USES), 'n': 0, 'max': r.choice([2, 3, 4, 5, 6, 8, 12, 30])})
        host = {'t1': {'h': 'probe', 'ret': Decimal(1), 'raises': False},
                'hcall': {'h': 'call', 'mode': r.choice(['propagate', 'swallow'])}}
        out.append({'names': [{}], 'host': host, 'calls': calls, 'fresh': False})
    return out


def spelling_histories(seed, n):
    """Results must not depend on what the process evaluated before: 3-6 calls (on fresh and on shared names mappings, on the
    shared and on a caching parser) in which numerically equal numbers are written differently (2.5 / 2.50, 1 / 1.0 / 1.00,
    0 / -0 / 0.0, 4 / 2 * 2) and used as dict keys, subscripts, str() / join arguments, set members of `in`, sort keys."""
    r = random.Random(seed)
    nums = [['2.5', '2.50', '2.500', '5 / 2'], ['1', '1.0', '1.00', '2 - 1'], ['0', '0.0', '-0', '0.00', '1 - 1'], ['4', '4.0', '4.00', '2 * 2'], ['3', '3.0', '6 / 2']]
    out = []
    for _ in range(n):
        g = r.choice(nums)
        calls = []
        for _ in range(r.randrange(3, 7)):
            a, b = r.choice(g), r.choice(g)
            src = r.choice(['keys({%s: 0})' % a, 'd = {%s: "x"}\nd[%s]' % (a, b), 'd = {}\nd[%s] = 1\nd[%s] = 2\nd' % (a, b), 'str(%s)' % a, '"" + %s' % a,
                            'get({%s: 7}, %s)' % (a, b), '%s in {%s: 1}' % (a, b), '[%s, %s] | join(",")' % (a, b), 'del e[%s]\ne' % a, 'e[%s] = 5\ne' % a,
                            'e[%s] += 1\ne' % a, 'sorted({%s: 1, "z": 2})' % a, '%s == %s' % (a, b), 'k = %s\n{k: k}' % a, 'pretty({%s: %s})' % (a, b),
                            'items({%s: [%s]})' % (a, b), 'x = [%s, %s]\nindex_of(x, %s)' % (a, b, r.choice(g))])
            calls.append({'src': src, 'n': r.choice([0, 0, 1]), 'max': 100})
        out.append({'names': [{'e': {'1': 1, '2.5': 2, '0': 3}}, {'e': {'4': 1}}], 'host': {}, 'calls': calls, 'cache': r.random() < 0.3})
    return out


def cached_ast_sessions(seed, n):
    """A caching parser, host-built ast_names entries obtained by parsing the SAME text several times (with a retaining cache: the
    same tree object under several names), programs that mutate one binding and read the other, at budgets around the need."""
    r = random.Random(seed)
    out = []
    for _ in range(n):
        body = r.choice(['[1, 2]', '{"a": [1]}', '[[1], [2]]', 'v => [v]', '[1, 2] | map(v => v + 1)'])
        prog = r.choice(['push(x, 3)\n[x, y]', 'x[0] = 9\ny', 'push(x, 1)\npush(y, 2)\n[x, y]', '[x, y]', 'x == y'] if '=>' not in body else ['[x(1), y(2)]', 'push(x(1), 5)\ny(1)'])
        calls = [{'src': prog, 'n': 0, 'max': 1000, 'ast': [['x', body], ['y', body]], 'measure': True}]
        for _ in range(r.choice([1, 2])):
            calls.append({'src': prog, 'n': r.choice([0, 1]), 'max': None, 'ast': [['x', body], ['y', body]], 'delta': r.choice([-1, 0, 0, 1, 50])})
        out.append({'names': [{}, {}], 'host': {}, 'calls': calls, 'cache': r.random() < 0.7})
    return out


def near_duplicate_name_sessions(seed, n):
    """C18 on a caching parser: texts that differ only in the blanks inside a %...% name (different names!) evaluated one after
    the other; list_names is recorded for every call and every name requested from the host must be among those it listed."""
    r = random.Random(seed)
    out = []
    for _ in range(n):
        a = r.choice(['first name', 'a b', 'x  y', 'p\tq', 'total amount'])
        b = r.choice([a.replace(' ', '  '), a.replace(' ', '\t'), a.replace('  ', ' '), ' ' + a, a + ' '])
        tmpl = r.choice(['%%%s%% + x', 'x = %%%s%%\nx', '[%%%s%%, x]', 'len("" + %%%s%%)'])
        names = {'%' + a + '%': 2, '%' + b + '%': 5, 'x': 1}
        calls = [{'src': tmpl % r.choice([a, b]), 'n': 0, 'max': 100} for _ in range(r.randrange(2, 5))]
        out.append({'names': [names], 'host': {}, 'calls': calls, 'cache': r.random() < 0.8, 'list_names': True, 'listed_all': True})
    return out


def reentrant_sessions(seed, n):
    """A host function that itself calls parser.eval (own names mapping, own small budget, swallowing every Exception) is called
    from the middle of a program that goes on evaluating lambdas afterwards: every evaluation is charged to its own call."""
    r = random.Random(seed)
    inner = ['1 + 1', 'undefined_name', '[1, 2, 3] | map(v => v + 1)', '[1, 2, 3, 4, 5, 6] | map(v => v * 2) | map(v => v)', 'z = 5\nz', '1 / 0',
             'f = v => f(v)\nf(1)', 'pop([])']
    outer = ['he()\n[1, 2, 3] | map(v => v + 1)', 'a = he()\nf = v => v * 2\n[f(1), f(2), a]', '[1, 2] | map(v => he())\n[3, 4] | map(v => v)',
             'g = v => [v, he()]\ng(1)\n[1, 2, 3] | filter(v => v > 1)', 'sorted([3, 1, 2], v => 0 - v)\nhe()\nsorted([3, 1, 2], v => v)',
             'he(); he()\nreduce([1, 2, 3], (a, b) => a + b)']
    out = []
    for _ in range(n):
        host = {'he': {'h': 'eval', 'src': r.choice(inner), 'n': 1, 'max': r.choice([3, 5, 8, 100])}}
        src = r.choice(outer)
        calls = [{'src': src, 'n': 0, 'max': 1000, 'measure': True}]
        for _ in range(r.choice([1, 2, 3])):
            calls.append({'src': src, 'n': 0, 'max': None, 'delta': r.choice([-3, -1, 0, 0, 1, 100])})
        out.append({'names': [{}, {}], 'host': host, 'calls': calls})
    return out


def cached_repeat_sessions(seed, n):
    """The same syntax tree evaluated by several eval calls under different budgets: a caching parser given the same text
    again (first generously, then at need - 1, need, need + 1 ... of the FIRST run), and host-built ast_names lambdas whose
    node objects are reused by every call.  Budgets are per call whatever an earlier call did with the same tree."""
    r = random.Random(seed)
    progs = ['[1, 2, 3] | map(v => v + 1)', 'f = v => v * 2\n[1, 2, 3, 4] | map(f) | filter(v => v > 2)', 'sorted([3, 1, 2], v => 0 - v)',
             'g = (a, b) => a + b\nreduce([1, 2, 3], g)', 'f = v => [v, v] | map(w => w + 1)\nf(1)\nf(2)', 'hcall(v => v + 1, 2)',
             'x = [1, 2] | map(v => t1())\nx', 'k = v => v if v else 0\n[0, 1, 2] | map(k) | map(k)']
    out = []
    for i in range(n):
        host = {'t1': {'h': 'probe', 'ret': Decimal(1), 'raises': False}, 'hcall': {'h': 'call', 'mode': r.choice(['propagate', 'swallow'])}}
        if r.random() < 0.6:
            src = r.choice(progs)
            calls = [{'src': src, 'n': 0, 'max': 1000, 'measure': True}]
            for _ in range(r.choice([2, 3, 4])):
                calls.append({'src': src, 'n': r.choice([0, 0, 1]), 'max': None, 'delta': r.choice([-3, -1, -1, 0, 0, 1, 5, 1000])})
            out.append({'names': [{}, {}], 'host': host, 'calls': calls, 'cache': True, 'relative_budgets': True})
        else:
            body = r.choice(['v + 1', '[v, v] | map(w => w * 2)', 'v if v else 0', 't1()'])
            use = r.choice(['f(1)', '[1, 2, 3] | map(f)', 'f(f(1))' if 'map' not in body else 'f(1)', 'sorted([2, 1], f)'])
            calls = [{'src': use, 'n': 0, 'max': 1000, 'ast': [['f', 'v => ' + body]], 'measure': True}]
            for _ in range(r.choice([2, 3])):
                calls.append({'src': use, 'n': 0, 'max': None, 'ast': [['f', 'v => ' + body]], 'delta': r.choice([-2, -1, 0, 0, 1, 1000])})
            out.append({'names': [{}], 'host': host, 'calls': calls, 'ast_shared': True, 'relative_budgets': True})
    return out


# ---- C09: probe expressions -------------------------------------------------------------
def _probe_expr(r, d, ctr):
    def leaf():
        if ctr[0] >= 1 and r.random() < 0.15:
            return 't%d()' % r.randrange(1, ctr[0] + 1)      # the same probe written again (it is then called more than once)
        ctr[0] += 1
        return 't%d()' % ctr[0]
    if d <= 0 or r.random() < 0.25:
        return leaf()
    c = r.randrange(17)
    e = lambda: _probe_expr(r, d - 1, ctr)   # noqa
    if c == 0:
        a = e(); b = e(); return '(%s %s %s)' % (a, r.choice(['and', 'or']), b)
    if c == 1:
        a = e(); b = e(); return '(%s %s %s)' % (a, r.choice(['+', '-', '*', '<', '==', 'in', 'not in', '>=']), b)
    if c == 2:
        return '(%s %s)' % (r.choice(['not', '-']), e())
    if c == 3:
        a = e(); cnd = e(); b = e()      # textual order: then, cond, else
        return '(%s if %s else %s)' % (a, cnd, b)
    if c == 4:
        xs = [e() for _ in range(r.randrange(0, 4))]; return '[' + ', '.join(xs) + ']'
    if c == 5:
        xs = [(e(), e()) for _ in range(r.randrange(1, 3))]; return '{' + ', '.join('%s: %s' % p for p in xs) + '}'
    if c == 6:
        a = e(); b = e(); return '%s[%s]' % (a if a.endswith(')') and not a.startswith('(') else '(' + a + ')', b)
    if c == 7:
        a = leaf(); parts = [e() if r.random() < 0.7 else '' for _ in range(3)]
        return '%s[%s:%s:%s]' % (a, parts[0], parts[1], parts[2])
    if c == 8:
        xs = [e() for _ in range(r.randrange(1, 4))]; return '%s(%s)' % (r.choice(['max', 'min', 'list', 'len', 'str', 'nosuchfn']), ', '.join(xs))
    if c == 9:
        a = leaf(); xs = [e() for _ in range(r.randrange(0, 3))]; return '%s.%s(%s)' % (a, r.choice(['get', 'push', 'index_of']), ', '.join(xs))
    if c == 10:
        a = e(); xs = [e() for _ in range(r.randrange(0, 3))]
        return '(%s | %s(%s))' % (a, r.choice(['get', 'push', 'join']), ', '.join(xs))
    if c == 11:
        a = e(); return '(%s | len)' % a
    if c == 12:
        a = e(); b = e(); return '(%s ** %s)' % (a, b)
    return leaf()


def probe_programs(seed, n, depth=3):
    """Expression and statement forms with a distinct host probe at every leaf; random
    outcomes per probe (truthy/falsy number, string, the host list, the host dict, raises)."""
    r = random.Random(seed)
    out = []
    for i in range(n):
        ctr = [0]
        form = r.randrange(10)
        if form >= 8:
            # target and key are themselves subscripts of host containers, probes only in the inner keys
            def sub(base):
                e = _probe_expr(r, r.choice([0, 0, 1]), ctr)
                return '%s[%s]' % (base, e)
            tgt = r.choice([lambda: sub('nn'), lambda: 'hl', lambda: sub('nn'), lambda: sub(sub('nnn'))])()
            key = r.choice([lambda: '0', lambda: sub('hl'), lambda: sub('hl'), lambda: sub(sub('nn')), lambda: _probe_expr(r, 1, ctr)])()
            src = '%s[%s] %s %s' % (tgt, key, r.choice(['+=', '-=', '*=', '/=', '=']), _probe_expr(r, r.choice([0, 1]), ctr))
        elif form == 0:
            a = 't%d()' % 1; ctr[0] = 1
            src = '%s[%s] = %s' % (a, _probe_expr(r, depth - 1, ctr), _probe_expr(r, depth - 1, ctr))
        elif form == 1:
            a = 't%d()' % 1; ctr[0] = 1
            src = '%s[%s] %s %s' % (a, _probe_expr(r, depth - 1, ctr), r.choice(['+=', '-=', '*=']), _probe_expr(r, depth - 1, ctr))
        elif form == 2:
            a = _probe_expr(r, 1, ctr)
            src = 'del %s[%s]' % (a if not a.startswith('(') else a, _probe_expr(r, depth - 1, ctr))
        elif form == 3:
            src = 'x = %s\ny %s %s' % (_probe_expr(r, depth - 1, ctr), r.choice(['+=', '*=']), _probe_expr(r, depth - 1, ctr))
        else:
            src = _probe_expr(r, depth, ctr)
        hl = [0, 1, 2]
        hd = {'a': 1, '1': 2}
        host = {}
        for k in range(1, ctr[0] + 1):
            o = r.choice(['one', 'zero', 'list', 'dict', 'raise', 'str', 'two', 'none', 'etuple', 'tuple', 'estr', 'elist', 'false', 'fzero'])
            ret = {'one': 1, 'zero': 0, 'list': hl, 'dict': hd, 'raise': 0, 'str': 'a', 'two': Decimal(2), 'none': None, 'etuple': (), 'tuple': (0,),
                   'estr': '', 'elist': [], 'false': False, 'fzero': Decimal('0.0')}[o]
            host['t%d' % k] = {'h': 'probe', 'ret': ret, 'raises': o == 'raise'}
        out.append({'names': [{'y': 1, 'hl': hl, 'hd': hd, 'nn': [[1, 0, 2], [0, 1, 5]], 'nnn': [[[1, 0], [0, 1]], [[2, 1], [1, 0]]]}], 'host': host, 'calls': [{'src': src, 'n': 0, 'max': 300}]})
    return out


# ---- C10: scoping ---------------------------------------------------------------------------
def scoping_programs(seed, n):
    """A name bound at one, two or three levels; nested / re-entrant lambda calls; bodies that
    assign (AST lambdas), bodies that raise inside map/filter/reduce/sorted or under a swallowing
    host callback; host mappings that are exactly equal to a parameter binding."""
    r = random.Random(seed)
    out = []
    for i in range(n):
        X = r.choice(['len', 'x', 'str', 'v'])
        names = {}
        if r.random() < 0.6:
            names[X] = r.choice([7, 2, Decimal(2), 'hv'])
        if r.random() < 0.4:
            names['l'] = [1, 2, 3]
        host = {}
        if r.random() < 0.5:
            host['hcall'] = {'h': 'call', 'mode': r.choice(['swallow', 'propagate'])}
        if r.random() < 0.3:
            host['t1'] = {'h': 'probe', 'ret': 5, 'raises': r.random() < 0.3}
        ast = []
        if r.random() < 0.6:
            body = '\n'.join(r.choice(['%s = 5' % X, '%s += 1' % X, 'y = %s' % X, X, 'undefined_name', 'g()', 'q = [%s]' % X,
                                       'f(p - 1, 9) if p > 0 else %s' % X, 'hcall(g)' if 'hcall' in host else X, 't1()' if 't1' in host else '1'])
                             for _ in range(r.randrange(1, 4)))
            ast.append(('g', {'params': [], 'body': r.choice(['y', X, '%s = 8\n%s' % (X, X), 'nosuch', '1'])}))
            ast.append(('f', {'params': r.choice([[], [X], ['p'], ['p', X]]), 'body': body}))
        lines = []
        for _ in range(r.randrange(1, 5)):
            arg = r.choice(['1', '2', '0', X if X in names else '3'])
            lines.append(r.choice([
                '%s = 3' % X, X, 'f(%s, 2)' % arg if ast else '(%s => %s + 1)(1)' % (X, X) if False else 'h = %s => %s' % (X, X),
                '[%s] | map(%s => %s * 10)' % (arg, X, X), 'r = [2] | map(%s => %s)' % (X, X), 'h(%s)' % arg,
                'hcall(f, %s, 2)' % arg if (ast and 'hcall' in host) else 'z = 1',
                '[1, 2] | map(f)' if ast else 'z = 2', 'sorted([2, 1], f)' if ast else X, '%s("ab")' % X,
                '[3, 1] | filter(%s => undefined_name)' % X, 'w = %s => (q => %s + q)' % (X, X), '[1, 2] | reduce((%s, q) => %s + q)' % (X, X),
                'hcall(%s => nosuch, 1)' % X if 'hcall' in host else '%s = 9' % X, 'k = 7', '{"a": 1} | map((%s, q) => %s)' % (X, X)]))
        call = {'src': '\n'.join(lines), 'n': 0, 'max': r.choice([None, 200, 12, 25])}
        if ast:
            call['ast'] = ast
        calls = [call]
        if r.random() < 0.3:
            calls.append({'src': r.choice(['h(1)', X, 'w(1)', 'r']), 'n': 0, 'max': 50})
        out.append({'names': [names], 'host': host, 'calls': calls})
    return out


# ---- C12 / C13 / C14: containers --------------------------------------------------------------
def nested_value(r, depth=2):
    c = r.randrange(9)
    if depth <= 0 or c < 3:
        return r.choice([1, 2, Decimal('1.5'), 'a', True, None, Decimal(7)])
    if c < 6:
        return [nested_value(r, depth - 1) for _ in range(r.randrange(0, 3))]
    if c < 8:
        return {r.choice(['a', 'b', '1']): nested_value(r, depth - 1) for _ in range(r.randrange(0, 3))}
    return (r.choice([1, 'a']), nested_value(r, depth - 1))


def alias_programs(seed, n):
    """Stores of every form followed by mutations through either side; host objects with shared
    substructure and tuples; values that travelled through items()/enumerate()/+/push."""
    r = random.Random(seed)
    out = []
    for i in range(n):
        inner = nested_value(r, 1) if r.random() < 0.5 else [1]
        h = r.choice([[inner, inner], [inner, nested_value(r, 1)], {'a': inner, 'b': nested_value(r, 1)}, nested_value(r, 2), [[1], [2]], [(1, [2]), (2, [3])]])
        names = {'h': h}
        if r.random() < 0.3:
            names['h2'] = h
        if r.random() < 0.3:
            names['g'] = inner
        vars_ = ['x', 'y', 'c', 'd']
        names['tp'] = ('k', inner)
        if r.random() < 0.15:
            # host data that holds something copy.deepcopy refuses: a store of it fails (TypeError), nothing is shared
            # (scenarios travel to worker processes pickled: the object is made there, see vmrun._materialize)
            h = {'a': inner, 'history': [1, 2], 'lock': {'__verif_make__': 'lock'}} if r.random() < 0.5 else [inner, [1, 2], {'__verif_make__': 'gen'}]
            names['h'] = h
        roots = ['h', 'x', 'y', 'c[0]', 'd["k"]', 'x[0]', 'h[0]', 'y[1]', 'h["a"]', 'x[0][1]', 'c', 'd', 'h2', 'g', 'tp[1]', 'c[0][1]', 'd["k"][1]']
        lines = [r.choice(['x = h', 'x = h[0]', 'x = [h, h]', 'c = [0, 0]\nc[0] = h', 'd = {}\nd["k"] = h', 'x = []\nx += h',
                           'c = [[]]\nc[0] += h', 'x = enumerate(h)', 'x = items(h)', 'x = h\ny = x', 'x = h + h', 'x = []\npush(x, h)',
                           'x = values(h)', 'x = reversed(h)', 'x = sorted(h)', 'y = [g, g]\nx = y', 'x = h[0:1]', 'x = {"k": h}', 'x = h if True else 0',
                           'x = [h] | map(v => v)', 'x = h or 1',
                           # a tuple (from items / enumerate / the host) stored by an item write without passing through a variable
                           'c = [0, 0]\nc[0] = items({"k": h})[0]\nx = c', 'd = {}\nd["k"] = enumerate([h])[0]\nx = d', 'c = [0]\nc[0] = enumerate(h)[0]\nx = c',
                           'c = [[]]\nc[0] += [items({"k": h})[0]]\nx = c', 'c = [0]\nc[0] = tp\nx = c', 'd = {"k": 0}\nd["k"] = tp\nx = d',
                           # a slot that already refers to the object (put there by reference) is assigned that same object: the copy detaches it
                           'c = []\npush(c, h)\nc[0] = h\nx = c', 'c = [0]\ninsert(c, 0, h)\nc[0] = h\nx = c', 'c = [h]\nc[0] = c[0]\nx = c', 'c = []\npush(c, g)\nc[0] = g\nx = c',
                           'd = {"k": 0}\nc = []\npush(c, h)\nd["k"] = c[0]\nc[0] = d["k"]\nx = c'])]
        for _ in range(r.randrange(1, 5)):
            R = r.choice(roots)
            lines.append(r.choice(['push(%s, 9)' % R, 'push(%s[0], 9)' % R, '%s[0] = 7' % R, 'del %s[0]' % R, '%s["a"] = 7' % R, 'pop(%s)' % R,
                                   '%s[0] += [9]' % R, 'insert(%s, 0, 8)' % R, 'remove(%s, 1)' % R, '%s += [5]' % R if '[' not in R else 'push(%s, 5)' % R,
                                   'y = %s' % R, 'c = [%s]' % R, 'd = {"k": %s}' % R, '%s["a"] += [1]' % R, 'push(%s, h)' % R,
                                   'x = %s' % R, '%s[0][1].push(3)' % R if False else 'push(%s[0][1], 3)' % R]))
        lines.append(r.choice(['[x, h]', 'x', 'h', 'len(h)', '[h, c]']))
        calls = [{'src': '\n'.join(lines), 'n': 0, 'max': 400}]
        if r.random() < 0.3:
            calls.append({'src': '\n'.join(['push(%s, 4)' % r.choice(roots), 'y = x', 'push(y, 1)', '[x, y, h]']), 'n': 0, 'max': 200})
        out.append({'names': [names], 'host': {}, 'calls': calls})
    return out


class _HostRecord:
    """A host object with attributes (the specification does not model it)."""

    def __init__(self, **kw):
        self.__dict__.update(kw)

    def __repr__(self):
        return 'HostRecord(%s)' % ', '.join('%s=%r' % kv for kv in sorted(self.__dict__.items()))


class _LazyRegistry(dict):
    """A host mapping that creates entries on a missing subscript (like collections.defaultdict)."""

    def __missing__(self, key):
        self[key] = v = []
        return v


def exotic_host_objects(r):
    import collections
    dd = collections.defaultdict(list, {'x': [1, 2]}) if r.random() < 0.5 else collections.defaultdict(int, {'x': 3})
    reg = _LazyRegistry(a=[1])
    return {'dd': dd, 'od': collections.OrderedDict([('b', 1), ('a', [2])]), 'st': {3, 1, 2}, 'dq': collections.deque([3, 1, 2]),
            'ho': _HostRecord(tags=['t'], n=1), 'reg': reg}


NONMUT = ['len', 'str', 'keys', 'values', 'items', 'sum', 'min', 'max', 'sorted', 'reversed', 'enumerate', 'pretty', 'join', 'list', 'lower',
          'upper', 'strip', 'abs', 'int', 'round', 'floor', 'ceil', 'dict', 'split', 'get', 'index_of', 'startswith', 'endswith', 'replace',
          'map', 'filter', 'reduce', 'shuffle', 'rand', 'match', 'match_all', 'match_groups', 'float', '__getitem__']


def nonmutator_calls(seed, n):
    """Every non-mutator (incl. the relational ones: shuffle, rand, match*) applied to random nested host
    arguments, with key functions and flags, alone and in pipelines; the arguments are host objects so that
    the end-of-call comparison of names sees any modification."""
    r = random.Random(seed)
    out = []
    for i in range(n):
        names = {'a': [nested_value(r, 1) for _ in range(r.randrange(0, 5))],
                 'b': r.choice([[3, 1, 2], [Decimal(2), Decimal(1), Decimal(3), Decimal(1)], ['b', 'a', 'c'], [[2], [1]], [], [1]]),
                 'd': {k: nested_value(r, 1) for k in r.sample(['x', 'y', 'z', '1'], r.randrange(0, 4))},
                 's': r.choice(['b a c', '', 'Hello', 'a,b,,c']), 'n': r.choice([2, Decimal('2.5'), -1]),
                 'nn': [[3, 1], [2]], 'm': {'k': [2, 1]},
                 'ik': r.choice([{1: 'x', 2: [2, 1]}, {2: 'b', 1: 'a', 'k': 3}, {-1: [1], 0: 'z'}, {7: {1: 2}, 'rows': {3: 'c', 2: 'b'}}])}
        names.update(exotic_host_objects(r))
        if r.random() < 0.04:
            names['big'] = [0] * 10001
            names['m2'] = {'rows': names['big']}
            lines_big = r.choice(['max(big, b) | len', 'get(m2, "rows") | len', 'get(m2, "zz", big) | len', 'reduce([big], (p, q) => q, 0) | len', 'rand([big]) | len',
                                  'min([big]) | len', '(v => v)(big) | len', 'len(big)', 'sum([], big) | len' if False else 'str(len(m2["rows"]))'])
        else:
            lines_big = None
        names['rows'] = [[1, 'a'], [2, 'c'], [1, 'b'], [2, 'd'], [1, 'e']]
        names['rd'] = {'p': 1, 'q': 2, 'r': 1, 's': 2}
        args = ['a', 'b', 'd', 's', 'n', 'nn', 'm', 'ik', 'ik', 'm["k"]', 'nn[0]', 'dd', 'od', 'st', 'dq', 'ho', 'reg', 'None', 'True', 'v => 0 - v', 'v => v', '(p, q) => q', 'v => len(v)', '"a"', '" "', '0', '1',
                'v => b', '(p, q) => p + q', 'v => str(v)']
        def call(depth):
            f = r.choice(NONMUT)
            k = r.choice([1, 1, 2, 2, 3])
            xs = []
            for j in range(k):
                if depth > 0 and j == 0 and r.random() < 0.4:
                    xs.append(call(depth - 1))
                else:
                    xs.append(r.choice(args[:17] if j == 0 and r.random() < 0.8 else args + ['2', '7', '-1', '"rows"', 'ik["rows"]', '"missing"', '"x"']))
            form = r.randrange(3)
            if form == 0 or len(xs) == 0 or '=>' in xs[0]:
                return '%s(%s)' % (f, ', '.join(xs))
            if form == 1 and not xs[0].startswith('(') :
                return '(%s | %s(%s))' % (xs[0], f, ', '.join(xs[1:])) if len(xs) > 1 else '(%s | %s)' % (xs[0], f)
            return '%s(%s)' % (f, ', '.join(xs))
        lines = [call(2) for _ in range(r.randrange(1, 4))]
        if lines_big:
            lines = [lines_big, 'len(big)']
        if r.random() < 0.3 and not lines_big:
            # the read-only accessors on host objects of unmodelled types, with present and absent keys
            if r.random() < 0.4:
                # sorting with keys that tie, with and without the reverse flag (rows and dict entries can be told apart)
                lines.insert(r.randrange(len(lines) + 1), r.choice([
                    'sorted(rows, v => v[0], True)', 'sorted(rows, v => v[0])', 'sorted(rows, v => 0, True)', 'rows | sorted(v => len(v[1]), True)',
                    'sorted(rd, (k, v) => v, True)', 'sorted(rd, (k, v) => 0, True) | keys', 'sorted([1.0, 1, 2, 2.0], None, True)', 'sorted(["b", "a", "B"], v => lower(v), True)']))
            x = r.choice(['dd', 'od', 'reg', 'ho', 'st', 'dq', 'ik', 'ik', 'd', 'm'])
            k = r.choice(['"missing"', '"x"', '"a"', '0', '7', 'None', '"b"'])
            if isinstance(names.get(x), dict) and names[x] and r.random() < 0.6:
                kk = r.choice(list(names[x]))           # a key the object really has (text or int)
                k = '"%s"' % kk if isinstance(kk, str) else str(kk)
            lines.insert(r.randrange(len(lines) + 1), r.choice(['get(%s, %s)' % (x, k), '(%s | get(%s, 0))' % (x, k), 'get(%s, %s, [])' % (x, k),
                                                                 'len(%s)' % x, 'str(%s)' % x, 'keys(%s)' % x, 'index_of(%s, %s)' % (x, k),
                                                                 'max(%s)' % x, 'sum(%s)' % x, 'join(%s, ",")' % x, 'values(%s)' % x]))
        out.append({'names': [names], 'host': {}, 'calls': [{'src': '\n'.join(lines), 'n': 0, 'max': 600}]})
    return out


def builtin_matrix(seed, n=None, plain_only=False):
    """Every entry of the builtin table applied to every tuple of <= 2 arguments (and sampled triples) from a pool of host
    values of every plain type and shape: None, booleans, ints, floats, Decimals, strings (empty, non-empty, numeric text),
    lists / tuples / dicts (empty, nested, int-keyed), a key function, plus one unmodelled object.  One call per scenario;
    n = None: all pairs."""
    r = random.Random(seed)
    pool = {'vn': None, 'vt': True, 'vf': False, 'v0': 0, 'v1': 1, 'vm': -2, 'vb': 10 ** 20, 'vx': 1.5, 'vz': 0.0, 'vd': Decimal('2.5'), 've': Decimal('0'),
            'se': '', 'sa': 'ab c', 'sn': '12', 'le': [], 'l1': [3, 1, 2], 'ln': [[2, 'b'], [1, 'a'], [2, 'a']], 'ls': ['b', 'a'],
            'te': (), 't1': (1, [2]), 'de': {}, 'd1': {'b': 1, 'a': [2]}, 'di': {1: 'x', 'k': 2}, 'ob': _HostRecord(n=1)}
    if plain_only:
        del pool['ob']          # C02 is stated for hosts that bind plain data only
    names = sorted(pool)
    lams = ['v => v', '(p, q) => q', 'v => 0']
    fns = sorted(set(NONMUT) | {'push', 'pop', 'insert', 'remove', '__setitem__', '__delitem__', '__setitem_with_op__'})
    progs = []
    for f in fns:
        progs.append('%s()' % f)
        for a in names:
            progs.append('%s(%s)' % (f, a))
            for b in names + lams:
                progs.append('%s(%s, %s)' % (f, a, b))
    triples = []
    for f in fns:
        for _ in range(60):
            triples.append('%s(%s, %s, %s)' % (f, r.choice(names), r.choice(names + lams + ['"+="']), r.choice(names + lams)))
    progs += triples
    # more arguments than any entry takes (4 and 5), incl. flag-like strings, key functions and None: the table entry must refuse them
    for f in fns:
        for _ in range(25):
            k = r.choice([4, 5])
            progs.append('%s(%s)' % (f, ', '.join(r.choice(names + lams + ['"i"', '"+="', '-1', '"x"']) for _ in range(k))))
        progs.append('acc = []\n%s(sa, "b", m => (push(acc, m) or "0"), -1, "i")\nacc' % f)
    if n is not None and n < len(progs):
        must = [p for p in progs if p.startswith('acc = []') or p.count(',') >= 3]       # the over-long calls are always kept
        rest = [p for p in progs if not (p.startswith('acc = []') or p.count(',') >= 3)]
        progs = must + r.sample(rest, max(0, min(len(rest), n - len(must))))
    import copy
    return [{'names': [copy.deepcopy(pool)], 'host': {}, 'calls': [{'src': p, 'n': 0, 'max': 200}]} for p in progs]


# ---- C14: container operation sequences -------------------------------------------------------
C14_KEYS = ['0', '1', '1.0', '1.7', '-1', '-1.5', '5', '"1"', '"a"', 'True', 'None', '-3', '-4']
C14_VALS = ['7', '"z"']


C14_RAW = ['push(L, [])', 'push(L, {})', 'D["e"] = []', 'insert(L, 0, [])', 'L[0] = {}', 'push(L[0], 5)', 'L[0]["n"] = 1', 'D["e"] += [1]',
           'get(D, "zz", [])', 'push(get(D, "zz", []), 1)', '[1, 2] | map(v => push(L, []))', 'L | map(v => len(v) if v == [] else 0)',
           'remove(L, 1.5)', 'remove(L, 2.5)', 'push(L, 1.5)', 'index_of(L, 1.5)', 'remove(L, 1.0)', 'remove(L, True)', 'remove(D, 1)', '1.5 in L',
           'D["e"] = [1]', 'L[0] = items(D)[0]', 'push(D["e"], 9)', 'L[0]', 'D["t"] = enumerate(L)[0]', 'D["t"]', 'L[1] = items(D)[0]\npush(D["e"], 4)\nL[1]',
           'remove(L, 2.0)', 'insert(L, 1, 2.5)', 'remove(L, "1")', 'push(L[len(L) - 1], 7)', 'len(L[0])', 'L[0] == []', 'D | map((k, v) => v)', 'remove(L, [])', 'index_of(L, [])', '[] in L', '{} in L']


def c14_op_src(o):
    if o['f'] == 'raw':
        return C14_RAW[o['k'] - 1]
    c = o['c']
    k = C14_KEYS[o['k'] - 1]
    v = C14_VALS[o['v'] - 1]
    f = o['f']
    return {'read': '%s[%s]' % (c, k), 'write': '%s[%s] = %s' % (c, k, v), 'plus': '%s[%s] += %s' % (c, k, v), 'del': 'del %s[%s]' % (c, k),
            'get': 'get(%s, %s)' % (c, k), 'getd': 'get(%s, %s, %s)' % (c, k, v), 'in': '(%s in %s)' % (k, c),
            'insert': 'insert(%s, %s, %s)' % (c, k, v), 'push': 'push(%s, %s)' % (c, v), 'remove': 'remove(%s, %s)' % (c, v),
            'index_of': 'index_of(%s, %s)' % (c, v), 'pop': 'pop(%s)' % c, 'popi': 'pop(%s, %s)' % (c, k)}.get(f, '%s(%s)' % (f, c))


def c14_all_ops():
    ops = []
    for c in 'LD':
        for k in range(1, 14):
            for f in ('read', 'del', 'get', 'in'):
                ops.append({'f': f, 'c': c, 'k': k, 'v': 1})
            for f in ('write', 'plus', 'getd', 'insert'):
                for v in (1, 2):
                    ops.append({'f': f, 'c': c, 'k': k, 'v': v})
        for f in ('push', 'remove', 'index_of'):
            for v in (1, 2):
                ops.append({'f': f, 'c': c, 'k': 1, 'v': v})
        for f in ('pop', 'len', 'keys', 'values', 'items'):
            ops.append({'f': f, 'c': c, 'k': 1, 'v': 1})
    for k in range(1, 14):
        ops.append({'f': 'popi', 'c': 'L', 'k': k, 'v': 1})
    return ops


def c14_scenario(ops):
    """One eval call per operation on a persistent names mapping (a failing operation does not end
    the sequence), preceded by the call that creates L and D; each call reads L and D at the end."""
    calls = [{'src': 'L = [1, 2]\nD = {"1": 3}', 'n': 0, 'max': 100}]
    for o in ops:
        calls.append({'src': c14_op_src(o), 'n': 0, 'max': 100})
    calls.append({'src': '[L, D, len(L), len(D), keys(D), values(D), items(D)]', 'n': 0, 'max': 100})
    return {'names': [{}], 'host': {}, 'calls': calls}


def c14_random(seed, n, maxlen=12):
    r = random.Random(seed)
    ops = c14_all_ops()
    # besides the model's alphabet: empty containers as elements / values / defaults (each a fresh object), evaluated repeatedly
    raw = [{'f': 'raw', 'c': 'L', 'k': i + 1, 'v': 1} for i in range(len(C14_RAW))]
    return [c14_scenario([r.choice(ops if r.random() < 0.8 else raw) for _ in range(r.randrange(3, maxlen + 1))]) for _ in range(n)]


# ---- C04 / C08: numbers -----------------------------------------------------------------------
def _num_literal(r):
    c = r.randrange(12)
    if c == 0:
        return r.choice(['0', '1', '2', '3', '7', '10', '100', '0.1', '0.2', '0.3', '0.5', '1.5', '2.5', '0.25', '0.125'])
    if c == 1:
        return '9' * r.choice([1, 5, 27, 28, 29, 40])
    if c == 2:
        return '0.' + '0' * r.randrange(0, 30) + str(r.randrange(1, 10 ** r.randrange(1, 12)))
    if c == 3:
        return str(r.randrange(10 ** r.choice([1, 8, 26, 27, 28, 29]))) + '.' + ''.join(r.choice('0123456789') for _ in range(r.randrange(1, 30)))
    if c == 4:      # ties at the 28th significant digit
        return '1' + ''.join(r.choice('0123456789') for _ in range(26)) + r.choice(['05', '15', '25', '50', '49', '51', '5'])
    if c == 5:
        return '1' + '0' * r.choice([1, 5, 27, 28, 30])
    if c == 6:
        return '00' + str(r.randrange(1000)) + '.' + str(r.randrange(1000)) + '00'
    if c == 7:
        return str(r.randrange(1, 1000)) + '.' + '9' * r.choice([1, 5, 27, 28, 29])
    return str(r.randrange(0, 10 ** r.choice([1, 2, 3, 6]))) + r.choice(['', '.5', '.25', '.01', '.333', '.10'])


def _num_expr(r, d, names):
    if d <= 0 or r.random() < 0.2:
        if names and r.random() < 0.35:
            return r.choice(names)
        return _num_literal(r)
    c = r.randrange(14)
    e = lambda: _num_expr(r, d - 1, names)   # noqa
    if c < 6:
        return '(%s %s %s)' % (e(), r.choice(['+', '-', '*', '/', '+', '-']), e())
    if c == 6:
        return '(- %s)' % e()
    if c == 7:
        return '%s(%s)' % (r.choice(['int', 'round', 'floor', 'ceil', 'abs']), e())
    if c == 8:
        return 'round(%s, %s)' % (e(), r.choice(['0', '1', '2', '5', '10', '27', '-1', '30']))
    if c == 9:
        return '%s([%s])' % (r.choice(['sum', 'min', 'max']), ', '.join(e() for _ in range(r.randrange(1, 4))))
    if c == 10:
        return '%s(%s, %s)' % (r.choice(['min', 'max']), e(), e())
    if c == 11:
        return '(%s ** %s)' % (e(), r.choice(['2', '3', '0', '1', '10', '0.5', '-1', '100']))
    if c == 12:
        return 'float(%s)' % e()
    return _num_literal(r)


def numeric_programs(seed, n, host_types=False, depth=3):
    """Expression trees over + - * / unary minus, comparisons and the numeric builtins with boundary
    literals; with host_types also host ints / floats / Decimals / bools (and non-numbers) as operands
    and compound assignment chains."""
    r = random.Random(seed)
    out = []
    for i in range(n):
        names = {}
        if host_types:
            pool = [0, 1, -1, 7, 10 ** 27, 10 ** 28 - 1, 10 ** 28, 10 ** 40, -(10 ** 30), True, False, 0.1, 2.5, 1e300, 5e-324, -0.75, 1e16,
                    Decimal('1E+100'), Decimal('1E-100'), Decimal('9.99E+2999'), Decimal('0'), Decimal('-2.5'), Decimal('9' * 40),
                    Decimal('1E+40'), Decimal('123456789012345678901234567.5'), 'ab', [1, 2], None, Decimal('1E+5'), 12345]
            for k in r.sample(['p', 'q', 'u', 'w'], r.randrange(1, 4)):
                names[k] = r.choice(pool)
        nm = sorted(names)
        lines = []
        for _ in range(r.randrange(1, 4)):
            c = r.randrange(8)
            if c == 0 and nm:
                lines.append('%s %s %s' % (r.choice(nm), r.choice(['+=', '-=', '*=', '/=', '*=', '*=']), _num_expr(r, 1, nm)))
            elif c == 1:
                v = r.choice(['y', 'z'])
                lines.append('%s = %s' % (v, _num_expr(r, depth, nm)))
                names.setdefault(v, None)
                nm = sorted(k for k in names)
            elif c == 2 and nm:
                lines.append('c = [%s]\nc[0] %s %s\nc' % (r.choice(nm), r.choice(['*=', '+=', '/=']), _num_expr(r, 1, nm)))
            elif c == 3:
                lines.append('(%s %s %s)' % (_num_expr(r, depth - 1, nm), r.choice(['==', '<', '<=', '>', '!=', '>=']), _num_expr(r, depth - 1, nm)))
            else:
                lines.append(_num_expr(r, depth, nm))
        names = {k: v for k, v in names.items() if v is not None or k in ('p', 'q', 'u', 'w')}
        out.append({'names': [names], 'host': {}, 'calls': [{'src': '\n'.join(lines), 'n': 0, 'max': 400}]})
    return out


def literal_arithmetic_programs(seed, n):
    """Arithmetic written entirely with literals - numbers, True / False / None, strings, list literals - incl. towers of
    powers and products whose exact value has far more than 28 digits: nothing but the guarded operators may compute them."""
    r = random.Random(seed)
    atoms = ['True', 'False', '2', '3', '10', '0.5', '(True + True)', '(True + True + True)', '-True', '99999999999999999999', '7.25', 'None', '"ab"', '[1, 2]']

    def e(d):
        if d == 0 or r.random() < 0.25:
            return r.choice(atoms)
        op = r.choice(['+', '-', '*', '*', '**', '**', '/'])
        return '(%s %s %s)' % (e(d - 1), op, e(d - 1))
    out = []
    for _ in range(n):
        lines = [e(r.choice([1, 2, 3]))]
        if r.random() < 0.3:
            lines.append('(True + True) ** ((True + True) ** %s)' % r.choice(['7', '(True + True + True)', '(3 + 4)', '9']))
        if r.random() < 0.2:
            lines.append('x = %s\nx * x * x' % e(2))
        out.append({'names': [{}], 'host': {}, 'calls': [{'src': '\n'.join(lines), 'n': 0, 'max': 300}]})
    return out


def shadowed_cast_programs(seed, n):
    """C04 where the numeric-cast builtins are not what their names say: int / float / round / floor / ceil / abs shadowed by a
    host function (identity) or by a lambda of the program, applied to host ints, strings and lists that are then multiplied,
    raised to powers, added - a product computed natively (exact big int, repeated sequence) shows as a value mismatch."""
    r = random.Random(seed)
    casts = ['int', 'float', 'round', 'floor', 'ceil', 'abs']
    pool = [7, -3, 10 ** 15 + 1, 10 ** 20 + 7, 10 ** 30 + 1, 12345678901234567890, 'ab', [1, 2], Decimal('2.5'), True, 3, 40, 2]
    out = []
    for _ in range(n):
        names = {'p': r.choice(pool), 'q': r.choice(pool), 'u': r.choice([2, 3, 40, 61, Decimal(3)])}
        host = {'hcall2': {'h': 'call', 'mode': 'propagate'}}
        lines = []
        sh = r.sample(casts, r.randrange(1, 3))
        for c in sh:
            k = r.random()
            if k < 0.45:
                host[c] = {'h': 'ident'}
            elif k < 0.9:
                lines.append('%s = v => v' % c)
            # else: not shadowed after all (control)
        def cast(x):
            return '%s(%s)' % (r.choice(sh if r.random() < 0.8 else casts), x)
        if r.random() < 0.35:
            op = r.choice(['*', '**', '*', '+'])
            lines.append(r.choice(['reduce([p, q, p, q, p, q], (a, b) => a %s b)' % op, 'm = (a, b) => a %s b\nm(p, q)' % op, 'm = (a, b) => b %s a\nm(m(p, q), q)' % op,
                                   '{"k": p} | map((k, v) => v %s v)' % op, '[[p, q]] | map(v => v[0] %s v[1])' % op, 'hcall2((a, b) => a %s b, p, u)' % op]))
        for _ in range(r.randrange(1, 3)):
            a, b = r.choice(['p', 'q', 'u', '3']), r.choice(['p', 'q', 'u', '3', '61'])
            lines.append(r.choice(['%s * %s' % (cast(a), cast(b)), '%s ** %s' % (cast(a), cast(b)), '%s * %s * %s' % (cast(a), cast(b), cast(a)),
                                   'y = %s\ny *= %s\ny' % (cast(a), cast(b)), '(%s + %s) * %s' % (cast(a), cast(b), cast('u')),
                                   '-%s * %s' % (cast(a), cast(b)), '%s * 3 ** %s' % (cast(a), cast('u')), '[%s][0] * %s' % (cast(a), cast(b))]))
        out.append({'names': [names], 'host': host, 'calls': [{'src': '\n'.join(lines), 'n': 0, 'max': 300}]})
    return out


# ---- C19: random builtins -----------------------------------------------------------------------
def literal_history_programs(seed, n):
    """C08 across calls: earlier evaluations produce binary-float-derived numbers (float of a text or of a quotient, rand, round),
    later programs write the same values as literals; the number tokens of every call are recorded."""
    r = random.Random(seed)
    out = []
    for _ in range(n):
        k = r.choice([1, 3, 7, 9, 11, 13, 17, 19, 23, 29, 31, 33, 37, 41, 43, 47, 49, 51, 57, 61, 99])
        p = r.choice([10, 10, 100, 1000])
        lit = str(k / p)
        first = r.choice(['float(%d / %d)' % (k, p), 'x = %d / %d\nfloat(x)' % (k, p), 'float("%s")' % lit, 'float(h)',
                          'round(float(%d / %d), 20)' % (k, p), 'abs(float(h))', 'float(%s)' % lit])
        later = r.choice(['%s + 0.2 == %s' % (lit, str(Decimal(lit) + Decimal('0.2'))), 'str(%s)' % lit, '%s * 3' % lit, '[%s, %s + %s]' % (lit, lit, lit),
                          '%s == %d / %d' % (lit, k, p), 'y = %s\ny - %s' % (lit, lit), '1 - %s' % lit])
        calls = [{'src': first, 'n': 0, 'max': 50}, {'src': later, 'n': 0, 'max': 50}]
        if r.random() < 0.4:
            calls.append({'src': r.choice(['0.1 + 0.2 == 0.3', '0.1 + 0.2', '%s / 3' % lit, 'float(%s) == %s' % (lit, lit)]), 'n': 0, 'max': 50})
        out.append({'names': [{'h': r.choice([k / p, Decimal(k) / Decimal(p), lit])}], 'host': {}, 'calls': calls, 'literals': True})
    return out


def random_builtin_programs(seed, n, draws=12):
    """Many draws per input: rand(), rand(a, b) over integer-valued bounds of every numeric type
    (Decimal literals, 2.0, 1E+1 style results, host ints, equal / negative / large bounds),
    rand(list), shuffle(list) for lists of length 0..4 incl. nested and duplicate elements."""
    r = random.Random(seed)
    bounds = [(a, b) for a in range(-3, 4) for b in range(a, 4)]
    out = []
    for i in range(n):
        names = {'hi': r.choice([0, 1, 5, 10 ** 9 - 1, 10 ** 9 + 1, 10 ** 30, -(10 ** 12), 2 ** 60 + 1]),
                 'hd': Decimal(r.choice(['2', '2.0', '1E+1', '-3', '0', '7.00'])),
                 'l': r.choice([[], [1], [1, 1], [1, 2, 3], [[1], [1], 2], ['a', 'b', 'a', 'c'], [[1, 2], [3]], [None, True]])}
        names['hj'] = names['hi'] + r.choice([0, 1, 2, 3])
        names['hb'] = Decimal('98765432109876543210987654321')
        c = r.randrange(8)
        if c == 0:
            e = 'rand()'
        elif c in (1, 2):
            a, b = r.choice(bounds)
            e = 'rand(%s, %s)' % (('(- %d)' % -a) if a < 0 else a, ('(- %d)' % -b) if b < 0 else b)
        elif c == 3:
            e = r.choice(['rand(1000000000000000000000000000001, 1000000000000000000000000000003)', 'rand(123456789012345678901234567891, 123456789012345678901234567891)',
                          'rand(hb, hb + 2)', 'rand(hi, hj)', 'rand(hi, hi)', 'rand(hd, hd)', 'rand(0, hd)', 'rand(hd, 20)', 'rand(1.0, 3.0)', 'rand(10 / 5, 6 / 2)',
                          'rand(0 - hj, 0 - hi)', 'rand(len(l), 5)', 'rand(True, 2)'])
        elif c == 4:
            e = 'rand(l)'
        elif c == 5:
            e = 'shuffle(l)'
        elif c == 6:
            e = r.choice(['l[rand(0, len(l) - 1)]', 'shuffle(l)[0]', 'sorted(shuffle([3, 1, 2]))', 'rand(shuffle(l))', 'rand(1, 2, 3)', 'rand("ab")'])
        else:
            e = r.choice(['rand(3, 1)', 'rand(1.5, 3)', 'rand("1", 2)', 'shuffle("abc")', 'shuffle({"a": 1})', 'rand([])', 'shuffle([])'])
        src = '[' + ', '.join([e] * draws) + ']\n[l, hi, hd]'
        out.append({'names': [names], 'host': {}, 'calls': [{'src': src, 'n': 0, 'max': 1000}]})
    return out


# ---- C02: confinement ---------------------------------------------------------------------------
ATTRS = ['upper', 'copy', 'keys', 'append', 'real', 'as_tuple', 'encode', 'format', '__class__', '__len__', 'items', 'split', 'join', 'pop',
         'imag', 'numerator', 'conjugate', 'get', 'sort', 'x', 'name', '0', 'a']


def confinement_programs(seed, n):
    """Every builtin on every shape of argument (attribute-like and format-like strings, callables, nested
    containers, slices) and compositions, plus attribute-like %a.b% names whose head is bound; the host binds
    only plain data, so nothing but plain data, builtins and the program's own lambdas may ever appear."""
    r = random.Random(seed)
    from .checks import SPEC_BUILTINS
    out = []
    for i in range(n):
        names = {'s': r.choice(['abc', '{0.__class__}', '__class__', '%s %r', 'a.b']), 'l': [1, [2, 'x'], {'k': 3}], 'd': {'a': [1, 2], 'b': {'c': None}},
                 'n': r.choice([Decimal('2.5'), 7, 1.5, True]), 'user': {'name': 'bob', 'tags': ['x']}, 't': (1, [2]), 'e': [], 'ed': {}, 'es': ''}
        args = ['s', 'l', 'd', 'n', 'user', 't', 'l[1]', 'd["a"]', 'l[0:2]', 'e', 'ed', 'es', 'filter(l, v => False)', '"__class__"', '"{0.__class__.__mro__}"', '"%s"', 'None', 'True', '0', '-1', '1.5',
                '[]', '{}', 'v => v', 'len', 'str', 'dict', 'list', 'keys', '(p, q) => p', '"a"', 'user["name"]', 'items(d)', 'enumerate(l)']
        lines = []
        for _ in range(r.randrange(1, 4)):
            c = r.randrange(10)
            if c < 5:
                f = r.choice(SPEC_BUILTINS)
                k = r.choice([0, 1, 1, 2, 2, 3])
                lines.append('%s = %s(%s)' % (r.choice(['r1', 'r2']), f, ', '.join(r.choice(args[:13] if j == 0 else args) for j in range(k))))
            elif c == 5:
                f, g = r.choice(SPEC_BUILTINS), r.choice(SPEC_BUILTINS)
                lines.append('r3 = %s(%s(%s))' % (f, g, r.choice(args)))
            elif c == 6:
                lines.append('r4 = (%s | %s | %s)' % (r.choice(args[:9]), r.choice(['keys', 'values', 'items', 'sorted', 'reversed', 'enumerate', 'str', 'len']),
                                                      r.choice(['str', 'len', 'sorted', 'reversed', 'pretty', 'list'])))
            elif c == 7:
                h = r.choice(['s', 'l', 'd', 'n', 'user', 'user.name', 't', 'r1'])
                lines.append(r.choice(['r5 = %%%s.%s%%', '%%%s.%s%%', 'r5 = [%%%s.%s%%]', 'f = %%%s.%s%%\nf()']) % (h, r.choice(ATTRS)))
            elif c == 8:
                lines.append(r.choice(['f = len\nr6 = f(l)', 'g = [str, len, keys]\nr6 = g', 'h = {"f": v => v}\nr6 = h', 'r6 = match("abc", "(b)")',
                                       'r6 = match_groups("abc", "(b)(c)")', 'r6 = match_all("a1b22", "\\\\d+")', 'r6 = [shuffle(l), rand(l)]',
                                       'r6 = sorted(d)', 'r6 = l[::-1] if False else l[0:1]', 'r6 = pretty(user)', 'r6 = "{0.__class__}" + n']))
            else:
                lines.append('r7 = [%s]' % ', '.join(r.choice(args) for _ in range(r.randrange(1, 4))))
        if r.random() < 0.2:
            # the flags argument of the regex builtins with every letter the engine may know (and some it does not)
            fl = ''.join(r.choice('aAbBdDeEfFiILmMpPrRsStTuUvVwWxXzZ01 ') for _ in range(r.randrange(1, 4)))
            lines.append('r8 = %s("aab ab", "a+b", "%s")' % (r.choice(['match', 'match_groups', 'match_all']), fl))
        lines.append('[r1, r2]' if r.random() < 0.3 else 'None')
        out.append({'names': [names], 'host': {}, 'calls': [{'src': '\n'.join(lines), 'n': 0, 'max': 600}]})
    return out


def repo_test_evals():
    """Every eval call the repository's own tests make (source, names, budget), recorded by running the
    suite on a scratch copy with SqParser.eval wrapped; returned as scenarios for the tracer."""
    import os
    import pickle
    import shutil
    import subprocess
    from . import common
    snap = common.snapshot_repo()
    tdir = os.path.join(common.scratch_dir('repotests'), 'tests')
    if not os.path.exists(tdir):
        shutil.copytree(os.path.join(common.REPO, 'tests'), tdir, ignore=shutil.ignore_patterns('__pycache__'))
    out = os.path.join(common.scratch_dir('repotests'), 'calls.pkl')
    env = dict(os.environ, PYTHONPATH=snap + os.pathsep + os.path.dirname(tdir))
    subprocess.run(['/venv/bin/python', os.path.join(common.VERIF, 'harness', 'record_tests.py'), snap, tdir, out],
                   cwd=os.path.dirname(tdir), env=env, stdout=subprocess.PIPE, stderr=subprocess.STDOUT, timeout=600)
    if not os.path.exists(out):
        return []
    data = pickle.load(open(out, 'rb'))
    scns = []
    for c in data['calls']:
        if c['ast'] or c['names'] == 'unpicklable':
            continue
        names = c['names'] if isinstance(c['names'], dict) else {}
        if any(callable(v) for v in names.values()):
            continue        # host Python functions of the tests are outside the specification
        scns.append({'names': [names], 'host': {}, 'calls': [{'src': c['src'], 'n': 0, 'max': c['max']}]})
    return scns
