"""Scenario families (direction B drivers): Python generators of scenarios for vmrun."""
import random
from decimal import Decimal

from . import vmgen


def budget_sweep(seed, n_programs):
    """Random programs, each first measured with a huge budget; returned as a function that,
    given the measured op counts, yields the boundary budgets."""
    scns = []
    for i in range(n_programs):
        s = vmgen.random_scenario(seed * 100003 + i, ncalls=1)
        s['calls'][0]['max'] = 10 ** 6
        scns.append(s)
    return scns


def boundary_budgets(scn, ops):
    out = []
    for mx in sorted({1, 2, max(1, ops - 1), max(1, ops), ops + 1, ops + 2}):
        s = {'names': scn['names'], 'host': scn['host'], 'calls': [dict(scn['calls'][0], max=mx)], 'seed': scn.get('seed')}
        out.append(s)
    return out


LAMS = ['v => v + 1', 'v => t1()', 'v => [v, v] | map(w => w * 2)', 'v => v if v else 0', '(v, w) => v']
USES = ['f(1)', '[1, 2, 3] | map(f)', 'hcall(f, 2)', 'sorted([3, 1, 2], f)', '[1, 2] | filter(f)', 't1()\nf(0)', 'g = f\ng(5)']


def closure_sessions(seed, n):
    """Two- and three-call histories sharing one names mapping: a lambda defined by an
    earlier call is invoked (directly, through map/filter/sorted, through a host callback)
    by later calls under small budgets."""
    r = random.Random(seed)
    out = []
    for i in range(n):
        lam = r.choice(LAMS)
        calls = [{'src': 'f = ' + lam, 'n': 0, 'max': r.choice([3, 4, 5, 100])}]
        for _ in range(r.choice([1, 1, 2])):
            calls.append({'src': r.choice(USES), 'n': 0, 'max': r.choice([2, 3, 4, 5, 6, 8, 12, 30])})
        host = {'t1': {'h': 'probe', 'ret': Decimal(1), 'raises': False},
                'hcall': {'h': 'call', 'mode': r.choice(['propagate', 'swallow'])}}
        out.append({'names': [{}], 'host': host, 'calls': calls, 'fresh': False})
    return out
