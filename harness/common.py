"""Shared plumbing: scratch snapshot of /repo/smartquery, TLC runner, TLC output parsing.

Nothing here writes into /repo.  Scratch directories live under VERIF_SCRATCH (default:
a fresh directory from tempfile) and are removed at exit.
"""
import atexit
import json
import os
import re
import shutil
import subprocess
import sys
import tempfile
import time

VERIF = os.path.dirname(os.path.dirname(os.path.abspath(__file__)))
SPEC = os.path.join(VERIF, 'spec')
REPO = os.environ.get('VERIF_REPO', '/repo')
TLA_JAR = '/opt/veriftools/tla/tla2tools.jar'
TLA_CP = TLA_JAR + ':/opt/veriftools/tla/CommunityModules-deps.jar'

_scratch_root = None


def scratch_root():
    """A private scratch directory, removed at exit.  Worker processes (forked or spawned) share the directory
    of the process that started them (VERIF_SCRATCH_ROOT), so that nothing is left behind when they end without
    running their exit handlers; directories of processes that no longer exist are swept when a new one is made."""
    global _scratch_root
    if _scratch_root is None:
        inherited = os.environ.get('VERIF_SCRATCH_ROOT')
        if inherited and os.path.isdir(inherited):
            _scratch_root = inherited
            return _scratch_root
        _sweep_stale()
        owner = os.getpid()
        _scratch_root = tempfile.mkdtemp(prefix='sqverif_%d_' % owner)
        os.environ['VERIF_SCRATCH_ROOT'] = _scratch_root

        def cleanup(root=_scratch_root):
            if os.getpid() == owner:      # workers must not remove the scratch of the process that started them
                shutil.rmtree(root, True)
        atexit.register(cleanup)
    return _scratch_root


def _sweep_stale():
    base = tempfile.gettempdir()
    try:
        names = os.listdir(base)
    except OSError:
        return
    for n in names:
        m = re.match(r'sqverif_(\d+)_', n)
        if m and not os.path.exists('/proc/%s' % m.group(1)):
            shutil.rmtree(os.path.join(base, n), True)


def scratch_dir(name):
    d = os.path.join(scratch_root(), name)
    os.makedirs(d, exist_ok=True)
    return d


_snapshot = None


def snapshot_repo():
    """Copy /repo/smartquery (current working tree) to scratch and return the directory
    that must be put on sys.path.  SqParser() rewrites gen/parsetab.py when the grammar
    changes, so the implementation is never imported from /repo itself."""
    global _snapshot
    if _snapshot is None:
        dst = scratch_dir('impl_%d' % os.getpid())      # spawned workers share the scratch root, not the copy
        if not os.path.isdir(os.path.join(dst, 'smartquery')):
            # (this module may be loaded twice in one process - as harness.common and as common: the copy is shared)
            shutil.copytree(os.path.join(REPO, 'smartquery'), os.path.join(dst, 'smartquery'),
                            ignore=shutil.ignore_patterns('__pycache__'))
            # force regeneration of the LALR tables from rules.py / lexer.py of the tree under test
            for f in ('parsetab.py', 'lextab.py'):
                p = os.path.join(dst, 'smartquery', 'gen', f)
                if os.path.exists(p):
                    os.remove(p)
        _snapshot = dst
    return _snapshot


def import_impl():
    """Import the snapshot copy of smartquery (idempotent)."""
    snap = snapshot_repo()
    if snap not in sys.path:
        sys.path.insert(0, snap)
    for m in list(sys.modules):
        if m == 'smartquery' or m.startswith('smartquery.'):
            f = getattr(sys.modules[m], '__file__', '') or ''
            if not f.startswith(snap):
                del sys.modules[m]
    import smartquery  # noqa
    assert smartquery.__file__.startswith(snap), smartquery.__file__
    return smartquery


class TlcResult:
    def __init__(self, rc, out, wall):
        self.rc = rc
        self.out = out
        self.wall = wall
        self.generated = self.distinct = self.depth = 0
        m = re.search(r'(\d+) states generated, (\d+) distinct states found', out)
        if m:
            self.generated, self.distinct = int(m.group(1)), int(m.group(2))
        m = re.search(r'depth of the complete state graph search is (\d+)', out)
        if m:
            self.depth = int(m.group(1))
        self.ok = (rc == 0 and 'Model checking completed. No error has been found.' in out) or \
                  (rc == 0 and 'Finished in' in out and 'Error:' not in out)
        self.invariant_violated = None
        m = re.search(r'Invariant (\S+) is violated', out)
        if m:
            self.invariant_violated = m.group(1)
        m = re.search(r'Action property (\S+) is violated', out)
        if m:
            self.invariant_violated = m.group(1)
        self.timed_out = rc == 124

    def printed(self):
        """JSON records printed with PrintT(ToJson(..)) -- one self-delimiting line each."""
        recs = []
        for line in self.out.splitlines():
            line = line.strip()
            if line.startswith('"{') and line.endswith('}"'):
                try:
                    recs.append(json.loads(json.loads(line)))
                except ValueError:
                    pass
        return recs

    def coverage(self):
        """Per-action counts from -coverage output: {action: (distinct, generated)}."""
        cov = {}
        for m in re.finditer(r'^<(\w+) line \d+, col \d+ to line \d+, col \d+ of module (\w+)>: (\d+):(\d+)',
                             self.out, re.M):
            cov[m.group(1)] = (int(m.group(3)), int(m.group(4)))
        return cov


def run_tlc(module, cfg=None, workers=16, env=None, timeout=900, simulate=None, depth=None,
            seed=None, coverage=False, extra=(), cwd=SPEC, heap='8g', deadlock=False):
    """Run TLC on spec/<module>.tla with spec/<cfg>; returns TlcResult."""
    md = tempfile.mkdtemp(prefix='md_', dir=scratch_root())
    # every model / batch finishes in seconds to a few minutes on an idle machine; the limit only bounds a hung
    # TLC and is kept wide so that a loaded machine (several checks at once) does not turn into a failure
    timeout = max(int(timeout), int(os.environ.get('VERIF_TLC_MIN_TIMEOUT', '3000')))
    # (TLC leaves an empty tlc-<n> directory in java.io.tmpdir per run: keep them inside the scratch directory, which is removed at exit)
    cmd = ['timeout', str(timeout), 'java', '-XX:+UseParallelGC', '-Xss64m', '-Xmx' + heap, '-Djava.io.tmpdir=' + md, '-cp', TLA_CP, 'tlc2.TLC',
           '-workers', str(workers), '-metadir', md, '-noGenerateSpecTE']
    if cfg:
        cmd += ['-config', cfg]
    # TLC's -coverage made the exhaustive runs more than 20 times slower (one model: 47 s without, > 20 min with); it is
    # only switched on when asked for explicitly.  Non-vacuity is shown by the expected-violation runs of the
    # specification mutants and by the per-kind event tallies of the replayed traces instead.
    if coverage == 'force' or (coverage and os.environ.get('VERIF_TLC_COVERAGE') == '1'):      # 'force': small models whose check reads the counts
        cmd += ['-coverage', '1']
    if simulate is not None:
        cmd += ['-simulate', simulate]
    if depth is not None:
        cmd += ['-depth', str(depth)]
    if seed is not None:
        cmd += ['-seed', str(seed)]
    if deadlock:
        cmd += ['-deadlock']
    cmd += list(extra)
    cmd += [module]
    e = dict(os.environ)
    if env:
        e.update({k: str(v) for k, v in env.items()})
    t0 = time.time()
    p = subprocess.run(cmd, cwd=cwd, env=e, stdout=subprocess.PIPE, stderr=subprocess.STDOUT, text=True,
                       errors='replace')
    shutil.rmtree(md, ignore_errors=True)
    return TlcResult(p.returncode, p.stdout, time.time() - t0)


def sany(module, cwd=SPEC):
    p = subprocess.run(['java', '-cp', TLA_CP, 'tla2sany.SANY', module], cwd=cwd, stdout=subprocess.PIPE,
                       stderr=subprocess.STDOUT, text=True)
    ok = p.returncode == 0 and 'Semantic errors' not in p.stdout and 'Parse Error' not in p.stdout \
        and 'Fatal' not in p.stdout and '*** Errors' not in p.stdout
    return ok, p.stdout


def cps(s):
    return [ord(c) for c in s]


def uncps(a):
    return ''.join(chr(c) for c in a)
