"""The interactive loop (smartquery/repl.py) bound to spec/SQRepl.tla.

repl() is run unmodified against a scripted stand-in for prompt_toolkit.PromptSession.  The parser it
constructs is the scenario's instrumented parser, so that every line it evaluates is recorded exactly as
an ordinary call of a multi-call scenario (validated by TraceVM, incl. the printed text: PrintedP), while
the loop itself is recorded as SQRepl events (validated by TraceRepl):

  start | read(empty) | interrupt | eof | eval(res kind, names identity, budget, number of printed lines)

Direction A: the behaviours TLC enumerates for MC_Repl are realised as concrete scripts and replayed.
Direction B: random scripts."""
import contextlib
import io
import json
import os
import random
import sys
import types

from . import common

BASE_MARK = '__interrupt_during_eval__'      # a line whose evaluation is interrupted by Ctrl-C (non-Exception)


def drive(impl, parser, scn, one_call, names_py, calls):
    """Called by vmrun._run_calls for scenarios with scn['repl']: plays scn['repl_script']."""
    import importlib
    R = importlib.import_module('smartquery.repl')
    script = [dict(x) for x in scn['repl_script']]
    loop = []
    buf = io.StringIO()
    st = {'first_names': None, 'ids': [], 'open': None, 'nevals': 0}

    def close_eval():
        """Attribute what was printed since the last evaluation ended to that evaluation."""
        if st['open'] is not None:
            evn, pos0, ci = st['open']
            text = buf.getvalue()[pos0:]
            evn['printed'] = text.count('\n')
            if ci is not None and ci < len(calls):
                head = text.split('(', 1)[0] if '(' in text else ''
                calls[ci]['printed'] = {'n': text.count('\n'), 'text': common.cps(text), 'head': head}
            st['open'] = None

    class PromptSession:
        def __init__(self, *a, **k):
            pass

        def prompt(self, message='', **k):
            close_eval()
            item = script.pop(0) if script else {'t': 'eof'}
            if item['t'] == 'interrupt':
                loop.append({'e': 'interrupt'})
                raise KeyboardInterrupt()
            if item['t'] == 'eof':
                loop.append({'e': 'eof'})
                raise EOFError()
            loop.append({'e': 'read', 'empty': item['text'] == ''})
            return item['text']

    orig_eval = parser.eval

    def eval_wrapper(*a, **k):
        expr = k['expr'] if 'expr' in k else (a[0] if a else None)
        nm = k['names'] if 'names' in k else (a[1] if len(a) > 1 else None)
        if nm is not None:
            if not any(nm is x for x in st['ids']):
                st['ids'].append(nm)
            nid = [i for i, x in enumerate(st['ids']) if x is nm][0] + 1
            names_py[0] = nm
        else:
            nid = 0
        ci = len(calls)
        c = {'src': expr, 'n': 0 if nm is not None else None, 'max': None}

        def do_eval(kw):
            if expr == BASE_MARK:
                raise KeyboardInterrupt()
            return orig_eval(*a, **k)
        budget = {'v': None}
        try:
            out, out_py, out_exc = one_call(ci, c, do_eval)
        except BaseException as e0:       # noqa  (one_call re-raises non-Exceptions; anything else is a harness failure)
            if not isinstance(e0, KeyboardInterrupt):
                import traceback
                st['harness_error'] = traceback.format_exc()
                raise KeyboardInterrupt()
            evn = {'e': 'eval', 'res': 'base', 'names': nid, 'budget': 100, 'printed': 0}
            loop.append(evn)
            st['open'] = (evn, len(buf.getvalue()), None)
            raise
        # the budget this evaluation ran under: max_ops_evaluated of the VM record it created
        mx = k.get('max_ops_evaluated', a[2] if len(a) > 2 else 100)
        res = 'exception' if out_exc is not None else ('none' if out_py is None else 'value')
        evn = {'e': 'eval', 'res': res, 'names': nid, 'budget': mx, 'printed': 0}
        loop.append(evn)
        st['open'] = (evn, len(buf.getvalue()), ci)
        if out_exc is not None:
            raise out_exc
        return out_py

    fake = types.ModuleType('prompt_toolkit')
    fake.PromptSession = PromptSession
    saved_mod = sys.modules.get('prompt_toolkit')
    saved_parser = R.SqParser
    sys.modules['prompt_toolkit'] = fake
    parser.eval = eval_wrapper
    R.SqParser = lambda *a, **k: parser
    final = {'phase': 'exited', 'code': '-'}
    try:
        loop.append({'e': 'start'})
        with contextlib.redirect_stdout(buf):
            try:
                rc = R.repl()
                final = {'phase': 'exited', 'code': str(rc)}
            except BaseException as e:      # noqa
                if isinstance(e, (SystemExit, MemoryError)):
                    raise
                final = {'phase': 'crashed', 'code': 'EOFError' if isinstance(e, EOFError) else
                         'BaseException' if not isinstance(e, Exception) else 'Exception'}
    finally:
        close_eval()
        del parser.eval
        R.SqParser = saved_parser
        if saved_mod is None:
            sys.modules.pop('prompt_toolkit', None)
        else:
            sys.modules['prompt_toolkit'] = saved_mod
    if st.get('harness_error'):
        raise RuntimeError('repl driver: ' + st['harness_error'])
    text = buf.getvalue()
    return {'events': loop, 'final': final, 'stdout_lines': text.count('\n'), 'leftover': len(script)}


# ---------------------------------------------------------------------------------------------
# scripts
# ---------------------------------------------------------------------------------------------
NONE_LINES = ['x = 1', 'y = [1, 2]', 'x = x + 1', 'd = {"a": 1}', 'push(y, 3); z = None', '# nothing', 'y[0] = 5; None', 'f = v => v + 1']
VALUE_LINES = ['1 + 1', '"a" + "b"', '[1, 2] | map(v => v * 2)', 'x', 'y', 'len(y)', 'd', 'f(2)', '0.1 + 0.2 == 0.3', 'str(x)', '[x, y]', '1 / 3',
               'y | sorted', '{"k": [1, {"z": None}]}', 'x = 5; x', 'True', '0']
EXC_LINES = ['undefined_name', '1 / 0', 'pop([])', '[1][5]', '1 +', 'for', 'nofn()', '"abc', 'x y', 'range',
             '[1, 2, 3, 4, 5, 6, 7, 8, 9, 10] | map(v => v + 1) | map(v => v * 2) | map(v => v - 1) | map(v => v) | map(v => v) | map(v => v)',
             'int("z")', '{"a": 1}["b"]', 'q += 1']


def realise(item, r, defined):
    """An abstract SQRepl item -> a concrete script entry."""
    if item['t'] != 'line':
        return {'t': item['t']}
    if item['empty']:
        return {'t': 'line', 'text': ''}
    res = item['res']
    if res == 'base':
        return {'t': 'line', 'text': BASE_MARK}
    if res == 'none':
        text = r.choice(NONE_LINES if defined else NONE_LINES[:2])
    elif res == 'value':
        text = r.choice(VALUE_LINES if defined else ['1 + 1', '"a" + "b"', '[1, 2] | map(v => v * 2)', 'True', '0', '1 / 3'])
    else:
        text = r.choice(EXC_LINES)
    return {'t': 'line', 'text': text}


def scenario_for(items, r):
    """Scenario whose lines realise the abstract items; x, y, d, f are defined by a preamble when needed."""
    script = []
    defined = False
    for it in items:
        script.append(realise(it, r, defined))
    return {'repl': True, 'repl_script': script, 'names': [{}], 'host': {}, 'calls': [], 'abstract': items}


def random_script(r, n):
    items = [{'t': 'line', 'text': 'x = 2; y = [3, 1, 2]; d = {"a": [1]}; f = v => v * x'}]
    for _ in range(n):
        k = r.random()
        if k < 0.1:
            items.append({'t': 'line', 'text': ''})
        elif k < 0.14:
            items.append({'t': 'line', 'text': BASE_MARK})
        elif k < 0.45:
            items.append({'t': 'line', 'text': r.choice(NONE_LINES)})
        elif k < 0.8:
            items.append({'t': 'line', 'text': r.choice(VALUE_LINES)})
        else:
            items.append({'t': 'line', 'text': r.choice(EXC_LINES)})
    items.append({'t': r.choice(['interrupt', 'interrupt', 'eof'])} if r.random() < 0.9 else {'t': 'line', 'text': 'x'})
    return {'repl': True, 'repl_script': items, 'names': [{}], 'host': {}, 'calls': []}


def abstract_script(case):
    """The SQRepl script of a recorded session: what the prompt delivered + the observed kind of each evaluation."""
    evs = iter(e for e in case['repl']['events'] if e['e'] == 'eval')
    out = []
    for e in case['repl']['events']:
        if e['e'] == 'read':
            if e['empty']:
                out.append({'t': 'line', 'empty': True, 'res': '-'})
            else:
                out.append({'t': 'line', 'empty': False, 'res': None})
        elif e['e'] in ('interrupt', 'eof'):
            out.append({'t': e['e'], 'empty': False, 'res': '-'})
        elif e['e'] == 'eval':
            for it in reversed(out):
                if it['t'] == 'line' and it['res'] is None:
                    it['res'] = e['res']
                    break
    for it in out:
        if it['res'] is None:
            it['res'] = 'none'
    return out


def validate_loops(cases):
    """TLC: the recorded loop events of every session against SQRepl (TraceRepl)."""
    d = common.scratch_dir('repl')
    import uuid
    path = os.path.join(d, 'repl_%s.json' % uuid.uuid4().hex[:10])
    doc = {'cases': [{'id': c['tid'], 'script': abstract_script(c), 'events': c['repl']['events'], 'final': c['repl']['final']} for c in cases]}
    json.dump(doc, open(path, 'w'))
    res = common.run_tlc('TraceRepl.tla', cfg='TraceRepl.cfg', workers=4, env={'CASES_FILE': path}, timeout=900)
    verdicts = {v['id']: v for v in res.printed() if 'id' in v}
    try:
        os.remove(path)
    except OSError:
        pass
    return verdicts, res


def model_scripts(maxlen=3):
    """Direction A: TLC's behaviours of MC_Repl -> abstract scripts with the specified outcome."""
    cfg = open(os.path.join(common.SPEC, 'MC_Repl.cfg')).read().replace('MaxLen = 4', 'MaxLen = %d' % maxlen)
    d = common.scratch_dir('repl')
    p = os.path.join(d, 'MC_Repl_%d.cfg' % os.getpid())
    open(p, 'w').write(cfg)
    res = common.run_tlc('MC_Repl.tla', cfg=p, workers=8, timeout=900)
    return [r for r in res.printed() if 'script' in r], res
