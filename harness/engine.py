"""Check engine shared by all properties: TLC model runs, direction A (TLC-generated
scenarios replayed on the real SqParser), direction B (recorded traces validated by TLC),
findings policy, evidence files."""
import json
import os
import random
import sys
import time

from . import common, unparse, vmrun

VERIF = common.VERIF
OUT = os.environ.get('VERIF_OUT', VERIF)      # evidence/replays root (redirected when trying mutants)
UNLIMITED_REAL = 10 ** 9
# deviations implemented by the evaluator layer of the specification (SQBuiltins.tla / SQVM.tla)
VM_DEVIATIONS = ('ClosureChargesCreator', 'ShortOpKeyError', 'SetWithOpLookupError', 'ShortMulNative', 'RandDecimalBounds',
                 'ConcatUnchecked', 'ShortAddUnchecked', 'ShortMulRepeats', 'StrToListUnchecked', 'IntViaPyInt', 'SetItemYieldsValue')
DEVIATION_WITH = {'ShortMulRepeats': ['ShortMulNative']}


def load_known_findings():
    p = os.path.join(VERIF, 'known_findings.json')
    if not os.path.exists(p):
        return []
    return json.load(open(p))['findings']


def open_deviations(prop=None):
    """Deviation names of the findings that are still open (status == 'open')."""
    out = []
    for f in load_known_findings():
        if f.get('status') == 'open' and f.get('deviation'):
            out.append(f['deviation'])
    return sorted(set(out))


def write_cfg(name, lines):
    d = common.scratch_dir('cfg')
    p = os.path.join(d, name)
    with open(p, 'w') as f:
        f.write('\n'.join(lines) + '\n')
    return p


def mc_cfg(base_cfg, deviations=(), consts=None, drop_invariants=()):
    """Derive a cfg from spec/<base_cfg>: set Deviations and override constants."""
    lines = open(os.path.join(common.SPEC, base_cfg)).read().splitlines()
    out = []
    for ln in lines:
        s = ln.strip()
        if s.startswith('CONSTANT Deviations'):
            out.append('CONSTANT Deviations = {%s}' % ', '.join('"%s"' % d for d in sorted(deviations)))
            continue
        done = False
        for k, v in (consts or {}).items():
            if s.startswith('CONSTANT %s =' % k):
                out.append('CONSTANT %s = %s' % (k, v))
                done = True
        if done:
            continue
        if any(s == 'INVARIANT ' + x or s == 'PROPERTY ' + x for x in drop_invariants):
            continue
        out.append(ln)
    return write_cfg('%s_%d_%d.cfg' % (base_cfg.replace('.cfg', ''), os.getpid(), random.randrange(10 ** 9)), out)


class Report:
    """Accumulates what a check covered; renders the evidence file and the verdict lines."""

    def __init__(self, prop, tier, seed, level='model_checking'):
        self.prop, self.tier, self.seed, self.level = prop, tier, seed, level
        self.t0 = time.time()
        self.states = 0
        self.transitions = 0
        self.traces = 0
        self.evaluations = 0
        self.distinct = set()
        self.samples = []
        self.violations = []      # dicts with 'what' and replay payload
        self.known = []           # (deviation, what)
        self.machinery = []       # machinery failures (exit 2)
        self.notes = {}
        self.assumptions = []
        self.actions = {}
        self.leftdomain = 0
        self.exhaustive = False

    def add_tlc(self, res, label):
        self.states += res.distinct
        self.transitions += res.generated
        self.notes.setdefault('tlc_runs', []).append(
            {'model': label, 'distinct_states': res.distinct, 'states_generated': res.generated, 'depth': getattr(res, 'depth', 0),
             'wall_s': round(res.wall, 1), 'rc': res.rc})
        for k, (a, b) in res.coverage().items():
            x = self.actions.get(k, [0, 0])
            self.actions[k] = [x[0] + a, x[1] + b]

    def violation(self, what, payload):
        self.violations.append({'what': what, 'payload': payload})

    def finish(self):
        wall = time.time() - self.t0
        replays = []
        os.makedirs(os.path.join(OUT, 'replays', self.prop), exist_ok=True)
        for i, v in enumerate(self.violations[:20]):
            p = os.path.join(OUT, 'replays', self.prop, '%s_%s_%d.json' % (self.tier, self.seed, i))
            with open(p, 'w') as f:
                json.dump(v, f, indent=1, default=str)
            replays.append(p)
        cov = {'states': max(self.states, 0), 'transitions': max(self.transitions, 0),
               'traces_validated_against_impl': self.traces,
               'samples': self.samples[:8] or ['(none)'],
               'evaluations': self.evaluations, 'distinct_nontrivial': len(self.distinct),
               'rule': self.notes.pop('rule', ''),
               'exhaustive': bool(self.exhaustive),
               'left_domain_traces': self.leftdomain,
               'actions_covered': self.actions,
               'known_findings_reported': sorted(set('%s: %s' % k for k in self.known))[:50]}
        cov.update(self.notes)
        ev = {'property_id': self.prop, 'tier': self.tier, 'seed': self.seed, 'level': self.level, 'coverage': cov,
              'assumptions': self.assumptions, 'wall_s': round(wall, 2), 'violations': len(self.violations)}
        os.makedirs(os.path.join(OUT, 'evidence'), exist_ok=True)
        with open(os.path.join(OUT, 'evidence', self.prop + '.json'), 'w') as f:
            json.dump(ev, f, indent=1, default=str)
        mine = {f['deviation'] for f in load_known_findings() if f.get('property') == self.prop}
        lines = set()
        for dev, what in sorted(set(self.known)):
            # findings listed for another property merely explain a conformance difference met on the way;
            # they are reported by that property's own check (and recorded in this evidence file)
            for d in dev.split('+'):
                if d in mine:
                    lines.add((d, finding_text(d)))
        for d, what in sorted(lines):
            print('KNOWN-FINDING: property=%s %s [%s]' % (self.prop, what, d))
        if self.machinery:
            for mch in self.machinery[:5]:
                print('MACHINERY-FAILURE: %s' % mch, file=sys.stderr)
            return 2
        if self.violations:
            for v, p in zip(self.violations, replays):
                print('VIOLATION property=%s replay=%s' % (self.prop, p))
                print('  ' + v['what'][:300])
            return 1
        print('OK property=%s tier=%s states=%d traces=%d wall=%.1fs' % (self.prop, self.tier, self.states, self.traces, wall))
        return 0


# ---------------------------------------------------------------------------------------
# TLC model run on the specification itself
# ---------------------------------------------------------------------------------------
def model_check(rep, module, base_cfg, consts=None, deviations=(), label=None, timeout=1500, expect_violation=None,
                coverage=False, workers=16, heap='12g'):
    """Run TLC.  With expect_violation=None the model must pass (else machinery failure:
    the *specification* violates its own property).  With expect_violation=<name or True> TLC must
    report a violated invariant (non-vacuity of the invariants on the deviation model)."""
    cfg = mc_cfg(base_cfg, deviations=deviations, consts=consts)
    # the models finish in 10-250 s on an idle 16-core machine; the timeout only bounds a hung TLC and is
    # wide enough for a machine that is running several checks at once
    timeout = max(timeout, 3000)
    res = common.run_tlc(module, cfg=cfg, workers=workers, timeout=timeout, coverage=coverage, heap=heap)
    label = label or (module + (' +' + '+'.join(deviations) if deviations else ''))
    if expect_violation is None:
        rep.add_tlc(res, label)
        if res.timed_out:
            rep.machinery.append('%s: TLC timed out' % label)
        elif res.rc != 0:
            rep.machinery.append('%s: the specification violates %s or TLC failed (rc=%d): %s' %
                                 (label, res.invariant_violated, res.rc, res.out[-1500:]))
    else:
        rep.notes.setdefault('deviation_models', []).append(
            {'model': label, 'violated': res.invariant_violated, 'states': res.distinct, 'wall_s': round(res.wall, 1)})
        if not res.invariant_violated:
            rep.machinery.append('%s: expected TLC to find a property violation on the deviation model, it did not '
                                 '(vacuous invariant?) rc=%d %s' % (label, res.rc, res.out[-800:]))
    return res


# ---------------------------------------------------------------------------------------
# Direction A: TLC-generated scenarios -> real code
# ---------------------------------------------------------------------------------------
def scenario_from_emit(rec):
    """JSON printed by MCVM!Emit -> (python scenario, expected summary) or raises NotExpressible."""
    heap = rec['heap0']
    memo = {}
    names_spec = rec['names0']
    nids = sorted(names_spec)
    names_py = []
    for nid in nids:
        d = {}
        for k, v in names_spec[nid].items():
            if v['t'] == 'hostfn':
                continue
            d[k] = unparse.py_value(v, heap, memo)
        names_py.append(d)
    host = {}
    for k, b in (rec['host'] or {}).items() if isinstance(rec['host'], dict) else []:
        b2 = dict(b)
        if b['h'] == 'probe':
            b2['ret'] = unparse.py_value(b['ret'], heap, memo)
        host[k] = b2
    calls = []
    for c in rec['calls']:
        src = unparse.program(c['tree'])
        mx = c['max']
        cl = {'src': src, 'n': nids.index(c['nid']), 'max': UNLIMITED_REAL if mx == -1 else mx, 'spec_tree': c['tree']}
        if c.get('ast'):
            cl['ast'] = [(a['name'], {'tree': a['tree']}) for a in c['ast']]
        calls.append(cl)
    return {'names': names_py, 'host': host, 'calls': calls}, rec['summary']


def replay_emitted(rep, records, deviations_open, sample=None, seed=0, what='scenario', always=None):
    """Replay TLC-emitted scenarios on the real code, validate the recorded traces with TraceVM.
    always(rec) -> True for records that are replayed whatever the sample."""
    rng = random.Random(seed)
    if sample is not None and len(records) > sample:
        keep = [r for r in records if always and always(r)]
        rest = [r for r in records if not (always and always(r))]
        records = keep + rng.sample(rest, max(0, min(len(rest), sample - len(keep))))
    scns, sums, skipped = [], [], 0
    for rec in records:
        try:
            s, summ = scenario_from_emit(rec)
        except unparse.NotExpressible:
            skipped += 1
            continue
        scns.append(s)
        sums.append(summ)
    rep.notes['direction_a'] = {'scenarios_emitted_by_tlc': len(records), 'replayed': len(scns), 'not_expressible_as_source': skipped}
    cases = vmrun.run_scenarios(scns)
    good = []
    for s, summ, c in zip(scns, sums, cases):
        if c.get('timeout'):
            rep.violation('%s: the evaluation ran out of %s (guard: %d s) under its op budget - its cost is not bounded by the budget: %r' %
                          (what, c.get('resource', 'time'), vmrun.SCENARIO_TIMEOUT_S, c.get('sources')), {'calls': c.get('sources')})
            continue
        if 'harness_error' in c:
            rep.machinery.append('replay harness error: ' + c['harness_error'])
            continue
        # the text must parse back to the tree TLC generated
        bad_tree = False
        for cl, sc in zip(c['calls'], s['calls']):
            if cl['tree'].get('k') == 'parsefail' or unparse.strip_ids(cl['tree']) != unparse.strip_ids(sc['spec_tree']):
                bad_tree = True
        if bad_tree:
            rep.violation('source rendered from a specification tree does not parse back to that tree: %r' %
                          [sc['src'] for sc in s['calls']], {'calls': [sc['src'] for sc in s['calls']]})
            continue
        c['expected_summary'] = summ
        good.append(c)
    judge_cases(rep, good, deviations_open, what=what)
    return good


# ---------------------------------------------------------------------------------------
# Direction B and the verdict policy
# ---------------------------------------------------------------------------------------
def outcome_str(e):
    o = e['out']
    if o['t'] == 'ok':
        return 'ok'
    return '%s/%s' % (o['e']['exc'], o['e']['name'])


def judge_cases(rep, cases, deviations_open, what='scenario', attribute=None, side_clauses=None):
    """Validate cases against the normative specification; re-judge rejected ones against the
    specification with each open known-finding deviation; classify."""
    if not cases:
        return {}
    for i, c in enumerate(cases):
        c['tid'] = i + 1
    verdicts, res = vmrun.validate(cases, deviations=[])
    rep.add_tlc(res, 'TraceVM (normative) on %d recorded traces' % len(cases))
    if res.rc != 0 or len(verdicts) != len(cases):
        rep.machinery.append('TraceVM run failed or dropped traces (rc=%d, %d verdicts for %d traces): %s' %
                             (res.rc, len(verdicts), len(cases), res.out[-1500:]))
        return verdicts
    rejected = []
    for c in cases:
        v = verdicts[c['tid']]
        rep.evaluations += 1
        rep.distinct.add(json.dumps([cl['src'] for cl in c['calls']] + [cl['max'] for cl in c['calls']] + [c.get('host'), c.get('names0'), [cl.get('ast') for cl in c['calls']]], sort_keys=True, default=str))
        if v['v'] == 'accepted':
            rep.traces += 1
            if len(rep.samples) < 6:
                rep.samples.append({'calls': [{'src': cl['src'], 'max': cl['max']} for cl in c['calls']],
                                    'outcomes': [outcome_str(e) for e in c['events'] if e['e'] == 'end'],
                                    'events': len(c['events']), 'verdict': 'accepted'})
            # cross-check with the summary the model checker printed for the same scenario
            if 'expected_summary' in c:
                obs = [{'out': outcome_str(e), 'ops': e['ops']} for e in c['events'] if e['e'] == 'end']
                exp = c['expected_summary']
                obs = obs[:len(exp)]      # the product machine stops after the call in which the budget fired
                if len(obs) != len(exp) or any(o['ops'] != x['ops'] or (o['out'] != x['out'] and not x['out'].endswith('/?'))
                                               for o, x in zip(obs, exp)):
                    rep.violation('%s: outcome/op count of the real run differs from the model-checked behaviour: observed %s, '
                                  'TLC %s; calls %r' % (what, obs, exp, [cl['src'] for cl in c['calls']]),
                                  {'case': slim(c), 'observed': obs, 'tlc': exp})
        elif v['v'] == 'leftdomain':
            rep.leftdomain += 1
        else:
            rejected.append(c)
    if rejected:
        from concurrent.futures import ThreadPoolExecutor
        explained = {}
        vm_devs = [d for d in deviations_open if d in VM_DEVIATIONS]
        # 1. is the trace what the specification with ALL open deviations does?  (else: violation)
        #    The property predicates are switched off in that run (a deviation breaks the predicate it is about), EXCEPT for
        #    traces whose normative rejection IS a property predicate: those are re-judged with the predicates on, so that a
        #    trace which follows the step semantics but violates a predicate is never "explained" by an unrelated deviation.
        by_pred = [c for c in rejected if str(verdicts[c['tid']].get('why', '')).startswith('property ')]
        by_step = [c for c in rejected if not str(verdicts[c['tid']].get('why', '')).startswith('property ')]
        v3, res3 = vmrun.validate(by_step, deviations=vm_devs) if by_step else ({}, None)
        if res3 is not None:
            rep.add_tlc(res3, 'TraceVM +all open deviations on %d rejected traces' % len(by_step))
        if by_pred:
            v3p, res3p = vmrun.validate(by_pred, deviations=vm_devs, props=True)
            rep.add_tlc(res3p, 'TraceVM +all open deviations, predicates on, on %d traces' % len(by_pred))
            v3.update(v3p)
        ok_union = [c for c in rejected if v3.get(c['tid'], {}).get('v') in ('accepted', 'leftdomain')]
        # 2. attribute: the first single deviation (with the deviations it presupposes) that explains it
        def single(dev):
            group = [dev] + [w for w in DEVIATION_WITH.get(dev, []) if w in vm_devs]
            return dev, vmrun.validate(ok_union, deviations=group, procs=4)
        if ok_union:
            with ThreadPoolExecutor(max_workers=4) as ex:
                results = list(ex.map(single, vm_devs))
            for dev, (v2, res2) in results:
                rep.add_tlc(res2, 'TraceVM +%s on %d traces' % (dev, len(ok_union)))
                for c in ok_union:
                    if c['tid'] not in explained and v2.get(c['tid'], {}).get('v') in ('accepted', 'leftdomain'):
                        explained[c['tid']] = dev
            for c in ok_union:
                explained.setdefault(c['tid'], '+'.join(vm_devs))
        for c in rejected:
            v = verdicts[c['tid']]
            if c['tid'] in explained:
                rep.traces += 1
                rep.known.append((explained[c['tid']], finding_text(explained[c['tid']])))
                continue
            l = v.get('l', 0)
            obs = c['events'][l - 1] if 0 < l <= len(c['events']) else None
            side = [k for pre, k in (side_clauses or {}).items() if str(v.get('why', '')).startswith(pre)]
            if side:
                # a clause of the specification that is not part of this check's property (reported, not alarmed)
                rep.notes.setdefault(side[0], []).append({'calls': [cl['src'] for cl in c['calls']][:8], 'clause': v.get('why'), 'at_event': l})
                rep.notes[side[0]] = rep.notes[side[0]][:10]
                continue
            rep.violation('%s rejected by the specification at event %d: %s; calls %r' %
                          (what, l, v.get('why'), [(cl['src'], cl['max']) for cl in c['calls']]),
                          {'case': slim(c), 'at_event': l, 'clause': v.get('why'), 'observed_event': obs,
                           'specified_events': v.get('spec')})
    return verdicts


def run_family(rep, scns, what='scenario'):
    """Run scenarios on the code under test; nothing is dropped silently: a scenario that did not finish within the
    wall-clock guard is a violation (the evaluation is not bounded by its op budget), any other failure to record a
    scenario is a failure of the machinery."""
    out = []
    nerr = 0
    ntimeout = 0
    scns = list(scns)
    for start in range(0, len(scns), 512):
        # in batches: once a few scenarios have run into the wall-clock guard the point is made - the rest of the
        # family is skipped instead of waiting for the guard hundreds of times
        if ntimeout >= 3:
            rep.notes['scenarios_skipped_after_timeouts'] = rep.notes.get('scenarios_skipped_after_timeouts', 0) + len(scns) - start
            break
        for c in vmrun.run_scenarios(scns[start:start + 512], start_tid=start + 1):
            if c.get('timeout'):
                ntimeout += 1
                rep.violation('%s: the evaluation ran out of %s (guard: %d s) under its op budget - its cost is not bounded by the budget: %r' %
                              (what, c.get('resource', 'time'), vmrun.SCENARIO_TIMEOUT_S, c.get('sources')), {'calls': c.get('sources')})
            elif 'harness_error' in c:
                nerr += 1
                if nerr <= 3:
                    rep.machinery.append('%s could not be recorded: %s' % (what, c['harness_error']))
            else:
                out.append(c)
                if c.get('elapsed_s', 0) > rep.notes.get('slowest_scenario_s', 0):
                    rep.notes['slowest_scenario_s'] = c['elapsed_s']
                    rep.notes['slowest_scenario'] = [cl['src'][:80] for cl in c['calls']][:3]
    return out


def finding_text(dev):
    for f in load_known_findings():
        if f.get('deviation') == dev:
            return f.get('what', dev)
    return dev


def slim(c):
    """A replayable summary of a case (sources, budgets, host bindings) without the event stream."""
    return {'calls': [{'src': cl['src'], 'max': cl['max'], 'nid': cl['nid']} for cl in c['calls']],
            'names0': c.get('names0'), 'heap0': c.get('heap0'), 'host': c.get('host')}
