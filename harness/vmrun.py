"""Run scenarios on the real SqParser under the tracer and validate the recorded traces
with TLC against spec/TraceVM.tla.

A scenario (plain Python) is
  {'names': [dict, ...],            host names mappings (Python objects; shared objects stay shared)
   'host':  {fname: behaviour},     host functions: {'h':'probe','ret':scalar,'raises':bool} |
                                    {'h':'ident'} | {'h':'call','mode':'propagate'|'swallow'}
   'calls': [{'src': text, 'n': index into names or None, 'max': int or None, 'ast': {name: text}}],
   'bound': optional int (C03: the largest host-supplied size if above the cap)}
"""
import json
import os
import sys
import time
import traceback

from . import common
from .vmtrace import TRACER, Conv, ProbeError, RecordingNames, tree_to_spec, build_op


def make_host(name, beh, conv, ctx=None):
    T = TRACER
    if beh['h'] == 'eval':
        # a host function that evaluates a program of its own on the same parser (re-entrant eval), with its own names mapping
        # and budget, swallowing every Exception.  ctx is filled in by run_scenario (parser, names mappings, the parsed tree).
        def f(*args):
            T.emit({'e': 'p', 'name': name, 'args': [conv.deep(a) for a in args]})
            parser = ctx['parser']
            old = parser.parse_cache
            parser.parse_cache = {beh['src'].rstrip(): ctx['trees'][name]}     # the tree the specification was given, not a re-parse
            try:
                return parser.eval(beh['src'], names=ctx['names'][beh['n']], max_ops_evaluated=beh['max'])
            except Exception:
                return None
            finally:
                parser.parse_cache = old
    elif beh['h'] == 'probe':
        def f(*args):
            T.emit({'e': 'p', 'name': name, 'args': [conv.deep(a) for a in args]})
            if beh.get('raises'):
                raise ProbeError(name)
            return beh['ret']
    elif beh['h'] == 'ident':
        def f(*args):
            T.emit({'e': 'p', 'name': name, 'args': [conv.deep(a) for a in args]})
            (x,) = args
            return x
    elif beh['h'] == 'call':
        swallow = beh['mode'] == 'swallow'

        def f(*args):
            T.emit({'e': 'p', 'name': name, 'args': [conv.deep(a) for a in args]})
            if not args:
                raise TypeError('hcall needs a callable')
            if swallow:
                try:
                    return args[0](*args[1:])
                except Exception:
                    return None
            return args[0](*args[1:])
    else:
        raise ValueError(beh)
    f.__name__ = name
    conv.hostfns[id(f)] = name
    conv.keep.append(f)
    return f


def host_spec(host, ret_refs):
    out = {}
    for k, b in host.items():
        b2 = dict(b)
        if b['h'] == 'probe':
            b2['ret'] = ret_refs[k]
            b2['raises'] = bool(b.get('raises'))
        if b['h'] == 'eval':
            b2 = {'h': 'eval', 'tree': b['_tree'], 'nid': 'n%d' % (b['n'] + 1), 'max': b['max']}
        out[k] = b2
    return out


_shared_parser = None


def _materialize(v, memo):
    """Host values that cannot travel to a worker process pickled are written as {'__verif_make__': kind} and made here
    (sharing between containers is preserved)."""
    if id(v) in memo:
        return memo[id(v)]
    if isinstance(v, dict) and set(v) == {'__verif_make__'}:
        import threading
        return threading.Lock() if v['__verif_make__'] == 'lock' else (x for x in [1, 2])
    if type(v) is dict:
        out = memo[id(v)] = v
        for k in list(v):
            v[k] = _materialize(v[k], memo)
        return out
    if type(v) is list:
        memo[id(v)] = v
        for i in range(len(v)):
            v[i] = _materialize(v[i], memo)
        return v
    if type(v) is tuple:
        return tuple(_materialize(x, memo) for x in v)
    return v


def run_scenario(scn, tid, parser_factory=None, fresh=None):
    """Execute one scenario; return the case record for TLC.  By default one SqParser per
    process is shared by all scenarios (constructing one costs 0.1-0.2 s because PLY rebuilds
    its tables); scenarios that ask for it (scn['fresh'] or fresh=True) get their own."""
    global _shared_parser
    impl = TRACER.install()
    SqParser = impl['sq_parser'].SqParser
    conv = Conv(impl)
    if parser_factory:
        parser = parser_factory()
    elif scn.get('cache'):
        parser = SqParser(parse_cache={})       # a caching parser of its own: the same text gives the same tree object again
    elif fresh or scn.get('fresh'):
        parser = SqParser()
    else:
        if _shared_parser is None:
            _shared_parser = SqParser()
        parser = _shared_parser
    host = scn.get('host', {})
    hctx = {'parser': parser, 'names': None, 'trees': {}}
    hostfns = {k: make_host(k, b, conv, hctx) for k, b in host.items()}
    names_py = []
    for d in scn.get('names', []):
        d = _materialize(d, {})
        rn = RecordingNames(d)
        names_py.append(rn)
    # initial projection BEFORE host functions are added (they are scalars anyway)
    for rn in names_py:
        for k, f in hostfns.items():
            rn[k] = f
    # values returned by probes are host objects too: project them together with the names
    rets = {k: b.get('ret') for k, b in host.items() if b['h'] == 'probe'}
    names0_list, heap0 = conv.initial(names_py + [rets])
    ret_refs = names0_list.pop()
    names0 = {'n%d' % (i + 1): nm for i, nm in enumerate(names0_list)}
    counter = [0]
    nodeids = {}
    hctx['names'] = names_py
    for k, b in host.items():
        if b['h'] == 'eval':
            t = parser.parse(b['src'].rstrip())
            hctx['trees'][k] = t
            b['_tree'] = tree_to_spec(impl, t, conv, counter, nodeids)
    # capture the tree eval() obtains from parse()
    captured = {}
    orig_parse = parser.parse

    treespec = {}

    def capturing_parse(expr):
        t = orig_parse(expr)
        if any(t is x for x in hctx['trees'].values()):
            return t                      # the nested evaluation of a host function: not the call's own program
        captured['tree'] = t
        if t is not None:
            if id(t) not in treespec:
                treespec[id(t)] = (t, tree_to_spec(impl, t, conv, counter, nodeids))      # (t kept alive: ids are not reused)
            captured['spec'] = treespec[id(t)][1]
        return t
    parser.parse = capturing_parse
    try:
        return _run_calls(scn, tid, impl, conv, parser, orig_parse, captured, hostfns, names_py, names0, heap0,
                          counter, nodeids, host, ret_refs, rets)
    finally:
        del parser.parse          # restore the class method on a shared parser


def _run_calls(scn, tid, impl, conv, parser, orig_parse, captured, hostfns, names_py, names0, heap0, counter, nodeids, host,
               ret_refs, rets=None):
    calls = []
    events_all = []
    digest0 = TRACER.functions_digest()
    state = {'anon': 0}

    def one_call(ci, c, do_eval, repl_names=None):
        if c.get('max') is None and 'delta' in c:
            # budget relative to what the measured (first) call of this scenario needed: need + delta
            c = dict(c, max=max(1, state.get('measured', 50) + 1 + c['delta']))
        kw = {}
        n = c.get('n')
        if n is not None:
            kw['names'] = names_py[n]
            if hasattr(names_py[n], 'asked'):
                names_py[n].asked = []
            nid = 'n%d' % (n + 1)
        else:
            state['anon'] += 1
            nid = 'anon%d' % state['anon']
            names0[nid] = {}
        if c.get('max') is not None:
            kw['max_ops_evaluated'] = c['max']
        ast_spec = []
        if c.get('ast'):
            # ast: list of (name, x) in binding order; x is source text of a lambda expression, or
            # {'params': [...], 'body': source of a (multi-line) body}, or {'tree': specification tree}
            astn = {}
            items = c['ast'].items() if isinstance(c['ast'], dict) else c['ast']
            for k, x in items:
                key = json.dumps([k, x], sort_keys=True, default=str)
                if scn.get('ast_shared') and key in state.setdefault('ast_nodes', {}):
                    # the host built this node once and hands the same object to every call
                    node, spec = state['ast_nodes'][key]
                    ast_spec.append({'name': k, 'tree': spec})
                    astn[k] = node
                    continue
                if isinstance(x, str):
                    node = orig_parse(x).lines[0]
                elif 'tree' in x:
                    node = build_op(impl, x['tree'])
                else:
                    A = impl['ast_ops']
                    node = A.LambdaOp(args=[A.NameOp(p) for p in x['params']], expr=orig_parse(x['body']))
                # one specification tree per node OBJECT (a caching parser hands out the same object for the same text)
                nk = id(node)
                if nk not in state.setdefault('ast_specs', {}):
                    state['ast_specs'][nk] = (node, tree_to_spec(impl, node, conv, counter, nodeids))
                ast_spec.append({'name': k, 'tree': state['ast_specs'][nk][1]})
                astn[k] = node
                if scn.get('ast_shared'):
                    state['ast_nodes'][key] = (node, ast_spec[-1]['tree'])
            kw['ast_names'] = astn
        listed = None
        if scn.get('list_names'):
            try:
                listed = [x for x in parser.list_names(c['src']) if isinstance(x, str)]
            except Exception:
                listed = None
        lits = None
        if scn.get('literals'):
            # the NUMBER tokens the long-lived lexer produces for this text, in the state it is in now
            lits = []
            try:
                lx = parser.lex.clone()
                lx.lexpos = 0; lx.lineno = 1; lx.paren_count = 0
                lx.input(c['src'])
                while True:
                    t = lx.token()
                    if t is None:
                        break
                    if t.type == 'NUMBER':
                        lits.append({'text': [ord(ch) for ch in c['src'][t.lexpos:lx.lexpos]], 'v': conv.deep(t.value)})
            except Exception:
                pass
        captured.clear()
        AUDIT['events'] = []
        nvm_before = len(conv.vm)
        TRACER.start(conv, nodeids)
        n_enter0 = 0
        streams = None
        if AUDIT['on']:
            streams = (sys.stdout, sys.stderr)
            sys.stdout, sys.stderr = _StreamSpy('stdout', streams[0]), _StreamSpy('stderr', streams[1])
        try:
            try:
                out_exc = None
                res = do_eval(kw)
                out = {'t': 'ok', 'v': None}
                out_py = res
            except BaseException as e:   # noqa
                out = {'t': 'exc', 'e': conv.exc(e), 'msg': str(e)[:200]}
                out_py = None
                out_exc = e
                if isinstance(e, (KeyboardInterrupt, SystemExit, MemoryError)):
                    raise
        finally:
            if streams is not None:
                sys.stdout, sys.stderr = streams
            evs = TRACER.stop()
        if out['t'] == 'ok':
            out['v'] = conv.deep(out_py)
        if 'spec' in captured:
            tree = captured['spec']
        else:
            tree = {'k': 'parsefail'}
        # node evaluations of THIS call: not those of evaluations nested in it by a host function (VM records created later than its own)
        nev = sum(1 for e in evs if e['e'] == 'c' and e.get('vm', 0) <= nvm_before + 1) + sum(1 for e in evs if e['e'] == 'nc')
        # states in vm order
        states = sorted(((v, s) for s, v in ((s, conv.vm[id(s)]) for s in conv.keep if id(s) in conv.vm)), key=lambda p: p[0])
        depth = []
        seen_vm = set()
        for v, s in states:
            if v in seen_vm:
                continue
            seen_vm.add(v)
            try:
                depth.append(len(s.names.scopes))
            except Exception:
                depth.append(-1)
        call_ops = 0
        if len(conv.vm) > nvm_before:
            # the VM record created by this call is the first new one
            for v, s in states:
                if v == nvm_before + 1:
                    call_ops = getattr(s, 'ops_evaluated', -1)
        if c.get('measure'):
            state['measured'] = call_ops
        end = {'e': 'end', 'out': out, 'ops': call_ops, 'nev': nev,
               'names': {'n%d' % (i + 1): {k: conv.deep(v) for k, v in nm.items()} for i, nm in enumerate(names_py)},
               'depth': depth,
               'looked': sorted(set(k for k in names_py[n].asked if isinstance(k, str))) if n is not None and hasattr(names_py[n], 'asked') else ['*']}
        events_all.extend(evs + [end])
        calls.append({'tree': tree, 'nid': nid, 'max': c['max'] if c.get('max') is not None else 100, 'ast': ast_spec,
                      'src': c['src']})
        if listed is not None:
            calls[-1]['listed'] = listed
        if lits is not None:
            calls[-1]['lits'] = lits
        if AUDIT['on']:
            calls[-1]['audit'] = sorted(set(AUDIT['events']))
        return out, out_py, out_exc

    if scn.get('repl'):
        from . import repl_conf
        loop = repl_conf.drive(impl, parser, scn, one_call, names_py, calls)
    else:
        loop = None
        for ci, c in enumerate(scn['calls']):
            one_call(ci, c, lambda kw, c=c: parser.eval(c['src'], **kw))      # (kw carries the budget one_call computed)
            if TRACER.overflow:
                break
    case = {'tid': tid, 'calls': calls, 'names0': names0, 'heap0': heap0, 'host': host_spec(host, ret_refs),
            'events': events_all, 'overflow': bool(getattr(TRACER, 'overflow', False)),
            'functions_frozen': TRACER.functions_digest() == digest0}
    if loop is not None:
        case['repl'] = loop
    if scn.get('list_names') and scn.get('listed_all'):
        case['listedall'] = True      # (no lambdas kept across calls in these scenarios: every call's requests are checked against its own list_names)
    case['bound'] = scn.get('bound') or size_bound(names_py, rets or {}, [c['src'] for c in scn['calls']])
    return case


CAP = 10000


def size_bound(names_py, rets, sources):
    """max(cap, longest list / dict / string the host supplies or the source spells out)."""
    best = [CAP]
    seen = set()

    def walk(v, d=0):
        if isinstance(v, (list, dict, tuple, str)):
            if id(v) in seen or d > 30:
                return
            seen.add(id(v))
            best[0] = max(best[0], len(v))
            if isinstance(v, dict):
                for x in v.values():
                    walk(x, d + 1)
            elif not isinstance(v, str):
                for x in v:
                    walk(x, d + 1)
    for nm in names_py:
        walk(dict(nm))
    walk(dict(rets))
    for s in sources:
        best[0] = max(best[0], len(s) if len(s) > CAP else 0)
    return best[0]


class MultiResult:
    """Aggregate of several TLC runs (one per chunk of cases)."""

    def __init__(self, results):
        self.results = results
        self.rc = max((r.rc for r in results), default=0)
        self.generated = sum(r.generated for r in results)
        self.distinct = sum(r.distinct for r in results)
        self.wall = max((r.wall for r in results), default=0.0)
        self.out = '\n'.join(r.out[-6000:] for r in results if r.rc != 0) or (results[0].out[-3000:] if results else '')
        self.invariant_violated = next((r.invariant_violated for r in results if r.invariant_violated), None)
        self.timed_out = any(r.timed_out for r in results)

    def coverage(self):
        cov = {}
        for r in self.results:
            for k, (a, b) in r.coverage().items():
                x = cov.get(k, (0, 0))
                cov[k] = (x[0] + a, x[1] + b)
        return cov


def validate(cases, deviations, procs=16, timeout=700, coverage=False, keep=None, module='TraceVM', cfg=None, props=None):
    """Validate the recorded cases with TLC: the cases are split into chunks, one
    single-worker TLC process per chunk (measured: one 16-worker TLC is slower than one
    worker on these chain-shaped state graphs; 16 processes scale linearly).
    Returns (verdicts by tid, MultiResult)."""
    from concurrent.futures import ThreadPoolExecutor
    d = common.scratch_dir('vmcases')
    nchunks = max(1, min(procs, (len(cases) + 24) // 25))
    chunks = [cases[i::nchunks] for i in range(nchunks)]
    import uuid
    stamp = '%d_%s' % (os.getpid(), uuid.uuid4().hex[:10])
    paths = []
    for ci, ch in enumerate(chunks):
        path = os.path.join(d, 'cases_%s_%d.json' % (stamp, ci))
        with open(path, 'w') as f:
            json.dump({'deviations': sorted(deviations), 'cases': ch, 'props': (not deviations) if props is None else bool(props)}, f)
        paths.append(path)
    if keep:
        with open(keep, 'w') as f:
            json.dump({'deviations': sorted(deviations), 'cases': cases, 'props': (not deviations) if props is None else bool(props)}, f)

    def one(path):
        return common.run_tlc(module + '.tla', cfg=cfg or (module + '.cfg'), workers=1, env={'CASES_FILE': path},
                              timeout=timeout, coverage=coverage, heap='3g')
    with ThreadPoolExecutor(max_workers=nchunks) as ex:
        results = list(ex.map(one, paths))
    verdicts = {}
    for res in results:
        for r in res.printed():
            if 'tid' in r and 'v' in r:
                verdicts[r['tid']] = r
    for path in paths:
        try:
            os.remove(path)
        except OSError:
            pass
    return verdicts, MultiResult(results)


AUDIT = {'on': False, 'events': [], 'installed': False}


class _StreamSpy:
    """Stands in for sys.stdout / sys.stderr while a program is evaluated under the audit: a write is recorded like an audit event."""

    def __init__(self, name, real):
        self._name = name
        self._real = real

    def write(self, text):
        if text:
            AUDIT['events'].append('stream.write:' + self._name)
        return len(text)

    def flush(self):
        pass

    def __getattr__(self, k):
        return getattr(self._real, k)


def _audit_hook(event, args):
    if AUDIT['on'] and TRACER.active:
        AUDIT['events'].append(event)


def enable_audit():
    """Record Python audit events raised while eval runs (property C02).  A hook cannot be removed, so
    it is installed once per process and gated by a flag."""
    if not AUDIT['installed']:
        sys.addaudithook(_audit_hook)
        AUDIT['installed'] = True
    AUDIT['on'] = True


def _worker_init():
    os.environ['SMARTQUERY_VERIF'] = '1'
    TRACER.install()
    if os.environ.get('VERIF_AUDIT') == '1':
        enable_audit()


class ScenarioTimeout(KeyboardInterrupt):
    """Raised by the wall-clock guard of a scenario (a KeyboardInterrupt: no `except Exception` swallows it)."""


SCENARIO_TIMEOUT_S = float(os.environ.get('VERIF_SCENARIO_TIMEOUT', '45'))


def _worker_run(arg):
    """One scenario under a wall-clock guard: the op budgets bound every evaluation of the unchanged code to well under a
    second (a few seconds for the 10000-element cap scenarios); a change that computes outside the budget (a native power
    of huge ints, an unbounded loop) must not hang the check."""
    import signal
    tid, scn = arg

    def on_alarm(sig, frm):
        raise ScenarioTimeout()
    old = signal.signal(signal.SIGALRM, on_alarm)
    signal.setitimer(signal.ITIMER_REAL, SCENARIO_TIMEOUT_S)
    t0 = time.time()
    try:
        c = run_scenario(scn, tid)
        c['elapsed_s'] = round(time.time() - t0, 2)
        return c
    except (ScenarioTimeout, MemoryError) as e:
        # the evaluation ran out of time or of memory although every call has an op budget: its cost is not bounded by the budget
        TRACER.active = False
        return {'tid': tid, 'harness_error': 'TIMEOUT' if isinstance(e, ScenarioTimeout) else 'MEMORY', 'timeout': True,
                'resource': 'time' if isinstance(e, ScenarioTimeout) else 'memory',
                'sources': [(c.get('src'), c.get('max')) for c in scn.get('calls', [])][:6]}
    except BaseException as e:   # noqa
        return {'tid': tid, 'harness_error': ''.join(traceback.format_exception_only(type(e), e))[-500:]}
    finally:
        signal.setitimer(signal.ITIMER_REAL, 0)
        signal.signal(signal.SIGALRM, old)


def run_scenarios(scns, start_tid=1, procs=16):
    """Run scenarios in a pool of worker processes (fork); returns case records in order."""
    import multiprocessing as mp
    common.snapshot_repo()
    args = [(start_tid + i, s) for i, s in enumerate(scns)]
    if procs <= 1 or len(scns) < 8:
        _worker_init()
        return [_worker_run(a) for a in args]
    ctx = mp.get_context('fork')
    with ctx.Pool(procs, initializer=_worker_init) as pool:
        return pool.map(_worker_run, args, chunksize=max(1, len(args) // (procs * 4)))
