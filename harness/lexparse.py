#!/venv/bin/python
"""Conformance harness for the lexer / parser layer (SQLexer.tla, SQGrammar.tla).

Direction A (specification -> code): TLC enumerates all lexeme strings (MC_Parse) and all
character strings (MC_Lex) up to a bound and prints what the specification says; every
string is rendered to text and given to the REAL lexer / SqParser.parse / list_names.

Direction B (code -> specification): texts are generated here (random sentences of the
grammar with random layout, one-token mutations and truncations, every string constant of
the repository's parser tests, layout rewrites of random trees, stray-token insertions,
character soup), the real code is run on them, the observations are recorded as JSON and
TLC validates every record against Lex / ParseTextD / ListNames / ErrMsg (TraceParse.tla).

A mismatch against the normative specification is re-judged against the specification with
the listed deviations switched on; `explained_by` names the deviation(s) that make the
specification agree with the code on that input (None = unexplained = VIOLATION).

Nothing here writes into /repo; the implementation is imported from a scratch copy
(common.import_impl), VERIF_REPO selects another tree (mutants).
"""
import ast
import decimal
import json
import multiprocessing
import os
import random
import re
import sys
import time
import unicodedata

sys.path.insert(0, os.path.dirname(os.path.abspath(__file__)))
import common            # noqa: E402
import treeconv          # noqa: E402
from treeconv import cps, uncps, tree_to_json, value_to_json   # noqa: E402

ALL_DEVIATIONS = (
    'NotInBindsTight', 'ParenSingleParamRejected', 'MethodTrailingCommaDropsArg', 'DictTrailingCommaRejected',
    'EofAttributeError', 'ReservedNeedsLookahead',
    'SemicolonCountsAsLine', 'BracketNewlineNotCounted', 'NewlineTokenLineAfter',
)
# refinement of the normative text, not a defect (DESIGN.md 4/C16 "Reserved words vs syntax errors")
IMPL_DETAIL = ('ReservedNeedsLookahead',)
PROPERTY_OF_DEVIATION = {
    'NotInBindsTight': 'C06', 'ParenSingleParamRejected': 'C06',
    'MethodTrailingCommaDropsArg': 'C15', 'DictTrailingCommaRejected': 'C15',
    'EofAttributeError': 'C16', 'ReservedNeedsLookahead': 'C16',
    'SemicolonCountsAsLine': 'C20', 'BracketNewlineNotCounted': 'C20', 'NewlineTokenLineAfter': 'C20',
}
PROPERTY_OF_CLAUSE = {
    'accept': 'C06', 'tree': 'C06', 'kind': 'C16', 'class': 'C16', 'token': 'C20', 'line': 'C20',
    'illegalchar': 'C16', 'look': 'C11', 'residue': 'C11',
    'lex.tokens': 'C06', 'lex.lineno': 'C11', 'lex.err': 'C16', 'lex.errchar': 'C16', 'lex.residue': 'C11',
    'names.list': 'C18', 'names.err': 'C18', 'names.intree': 'C18', 'layout.want': 'C15',
    'grammar-constant': 'C06',
}
MAX_REPORTED = 200          # unexplained mismatches kept verbatim per run (all are counted)
WITNESSES = 5                # explained mismatches kept per explanation (the shortest inputs)


class ObserveTimeout(KeyboardInterrupt):
    pass


OBSERVE_TIMEOUT_S = 30


def _raise_observe_timeout(sig, frm):
    raise ObserveTimeout()


class UnknownTerminal(Exception):
    pass


class MachineryError(RuntimeError):
    """TLC crashed / output unparsable / record counts do not add up: never a verdict on the code."""


# ============================================================================== the real code

class Impl:
    """One real SqParser (from the scratch copy) with a counter on lexer.token()."""

    def __init__(self):
        common.import_impl()
        from smartquery.sq_parser import SqParser
        from smartquery.exceptions import ParserError
        from smartquery import rules, lexer
        self.ParserError = ParserError
        self.rules = rules
        self.lexer_mod = lexer
        self.parser = SqParser()
        self.lex = self.parser.lex
        self.calls = 0
        orig = self.lex.token

        def counted():
            self.calls += 1
            return orig()
        self.lex.token = counted

    # ---- observations
    def residue(self):
        return {'pos': self.lex.lexpos, 'lineno': self.lex.lineno, 'paren': getattr(self.lex, 'paren_count', 0)}

    def classify(self, e):
        msg = str(e)
        if isinstance(e, self.ParserError):
            o = {'class': 'ParserError', 'msg': msg, 'kind': 'other', 'text': [], 'line': 0, 'ch': 0}
            m = re.fullmatch(r'Syntax error: (.*) at line (\d+)', msg, re.S)
            if msg.startswith('Illegal character ') and len(msg) == len('Illegal character ') + 1:
                o['kind'] = 'illegal'
                o['ch'] = ord(msg[-1])
            elif msg.endswith(' is reserved keyword'):
                o['kind'] = 'reserved'
                o['text'] = cps(msg[:-len(' is reserved keyword')])
            elif m:
                o['kind'] = 'syntax'
                o['text'] = cps(m.group(1))
                o['line'] = int(m.group(2))
            elif re.search(r'end of (input|file|text)|\bEOF\b|unexpected end', msg, re.I):
                o['kind'] = 'eof'
            return o
        o = {'class': type(e).__name__, 'msg': msg, 'kind': 'other', 'text': [], 'line': 0, 'ch': 0}
        if not isinstance(e, Exception):
            o['class'] = 'BaseException:' + type(e).__name__
        if isinstance(e, AttributeError) and "'NoneType' object has no attribute 'value'" in msg:
            o['kind'] = 'eof'          # p_error(None)
        return o

    def parse(self, text):
        self.calls = 0
        import signal
        armed = False
        try:
            if signal.getitimer(signal.ITIMER_REAL)[0] == 0:       # (not inside _guarded_observe)
                signal.signal(signal.SIGALRM, _raise_observe_timeout)
                signal.setitimer(signal.ITIMER_REAL, OBSERVE_TIMEOUT_S)
                armed = True
        except ValueError:                                       # not the main thread
            pass
        try:
            tree = self.parser.parse(text)
            obs = {'ok': True, 'tree': tree_to_json(tree)}
        except ObserveTimeout:
            if not armed:
                raise
            obs = {'ok': False, 'class': 'BaseException:Timeout', 'msg': 'no result within %d s' % OBSERVE_TIMEOUT_S, 'kind': 'other',
                   'text': [], 'line': 0, 'ch': 0}
        except KeyboardInterrupt:
            raise
        except BaseException as e:       # noqa
            obs = self.classify(e)
            obs['ok'] = False
        finally:
            if armed:
                signal.setitimer(signal.ITIMER_REAL, 0)
        obs['look'] = self.calls
        obs['residue'] = self.residue()
        return obs

    def tokens(self, text):
        lx = self.lex
        lx.lexpos = 0
        lx.lineno = 1
        lx.paren_count = 0
        lx.input(text)
        toks = []
        err = {'t': 'none', 'ch': 0, 'pos': 0}
        while True:
            try:
                t = lx.token()
            except self.ParserError as e:
                msg = str(e)
                err = {'t': 'illegal', 'ch': ord(msg[-1]) if msg.startswith('Illegal character ') else -1,
                       'pos': lx.lexpos}
                break
            except Exception as e:      # noqa
                err = {'t': 'exception:' + type(e).__name__, 'ch': 0, 'pos': lx.lexpos}
                break
            if t is None:
                break
            lexeme = text[t.lexpos:lx.lexpos]
            if t.type == 'NUMBER':
                val = value_to_json(t.value)
            else:
                val = cps(t.value) if isinstance(t.value, str) else value_to_json(t.value)
            toks.append({'type': t.type, 'text': cps(lexeme), 'val': val, 'lineno': t.lineno})
        return toks, err, self.residue()

    def names(self, text):
        out = []
        err = 0
        try:
            for n in self.parser.list_names(text):
                out.append(cps(n))
        except self.ParserError:
            err = 1
        except Exception:       # noqa
            err = 2
        return out, err

    def observe(self, text):
        """Everything direction B records about one text."""
        toks, lexerr, lexres = self.tokens(text)
        names, nerr = self.names(text)
        return {'chars': cps(text), 'toks': toks, 'lexerr': lexerr, 'lexres': lexres,
                'names': names, 'nameserr': nerr, 'parse': self.parse(text)}

    # ---- the grammar constants of the tree under test
    def productions(self):
        fs = [(f.__code__.co_firstlineno, f) for n, f in vars(self.rules).items()
              if n.startswith('p_') and n != 'p_error' and callable(f)]
        prods = []
        for _, f in sorted(fs, key=lambda x: x[0]):
            last = None
            for line in (f.__doc__ or '').splitlines():
                p = line.split()
                if not p:
                    continue
                if p[0] == '|':
                    lhs, syms = last, p[1:]
                else:
                    lhs, syms = p[0], p[2:]
                    last = lhs
                prods.append([lhs, syms])
        return prods

    def precedence(self):
        return [[a, list(ts)] for a, *ts in self.lexer_mod.precedence]

    def rule_order(self):
        return [n[1] for (_, names) in self.lex.lexstatere['INITIAL'] for n in names if n]

    def reserved_follow(self):
        y = self.parser.yacc
        out = {}
        for i, pr in enumerate(y.productions):
            s = str(pr)
            if s.startswith('expression -> ') and s.split(' -> ')[1] in ('FOR', 'WHILE', 'ELIF', 'BREAK', 'CONTINUE',
                                                                          'DEF', 'RAISE'):
                las = set()
                for st, acts in y.action.items():
                    for tok, v in acts.items():
                        if v == -i:
                            las.add(tok)
                out[s.split(' -> ')[1]] = sorted(las)
        return out

    def keywords(self):
        return sorted([k, v] for k, v in self.lexer_mod.reserved.items())


_IMPL = None


def impl():
    global _IMPL
    if _IMPL is None:
        _IMPL = Impl()
    return _IMPL


# ============================================================================== comparing

def _strip(o):
    return {k: v for k, v in o.items() if k != 'msg'}


def compare(obs, sp):
    """First clause in which the real parse observation differs from a ParseTextD result, or None."""
    if obs['ok'] != sp['ok']:
        return 'accept'
    if sp['ok']:
        if obs['tree'] != sp['tree']:
            return 'tree'
    else:
        if obs['kind'] != sp['kind']:
            return 'kind'
        m = sp['msg']
        if obs['class'] != m['class']:
            return 'class'
        if sp['kind'] in ('syntax', 'reserved') and obs['text'] != m['text']:
            return 'token'
        if sp['kind'] == 'syntax' and obs['line'] != m['line']:
            return 'line'
        if sp['kind'] == 'illegal' and obs['ch'] != m['ch']:
            return 'illegalchar'
    if obs['look'] != sp['look']:
        return 'look'
    if obs['residue'] != sp['residue']:
        return 'residue'
    return None


def _show_spec(sp):
    if sp.get('ok'):
        return {'ok': True, 'tree': sp.get('tree')}
    m = dict(sp.get('msg', {}))
    if 'text' in m:
        m['text'] = uncps(m['text'])
    return {'ok': False, 'kind': sp.get('kind'), 'at': sp.get('at'), 'msg': m, 'look': sp.get('look'),
            'residue': sp.get('residue')}


def _show_obs(o):
    if o.get('ok'):
        return {'ok': True, 'tree': o.get('tree')}
    return {'ok': False, 'class': o.get('class'), 'message': o.get('msg'), 'kind': o.get('kind'),
            'look': o.get('look'), 'residue': o.get('residue')}


def _expl_name(expl):
    """expl = list of explaining deviation sets (all of the same, minimal size)."""
    if not expl:
        return None
    names = sorted('+'.join(sorted(s)) for s in expl)
    return '|'.join(names)


def mk_mismatch(clause, text, expected, observed, explained_by, origin, prop=None):
    """property = the property the differing clause belongs to, refined by the explaining deviation(s)."""
    base = PROPERTY_OF_CLAUSE.get(clause, 'C06')
    props = {base}
    if explained_by:
        names = re.split(r'[+|]', explained_by)
        dp = {PROPERTY_OF_DEVIATION.get(n, base) for n in names}
        props = dp | ({base} if base in dp else set())
        if prop is None:
            if len(names) == 1:
                prop = PROPERTY_OF_DEVIATION.get(names[0], base)
            elif base in dp:
                prop = base
            elif base == 'C06' and 'C15' in dp:
                prop = 'C15'
            else:
                prop = sorted(dp)[0]
    if prop is None:
        prop = base
    props.add(prop)
    return {'property': prop, 'properties': sorted(props), 'kind': clause, 'input': text, 'expected': expected,
            'observed': observed, 'explained_by': explained_by,
            'non_defect': bool(explained_by) and explained_by in IMPL_DETAIL, 'origin': origin}


# ============================================================================== TLC plumbing

def _tlc_lines(out):
    return [l.strip() for l in out.splitlines() if l.startswith('"{') and l.rstrip().endswith('}"')]


def _decode(line):
    try:
        return json.loads(json.loads(line))
    except ValueError:
        return None


def _chunks(seq, n):
    k = max(1, (len(seq) + n - 1) // n)
    return [seq[i:i + k] for i in range(0, len(seq), k)]


def _pool(nproc=16):
    impl()          # build the parser (and the LALR tables) once, before forking
    return multiprocessing.get_context('fork').Pool(nproc)


def _new_stats():
    return dict(states=0, transitions=0, traces_validated=0, evaluations=0, distinct=0, samples=[], mismatches=[],
                mismatch_count=0, explained_count=0, unexplained_count=0, by_explanation={}, by_property={},
                wall_s=0.0, runs=[])


def _add_mismatch(st, m):
    st['mismatch_count'] += 1
    key = m['explained_by'] or 'UNEXPLAINED'
    st['by_explanation'][key] = st['by_explanation'].get(key, 0) + 1
    for prop in m.get('properties', [m['property']]):
        bp = st['by_property'].setdefault(prop, {})
        bp[key] = bp.get(key, 0) + 1
    if m['explained_by']:
        st['explained_count'] += 1
    else:
        st['unexplained_count'] += 1
    # keep the unexplained ones (bounded) and the shortest few witnesses per explanation
    st['mismatches'].append(m)
    _trim(st)


def _trim(st):
    groups = {}
    for m in st['mismatches']:
        groups.setdefault(m['explained_by'] or 'UNEXPLAINED', []).append(m)
    out = []
    for key, ms in groups.items():
        ms.sort(key=lambda m: len(m['input']))
        out += ms[:MAX_REPORTED if key == 'UNEXPLAINED' else WITNESSES]
    st['mismatches'] = out


def _merge(a, b):
    for k in ('states', 'transitions', 'traces_validated', 'evaluations', 'distinct', 'wall_s', 'mismatch_count',
              'explained_count', 'unexplained_count'):
        a[k] += b[k]
    a['samples'] = (a['samples'] + b['samples'])[:12]
    a['runs'] += b['runs']
    for k, v in b['by_explanation'].items():
        a['by_explanation'][k] = a['by_explanation'].get(k, 0) + v
    for prop, d in b['by_property'].items():
        bp = a['by_property'].setdefault(prop, {})
        for k, v in d.items():
            bp[k] = bp.get(k, 0) + v
    a['mismatches'] = a['mismatches'] + b['mismatches']
    _trim(a)
    return a


# ============================================================================== direction A: parser

T = {
    'a': 'a', 'f': 'f', '1': '1', 's': '"s"', '(': '(', ')': ')', '[': '[', ']': ']', '{': '{', '}': '}',
    ',': ',', ':': ':', '.': '.', '|': '|', '=': '=', '+=': '+=', '=>': '=>', '+': '+', '-': '-', '*': '*',
    '**': '**', '==': '==', '<': '<', 'in': 'in', 'not': 'not', 'and': 'and', 'or': 'or', 'if': 'if',
    'else': 'else', 'del': 'del', 'for': 'for', 'nl': '\n', ';': ';', 'crlf': '\r\n', 'True': 'True',
    'None': 'None', '/': '/',
}


def _grp(maxlen, names, prune=0):
    return {'maxlen': maxlen, 'alphabet': [cps(T[n]) for n in names], 'names': names, 'prune': prune}


def parse_groups(tier, suite):
    """Alphabet groups (lexemes) x length bounds.  prune = 0: every string up to the length is enumerated;
    prune = 1: every string the parser does not reject before its last token."""
    q = tier == 'quick'
    full = ['a', '1', 's', '(', ')', '[', ']', '{', '}', ',', ':', '.', '|', '=', '+=', '=>', '+', '-', '*', '**',
            '==', 'in', 'not', 'and', 'if', 'else', 'del', 'for', 'nl', ';']
    g = {
        # every token class, short strings: all pairs / triples of adjacent tokens
        'full': _grp(3 if q else 4, full),
        'fullv': _grp(4 if q else 5, full, 1),
        # operator table: one representative per level + prefix forms + if/else
        'ops': _grp(5 if q else 6, ['a', '+', '*', '**', '-', 'not', 'in', '==', 'and']),
        'ops2': _grp(5 if q else 6, ['a', 'or', 'if', 'else', '<', 'not', 'in', '-']),
        'opsv': _grp(7 if q else 9, ['a', '+', '**', '-', 'not', 'in', '==', 'and', 'if', 'else', '=>'], 1),
        # suffixes vs prefix / binary operators
        'suffix': _grp(5 if q else 6, ['a', '.', '|', '(', ')', '[', ']', '-']),
        'suffixv': _grp(6 if q else 7, ['a', '.', '|', '(', ')', '[', ']', '-', 'not', '**', ':'], 1),
        # calls, lists, lambdas, parameter lists, trailing commas
        'call': _grp(5 if q else 6, ['a', '(', ')', ',', '=>', '.', '|', '+']),
        'callv': _grp(10 if q else 11, ['a', '(', ')', ',', '=>', '.', '|'], 1),
        'list': _grp(5 if q else 6, ['a', '1', '[', ']', ',', ':', '=>']),
        'listv': _grp(9 if q else 10, ['a', '1', '[', ']', ',', ':'], 1),
        'dict': _grp(6 if q else 8, ['a', '{', '}', ':', ',']),
        'dictv': _grp(11 if q else 13, ['a', '{', '}', ':', ',', 'if', 'else'], 1),
        # statements, separators, index assignment, del, reserved words
        'stmt': _grp(5 if q else 6, ['a', '[', ']', '=', '+=', 'del', 'nl', ';', '1']),
        'stmtv': _grp(6 if q else 7, ['a', '[', ']', '=', '+=', 'del', 'nl', '1', '.', '(', ')'], 1),
        'resv': _grp(5 if q else 6, ['a', 'for', '(', ')', '=', '+', 'nl', ',', 'not', 'in']),
        # line numbers: separators and bracketed line breaks before an error
        'lines': _grp(5 if q else 6, ['a', 'nl', ';', 'crlf', '[', ']', ',', '+']),
        'linesv': _grp(6 if q else 8, ['a', 'nl', ';', 'crlf', '[', ']', ',', '+', '('], 1),
    }
    suites = {
        'C06': ['full', 'fullv', 'ops', 'ops2', 'opsv', 'suffix', 'suffixv', 'call', 'callv', 'list', 'listv', 'stmt', 'stmtv'],
        'C15': ['call', 'callv', 'list', 'listv', 'dict', 'dictv'],
        'C16': ['full', 'fullv', 'resv', 'stmt', 'opsv', 'callv'],
        'C20': ['lines', 'linesv', 'stmt', 'resv'],
        'all': list(g),
    }
    return [dict(g[n], id=n) for n in suites[suite]]


def _render_lexemes(group, s):
    return ' '.join(uncps(group['alphabet'][i - 1]) for i in s)


def _worker_parse_a(args):
    lines, groups = args
    im = impl()
    n = 0
    mism = []
    samples = []
    bad = 0
    per = {}
    for line in lines:
        rec = _decode(line)
        if rec is None or 's' not in rec or 'n' not in rec:
            if rec is not None and 'constants' in rec:
                continue
            bad += 1
            continue
        n += 1
        grp = groups[rec['g'] - 1]
        per[rec['g']] = per.get(rec['g'], 0) + 1
        text = _render_lexemes(grp, rec['s'])
        obs = im.parse(text)
        c = compare(obs, rec['n'])
        if c is not None:
            if rec['same']:
                expl = None
                exp = rec['n']
            else:
                cd = compare(obs, rec['d'])
                expl = _expl_name(rec['expl']) if cd is None else None
                exp = rec['n']
            mism.append(mk_mismatch(c, text, _show_spec(exp), _show_obs(obs), expl, 'A:' + grp['id']))
        elif not rec['same']:
            # the code agrees with the normative reading although a listed deviation says otherwise on this input
            m = mk_mismatch(compare(obs, rec['d']) or 'accept', text, _show_spec(rec['d']), _show_obs(obs), None,
                            'A:' + grp['id'])
            m['kind'] = 'deviation-absent:' + m['kind']
            m['note'] = 'code agrees with the normative specification but not with the listed deviations: ' + \
                        str(_expl_name(rec['expl']))
            mism.append(m)
        elif len(samples) < 2 and len(rec['s']) >= 3 and (obs['ok'] or n % 7 == 0):
            samples.append({'input': text, 'spec': _show_spec(rec['n']), 'observed': _show_obs(obs)})
    return n, bad, mism, samples, per


def check_constants(rec, st):
    """The grammar constants of the specification against the tree under test."""
    im = impl()
    diffs = []
    if rec['productions'] != im.productions():
        a, b = rec['productions'], im.productions()
        only_spec = [p for p in a if p not in b]
        only_impl = [p for p in b if p not in a]
        diffs.append(('productions', {'only_in_spec': only_spec, 'only_in_code': only_impl,
                                      'order_differs': not only_spec and not only_impl}))
    if rec['precedence'] != im.precedence():
        diffs.append(('precedence', {'spec': rec['precedence'], 'code': im.precedence()}))
    if rec['ruleorder'] != im.rule_order():
        diffs.append(('ruleorder', {'spec': rec['ruleorder'], 'code': im.rule_order()}))
    rf = im.reserved_follow()
    for w, las in rf.items():
        if sorted(rec['reservedFollow']) != las:
            diffs.append(('reservedFollow', {'word': w, 'spec': sorted(rec['reservedFollow']), 'code': las}))
    if sorted(rec['keywords']) != im.keywords():
        diffs.append(('keywords', {'spec': sorted(rec['keywords']), 'code': im.keywords()}))
    if not rec['noAttrAccess']:
        diffs.append(('NoAttrAccess', {'spec': False}))
    for name, d in diffs:
        _add_mismatch(st, mk_mismatch('grammar-constant', name, d.get('spec', d), d.get('code', d), None, 'A:constants'))
    return not diffs


def run_parse_a(tier='quick', seed=0, deviations=ALL_DEVIATIONS, suite='all'):
    st = _new_stats()
    t0 = time.time()
    groups = parse_groups(tier, suite)
    cfgfile = os.path.join(common.scratch_dir('lexparse'), 'mc_parse_%s_%s.json' % (suite, tier))
    with open(cfgfile, 'w') as f:
        json.dump({'deviations': sorted(deviations),
                   'groups': [{'maxlen': g['maxlen'], 'prune': g['prune'], 'alphabet': g['alphabet']} for g in groups]}, f)
    r = common.run_tlc('MC_Parse', cfg='MC_Parse.cfg', env={'LEXPARSE_CFG': cfgfile},
                       timeout=900 if tier == 'quick' else 3000, heap='12g')
    if not r.ok:
        raise MachineryError('TLC failed on MC_Parse: rc=%s\n%s' % (r.rc, r.out[-3000:]))
    lines = _tlc_lines(r.out)
    const = [x for x in (_decode(l) for l in lines[:50]) if x and 'constants' in x]
    if not const:
        raise MachineryError('MC_Parse did not print the grammar constants')
    check_constants(const[0], st)
    with _pool() as pool:
        res = pool.map(_worker_parse_a, [(c, groups) for c in _chunks(lines, 64)])
    n = sum(x[0] for x in res)
    bad = sum(x[1] for x in res)
    per_group = {}
    for x in res:
        for gi, k in x[4].items():
            per_group[groups[gi - 1]['id']] = per_group.get(groups[gi - 1]['id'], 0) + k
    if n != r.distinct:
        raise MachineryError('MC_Parse: %d records parsed, %d distinct states (%d malformed lines)' % (n, r.distinct, bad))
    for x in res:
        for m in x[2]:
            _add_mismatch(st, m)
        st['samples'] = (st['samples'] + x[3])[:8]
    st['states'] = r.generated
    st['distinct'] = r.distinct
    st['transitions'] = r.generated
    st['evaluations'] = n
    st['wall_s'] = time.time() - t0
    st['runs'].append({'model': 'MC_Parse', 'suite': suite, 'tier': tier, 'groups': {g['id']: [g['maxlen'], 'viable-prefix' if g['prune'] else 'all', g['names']] for g in groups},
                       'strings_per_group': per_group,
                       'strings': n, 'tlc_wall_s': round(r.wall, 1), 'wall_s': round(st['wall_s'], 1)})
    return st


EXPECTED_INVARIANT = {
    'NotInBindsTight': 'InvC06', 'ParenSingleParamRejected': 'InvC06',
    'MethodTrailingCommaDropsArg': 'InvC15', 'DictTrailingCommaRejected': 'InvC15',
    'EofAttributeError': 'InvC16',
    'SemicolonCountsAsLine': 'InvC20', 'BracketNewlineNotCounted': 'InvC20', 'NewlineTokenLineAfter': 'InvC20',
}


def run_deviation_models(tier='quick'):
    """Non-vacuity of the property invariants of MC_Parse (InvC06 / InvC15 / InvC16 / InvC20): they hold on the
    normative model and TLC finds a violation as soon as the corresponding deviation is switched on.
    -> dict(ok, rows=[{deviations, invariant, violated, witness}])"""
    groups = [g for g in parse_groups('quick', 'all') if g['id'] in ('full', 'opsv', 'callv', 'dictv', 'linesv')]
    for g in groups:
        g['maxlen'] = {'full': 2, 'opsv': 5, 'callv': 8, 'dictv': 11, 'linesv': 4}[g['id']]
    d = common.scratch_dir('lexparse')
    rows = []
    ok = True
    t0 = time.time()
    for devs, inv in [((), None)] + [((k,), v) for k, v in EXPECTED_INVARIANT.items()]:
        cfgfile = os.path.join(d, 'mcd_%s.json' % ('_'.join(devs) or 'none'))
        with open(cfgfile, 'w') as f:
            json.dump({'deviations': sorted(set(devs) | set(IMPL_DETAIL)),
                       'groups': [{'maxlen': g['maxlen'], 'prune': g['prune'], 'alphabet': g['alphabet']} for g in groups]}, f)
        tlccfg = os.path.join(d, 'MCD_Parse_%s.cfg' % (inv or 'all'))
        with open(tlccfg, 'w') as f:
            f.write('CONSTANTS\n  ExtraInfo <- MCExtraInfo\n  Deviations <- CfgDeviations\nINIT Init\nNEXT Next\n'
                    + ''.join('INVARIANT %s\n' % i for i in ([inv] if inv else ['InvC06', 'InvC15', 'InvC16', 'InvC20']))
                    + 'CHECK_DEADLOCK FALSE\n')
        r = common.run_tlc('MC_Parse', cfg=tlccfg, env={'LEXPARSE_CFG': cfgfile}, timeout=600)
        wit = None
        if r.invariant_violated:
            mg = re.findall(r'/\\ g = (\d+)', r.out)
            ms = re.findall(r'/\\ s = <<([\d, ]*)>>', r.out)
            if mg and ms:           # the last state of the error trace
                grp = groups[int(mg[-1]) - 1]
                wit = _render_lexemes(grp, [int(x) for x in ms[-1].split(',') if x.strip()])
        if inv is None:
            good = r.ok and not r.invariant_violated
        else:
            good = r.invariant_violated == inv
        if r.rc not in (0, 12) and not r.invariant_violated:
            raise MachineryError('TLC failed on MC_Parse/%s: rc=%s\n%s' % (inv, r.rc, r.out[-2000:]))
        ok = ok and good
        rows.append({'deviations': list(devs), 'invariant': inv or 'all four', 'violated': r.invariant_violated,
                     'as_expected': good, 'witness': wit, 'states': r.generated})
    return {'ok': ok, 'rows': rows, 'wall_s': round(time.time() - t0, 1)}


# ============================================================================== direction A: lexer

LEX_GENERAL = ['"', "'", '\\', 'r', 'a', 'n', '1', '.', '%', '#', '\n', '\r', ';', '(', ')', '=', '*', '>', '+',
               ' ', '\t', '\u00e9', '\u0663', '$', '_']
LEX_GENERAL_T = LEX_GENERAL + ['t', '[', '}', '<', '!', '-', '\u00b2']


def lex_groups(tier):
    """(id, maxlen, characters): every string over the characters up to the length is lexed."""
    q = tier == 'quick'
    gen4 = ['"', '\\', 'r', 'a', '1', '.', '%', '#', '\n', '\r', ';', '(', ')', '=', ' ', '$']
    return [
        ('general', 3 if q else 4, LEX_GENERAL if q else LEX_GENERAL_T),
        ('general4', 4 if q else 5, gen4),
        # string literals: quotes, backslash, the escape letters, raw prefix, line break
        ('strings', 6 if q else 7, ['"', "'", '\\', 'n', 'r', 't'] if q else ['"', "'", '\\', 'n', 'r', 't', '\n']),
        # names, numbers, %..% names, non-ASCII letters and digits
        ('names', 5 if q else 6, ['%', 'a', '1', '.', ' ', '\n', '\u0663', '\u00e9', 'i']),
        # operators and their longest-match / ordered-alternative behaviour
        ('ops', 5 if q else 6, ['=', '>', '<', '!', '*', '+', '-', '/', '.', '|']),
        # line structure: brackets, separators, comments
        ('lines', 5 if q else 6, ['(', ')', '[', '\n', '\r', ';', '#', 'a', ' ']),
    ]


def char_info(ch):
    """Class of a character as Python's re sees it (for the characters the specification has no table for)."""
    if re.fullmatch(r'\d', ch):
        cls = 'digit'
        dv = unicodedata.decimal(ch, -1)
    elif re.fullmatch(r'\w', ch):
        cls, dv = 'word', -1
    else:
        cls, dv = 'other', -1
    return {'cp': ord(ch), 'cls': cls, 's': ch, 'dv': dv}


def _builtin_char(c):
    return 32 <= c <= 126 or c in (9, 10, 13)


def extra_table(chars):
    return [char_info(chr(c)) for c in sorted(set(chars)) if not _builtin_char(c)]


def _worker_lex_a(args):
    lines, groups = args
    im = impl()
    n = bad = 0
    mism = []
    samples = []
    for line in lines:
        rec = _decode(line)
        if rec is None or 'toks' not in rec:
            bad += 1
            continue
        n += 1
        alphabet = groups[rec['g'] - 1][2]
        text = ''.join(alphabet[i - 1] for i in rec['s'])
        toks, err, res = im.tokens(text)
        names, nerr = im.names(text)
        clause = None
        sp_toks = [{'type': t['type'], 'text': t['text'], 'val': t['val']} for t in rec['toks']]
        ob_toks = []
        for t in toks:
            v = t['val']
            if t['type'] == 'NUMBER':        # the specification keeps the lexeme; compare the Decimal separately
                d = decimal.Decimal(uncps(t['text']))
                if value_to_json(d)['digs'] != v.get('digs') or value_to_json(d)['exp'] != v.get('exp') or not v.get('sub'):
                    clause = 'lex.tokens'
                v = t['text']
            ob_toks.append({'type': t['type'], 'text': t['text'], 'val': v})
        if clause is None and sp_toks != ob_toks:
            clause = 'lex.tokens'
        elif clause is None and rec['err'] != err['t']:
            clause = 'lex.err'
        elif clause is None and rec['err'] == 'illegal' and (rec['errch'] != err['ch'] or rec['errpos'] != err['pos']):
            clause = 'lex.errchar'
        elif clause is None and rec['names'] != names:
            clause = 'names.list'
        elif clause is None and (rec['err'] == 'illegal') != (nerr == 1):
            clause = 'names.err'
        # internal observables last (they never mask a clause a property speaks about): the lexer's own
        # line counter per token and its residual state
        elif clause is None and [t['lineno'] for t in rec['toks']] != [t['lineno'] for t in toks]:
            clause = 'lex.lineno'
        elif clause is None and rec['res'] != res:
            clause = 'lex.residue'
        if clause:
            mism.append(mk_mismatch(clause, text,
                                    {'toks': [(t['type'], uncps(t['text']), t['lineno']) for t in rec['toks']],
                                     'err': rec['err'], 'errch': rec['errch'], 'res': rec['res'],
                                     'names': [uncps(x) for x in rec['names']]},
                                    {'toks': [(t['type'], uncps(t['text']), t['lineno']) for t in toks], 'err': err,
                                     'res': res, 'names': [uncps(x) for x in names], 'nameserr': nerr},
                                    None, 'A:lex:' + groups[rec['g'] - 1][0]))
        elif len(samples) < 2 and len(rec['toks']) >= 2:
            samples.append({'input': text, 'spec_tokens': [(t['type'], uncps(t['text']), t['lineno'], t['line'])
                                                           for t in rec['toks']], 'err': rec['err']})
    return n, bad, mism, samples


def run_lex_a(tier='quick', seed=0, deviations=ALL_DEVIATIONS):
    st = _new_stats()
    t0 = time.time()
    groups = lex_groups(tier)
    cfgfile = os.path.join(common.scratch_dir('lexparse'), 'mc_lex_%s.json' % tier)
    with open(cfgfile, 'w') as f:
        json.dump({'groups': [{'maxlen': g[1], 'alphabet': [ord(c) for c in g[2]]} for g in groups],
                   'extra': extra_table(ord(c) for g in groups for c in g[2])}, f)
    r = common.run_tlc('MC_Lex', cfg='MC_Lex.cfg', env={'LEXPARSE_CFG': cfgfile},
                       timeout=900 if tier == 'quick' else 3000, heap='12g')
    if not r.ok:
        raise MachineryError('TLC failed on MC_Lex: rc=%s\n%s' % (r.rc, r.out[-3000:]))
    lines = _tlc_lines(r.out)
    with _pool() as pool:
        res = pool.map(_worker_lex_a, [(c, groups) for c in _chunks(lines, 64)])
    n = sum(x[0] for x in res)
    if n != r.distinct:
        raise MachineryError('MC_Lex: %d records parsed, %d distinct states' % (n, r.distinct))
    for x in res:
        for m in x[2]:
            _add_mismatch(st, m)
        st['samples'] = (st['samples'] + x[3])[:8]
    st['states'] = st['transitions'] = r.generated
    st['distinct'] = r.distinct
    st['evaluations'] = n
    st['wall_s'] = time.time() - t0
    st['runs'].append({'model': 'MC_Lex', 'tier': tier, 'groups': {g[0]: [g[1], g[2]] for g in groups}, 'strings': n,
                       'tlc_wall_s': round(r.wall, 1), 'wall_s': round(st['wall_s'], 1)})
    return st


def run_lex_sm(tier='quick'):
    """The lexer as a state machine (SQLexerSM: one action per rule) model-checked against the pure function Lex on all
    texts of length <= 3 over 31 characters; every rule action must have been taken (-coverage)."""
    st = _new_stats()
    t0 = time.time()
    r = common.run_tlc('MC_LexSM', cfg='MC_LexSM.cfg', coverage='force', timeout=900)
    if not r.ok:
        raise MachineryError('TLC failed on MC_LexSM: rc=%s %s\n%s' % (r.rc, r.invariant_violated, r.out[-2000:]))
    cov = {k: v for k, v in r.coverage().items() if k.startswith('R_')}
    missing = [k for k, v in cov.items() if v[0] == 0]
    if len(cov) != 32 or missing:
        raise MachineryError('MC_LexSM: rule actions never taken: %s (%d actions seen)' % (missing, len(cov)))
    st['states'] = st['transitions'] = r.generated
    st['distinct'] = r.distinct
    st['wall_s'] = time.time() - t0
    st['runs'].append({'model': 'MC_LexSM', 'invariants': ['AgreesWithLex', 'LineCounters', 'Deterministic'],
                       'states': r.generated, 'action_coverage': {k: v[1] for k, v in cov.items()},
                       'tlc_wall_s': round(r.wall, 1)})
    return st


# ============================================================================== direction B: generators

NAMES = ['a', 'b', 'f', 'x1', '_y', 'len', '%a b%', '%x.y%', 'r', 'né']
NUMBERS = ['1', '2', '0', '0.5', '007', '1.50', '12345678901234567890.123']
STRINGS = ['"s"', "'t'", 'r"\\n"', '"a\\"b"', '""', "'x\\ny'", '"#"', 'r\'\\\'\'']
TERMINAL_POOL = {
    'NAME': NAMES, 'NUMBER': NUMBERS, 'STRING': STRINGS, 'SHORT_OP': ['+=', '-=', '*=', '/='],
    'NEWLINE': ['\n', '\n', ';', '\r\n'],
    'EQ': ['=='], 'NE': ['!='], 'GT': ['>'], 'LT': ['<'], 'LTE': ['<='], 'GTE': ['>='], 'PLUS': ['+'], 'MINUS': ['-'],
    'TIMES': ['*'], 'POWER': ['**'], 'DIVIDE': ['/'], 'LPAREN': ['('], 'RPAREN': [')'], 'LBRACKET': ['['],
    'RBRACKET': [']'], 'COMMA': [','], 'DOT': ['.'], 'PIPE': ['|'], 'ASSIGN': ['='], 'LAMBDA': ['=>'], 'COLON': [':'],
    'LBRACE': ['{'], 'RBRACE': ['}'], 'AND': ['and'], 'OR': ['or'], 'IN': ['in'], 'NOT': ['not'], 'IF': ['if'],
    'ELSE': ['else'], 'TRUE': ['True'], 'FALSE': ['False'], 'NONE': ['None'], 'DEL': ['del'], 'FOR': ['for'],
    'WHILE': ['while'], 'BREAK': ['break'], 'CONTINUE': ['continue'], 'DEF': ['def'], 'RAISE': ['raise'],
    'ELIF': ['elif'],
}
ALL_LEXEMES = sorted({x for v in TERMINAL_POOL.values() for x in v})
OPENERS, CLOSERS = '([{', ')]}'


class SentenceGen:
    """Random derivations of the context-free grammar (the productions of the tree under test, no precedence
    filtering: both parsers must disambiguate -- or reject -- the same way)."""

    def __init__(self, productions, rng):
        self.rng = rng
        self.by_lhs = {}
        for lhs, rhs in productions:
            rhs = list(rhs)
            if '%prec' in rhs:
                rhs = rhs[:rhs.index('%prec')]
            if rhs == ['COMMENT']:
                continue            # the lexer never produces COMMENT tokens
            self.by_lhs.setdefault(lhs, []).append(rhs)
        self.height = {}
        changed = True
        while changed:
            changed = False
            for lhs, alts in self.by_lhs.items():
                for rhs in alts:
                    if all(s not in self.by_lhs or s in self.height for s in rhs):
                        h = 1 + max([self.height.get(s, 0) for s in rhs] or [0])
                        if h < self.height.get(lhs, 10 ** 9):
                            self.height[lhs] = h
                            changed = True

    def _alt_height(self, rhs):
        return 1 + max([self.height.get(s, 0) for s in rhs] or [0])

    def expand(self, sym, depth, out):
        if sym not in self.by_lhs:
            if sym not in TERMINAL_POOL:
                raise UnknownTerminal(sym)      # the tree under test declares a terminal the specification does not know
            out.append(self.rng.choice(TERMINAL_POOL[sym]))
            return
        alts = self.by_lhs[sym]
        ok = [a for a in alts if self._alt_height(a) <= max(depth, self.height[sym])]
        weights = [0.15 if (len(a) == 1 and a[0] in ('FOR', 'WHILE', 'BREAK', 'CONTINUE', 'DEF', 'RAISE', 'ELIF')) else
                   (0.5 if len(a) == 1 else 1.0) for a in ok]
        rhs = self.rng.choices(ok, weights)[0]
        for s in rhs:
            self.expand(s, depth - 1, out)

    def sentence(self, depth):
        # (sentences through a terminal unknown to the specification are not generated: 50 attempts, then the empty program)
        for _ in range(50):
            out = []
            try:
                self.expand('code', depth, out)
                return out
            except UnknownTerminal:
                continue
        return []


def _wordy(lexeme):
    return bool(re.match(r'[\w%"\']', lexeme[0])) or bool(re.match(r'[\w%"\']', lexeme[-1]))


def join_tokens(lexemes, rng, fancy=True):
    """Concatenate lexemes with random insignificant layout (never fusing two tokens).  Line breaks are only
    inserted inside brackets; the lexemes themselves may be separators."""
    out = []
    depth = 0
    prev = None
    for lx in lexemes:
        gap = ''
        if prev is not None:
            need = (_wordy(prev) and _wordy(lx)) or (not _wordy(prev) and not _wordy(lx)
                                                     and prev[-1] in '=<>!*+-/.' and lx[0] in '=<>*.')
            if prev[-1].isdigit() and lx[0] == '.' or prev[-1] == '.' and lx[0].isdigit():
                need = True
            k = rng.random() if fancy else 0.5
            if k < 0.25 and not need:
                gap = ''
            elif k < 0.8:
                gap = ' '
            elif k < 0.9:
                gap = rng.choice(['  ', '\t', ' \t '])
            elif depth > 0 and prev not in ('\n', '\r\n', ';'):
                gap = rng.choice(['\n', ' \n  ', '\r\n', ' # c\n', '\n\n'])
            else:
                gap = ' '
        out.append(gap)
        out.append(lx)
        if lx in OPENERS:
            depth += 1
        elif lx in CLOSERS:
            depth -= 1
        prev = lx
    return ''.join(out)


def mutate(lexemes, rng):
    l = list(lexemes)
    k = rng.randrange(4)
    if k == 0 and l:
        del l[rng.randrange(len(l))]
    elif k == 1:
        l.insert(rng.randrange(len(l) + 1), rng.choice(ALL_LEXEMES))
    elif k == 2 and l:
        l[rng.randrange(len(l))] = rng.choice(ALL_LEXEMES)
    elif l:
        l = l[:rng.randrange(len(l))]
    return l


def test_suite_strings():
    """Every string constant appearing in the repository's parser tests."""
    path = os.path.join(common.REPO, 'tests', 'test_sq_parser.py')
    out = []
    try:
        tree = ast.parse(open(path).read())
    except (OSError, SyntaxError):
        return out
    for node in ast.walk(tree):
        if isinstance(node, ast.Constant) and isinstance(node.value, str):
            out.append(node.value)
            if node.value != node.value.rstrip():
                out.append(node.value.rstrip())
    return sorted(set(out))


SOUP = ['"', "'", '\\', 'r', 'a', 'n', 't', '1', '0', '.', '%', '#', '\n', '\r', ';', '(', ')', '[', ']', '{', '}', '=',
        '*', '>', '<', '!', '+', '-', '/', '|', ',', ':', ' ', '\t', '_', 'é', 'д', '٣', '²', ' ',
        '$', '?', '\x00', '\x0b', '\x0c', '\x1f', '\x7f', ' ', '\U0001d4b3', '\ud800', 'i', 'f', 'o']


def soup(rng, n):
    return ''.join(rng.choice(SOUP) for _ in range(n))


# ---- random trees and their renderings (property C15)

BIN_LEVEL = {'or': 3, 'and': 4, '==': 5, '!=': 5, '>': 5, '<': 5, '>=': 5, '<=': 5, 'in': 5, 'not in': 5,
             '+': 6, '-': 6, '*': 7, '/': 7, '**': 8}
PLAIN_NAMES = ['a', 'b', 'c', 'f', 'g', 'x1', '_y']


def gen_expr(rng, d):
    k = rng.random()
    if d <= 0 or k < 0.22:
        j = rng.randrange(6)
        if j == 0:
            return {'k': 'val', 'v': value_to_json_literal(rng.choice(['1', '2', '0.5', '10']))}
        if j == 1:
            return {'k': 'val', 'v': {'t': 'str', 's': cps(rng.choice(['s', '', 'a b', '#x', "q'"]))}}
        if j == 2:
            return {'k': 'val', 'v': rng.choice([{'t': 'none'}, {'t': 'bool', 'b': True}, {'t': 'bool', 'b': False}])}
        return {'k': 'name', 'name': rng.choice(PLAIN_NAMES)}
    if k < 0.45:
        return {'k': 'bin', 'op': rng.choice(list(BIN_LEVEL)), 'ch': [gen_expr(rng, d - 1), gen_expr(rng, d - 1)]}
    if k < 0.52:
        return {'k': 'un', 'op': rng.choice(['-', 'not']), 'ch': [gen_expr(rng, d - 1)]}
    if k < 0.58:
        return {'k': 'if', 'ch': [gen_expr(rng, d - 1), gen_expr(rng, d - 1), gen_expr(rng, d - 1)]}
    if k < 0.75:
        return {'k': 'call', 'name': rng.choice(['f', 'g', 'len']), 'ch': [gen_expr(rng, d - 1) for _ in range(rng.randrange(4))]}
    if k < 0.82:
        return {'k': 'call', 'name': 'list', 'ch': [gen_expr(rng, d - 1) for _ in range(rng.randrange(4))]}
    if k < 0.88:
        n = rng.randrange(4)
        if n == 0:
            return {'k': 'call', 'name': 'dict', 'ch': []}
        return {'k': 'dict', 'ch': [gen_expr(rng, d - 1) for _ in range(2 * n)]}
    if k < 0.95:
        none = {'k': 'val', 'v': {'t': 'none'}}
        j = rng.randrange(6)
        if j < 2:
            key = gen_expr(rng, d - 1)
        elif j == 2:
            key = {'k': 'slice', 'ch': [gen_expr(rng, d - 1), gen_expr(rng, d - 1), none]}
        elif j == 3:
            key = {'k': 'slice', 'ch': [none, gen_expr(rng, d - 1), none]}
        elif j == 4:
            key = {'k': 'slice', 'ch': [gen_expr(rng, d - 1), none, none]}
        else:
            key = {'k': 'slice', 'ch': [none, none, gen_expr(rng, d - 1)]}
        return {'k': 'call', 'name': '__getitem__', 'ch': [gen_expr(rng, d - 1), key]}
    n = rng.randrange(1, 4)
    return {'k': 'lambda', 'params': rng.sample(PLAIN_NAMES, n), 'ch': [gen_expr(rng, d - 1)]}


def value_to_json_literal(text):
    return value_to_json(_SubDecimal(text))


class _SubDecimal(decimal.Decimal):      # a literal is an instance of the subclass (sub = TRUE)
    pass


def gen_stmt(rng, d):
    k = rng.random()
    if k < 0.5:
        return gen_expr(rng, d)
    if k < 0.65:
        return {'k': 'assign', 'name': rng.choice(PLAIN_NAMES), 'ch': [gen_expr(rng, d - 1)]}
    if k < 0.75:
        return {'k': 'short', 'name': rng.choice(PLAIN_NAMES), 'op': rng.choice(['+=', '-=', '*=', '/=']),
                'ch': [gen_expr(rng, d - 1)]}
    if k < 0.85:
        return {'k': 'call', 'name': '__setitem__', 'ch': [gen_expr(rng, d - 1), gen_expr(rng, d - 1), gen_expr(rng, d - 1)]}
    if k < 0.93:
        return {'k': 'call', 'name': '__setitem_with_op__',
                'ch': [gen_expr(rng, d - 1), gen_expr(rng, d - 1),
                       {'k': 'val', 'v': {'t': 'str', 's': cps(rng.choice(['+=', '-=', '*=', '/=']))}}, gen_expr(rng, d - 1)]}
    return {'k': 'call', 'name': '__delitem__', 'ch': [gen_expr(rng, d - 1), gen_expr(rng, d - 1)]}


def gen_tree(rng, d, nstmt):
    return {'k': 'code', 'ch': [gen_stmt(rng, d) for _ in range(nstmt)]}


class Render:
    """Unparse(tree, layout): a token list for a tree with the insignificant choices of property C15 made at random
    -- redundant parentheses, trailing commas, the three call spellings, sugar vs plain call.  Parentheses are
    omitted only where the operator table or the closedness of the child makes that safe.

    expr() returns (tokens, kind):  'closed'  complete on both sides (atoms, f(..), [..], {..}, x[i] on a closed x)
                                    'suffix'  r.f(..) / r | f(..) / chains of them: safe everywhere except as the
                                              operand of a prefix operator (- and not bind tighter than . and |)
                                    'open'    everything else: parenthesised unless it fills a delimited slot"""

    def __init__(self, rng, p_rewrite=0.35):
        self.rng = rng
        self.p = p_rewrite
        self.used = set()

    def yes(self, what):
        if self.rng.random() < self.p:
            self.used.add(what)
            return True
        return False

    def atom(self, t, allow_suffix=True):
        """(tokens, kind) of t usable as receiver / operand"""
        toks, kind = self.expr(t)
        bare_ok = kind == 'closed' or (kind == 'suffix' and allow_suffix)
        if bare_ok and not self.yes('parens'):
            return toks, kind
        return ['('] + toks + [')'], 'closed'

    def slot(self, t):
        """tokens of t in a delimited (maximal) expression slot"""
        toks, _ = self.expr(t)
        if self.yes('parens'):
            return ['('] + toks + [')']
        return toks

    def args(self, items, close):
        out = []
        for i, a in enumerate(items):
            if i:
                out.append(',')
            out += self.slot(a)
        if items and self.yes('trailing-comma'):
            out.append(',')
        return out + [close]

    def expr(self, t):
        k = t['k']
        rng = self.rng
        if k == 'val':
            v = t['v']
            if v['t'] == 'none':
                return ['None'], 'closed'
            if v['t'] == 'bool':
                return ['True' if v['b'] else 'False'], 'closed'
            if v['t'] == 'dec':
                return [treeconv.number_literal(v)], 'closed'
            return [treeconv.string_literal(uncps(v['s']))], 'closed'
        if k == 'name':
            return [t['name']], 'closed'
        if k == 'bin':
            lv = BIN_LEVEL[t['op']]
            parts = []
            for side, c in enumerate(t['ch']):
                if c['k'] == 'bin':
                    cl = BIN_LEVEL[c['op']]
                    right_assoc = lv == 8
                    bare = (lv, cl) != (5, 5) and (cl > lv or (cl == lv and (side == 1) == right_assoc))
                    if bare and not self.yes('parens'):
                        parts.append(self.expr(c)[0])
                    else:
                        parts.append(['('] + self.expr(c)[0] + [')'])
                else:
                    parts.append(self.atom(c)[0])
            return parts[0] + t['op'].split() + parts[1], 'open'
        if k == 'un':
            return [t['op']] + self.atom(t['ch'][0], allow_suffix=False)[0], 'open'
        if k == 'if':
            c, a, b = t['ch']
            return self.atom(a)[0] + ['if'] + self.slot(c) + ['else'] + self.slot(b), 'open'
        if k == 'lambda':
            ps = t['params']
            body = self.slot(t['ch'][0])
            if len(ps) == 1 and not self.yes('paren-param'):
                return [ps[0], '=>'] + body, 'open'
            head = ['(']
            for i, p in enumerate(ps):
                if i:
                    head.append(',')
                head.append(p)
            return head + [')', '=>'] + body, 'open'
        if k == 'dict':
            ch = t['ch']
            out = ['{']
            for i in range(0, len(ch), 2):
                if i:
                    out.append(',')
                out += self.slot(ch[i]) + [':'] + self.slot(ch[i + 1])
            if self.yes('trailing-comma'):
                out.append(',')
            return out + ['}'], 'closed'
        if k == 'call':
            name, a = t['name'], t['ch']
            if name == 'list' and not self.yes('sugar'):
                return ['['] + self.args(a, ']'), 'closed'
            if name == 'dict' and not a and not self.yes('sugar'):
                return ['{', '}'], 'closed'
            if name == '__getitem__' and len(a) == 2 and (a[1]['k'] == 'slice' or not self.yes('sugar')):
                recv, rk = self.atom(a[0])
                if a[1]['k'] == 'slice':
                    s0, s1, s2 = a[1]['ch']
                    none = treeconv._is_none
                    if none(s2):
                        inner = ([] if none(s0) else self.slot(s0)) + [':'] + ([] if none(s1) else self.slot(s1))
                        if none(s1) != none(s0) and self.yes('slice-colon'):
                            inner.append(':')           # e:: == e:   and   :e: == :e
                    else:
                        inner = [':', ':'] + self.slot(s2)
                else:
                    inner = self.slot(a[1])
                return recv + ['['] + inner + [']'], rk
            if name in PLAIN_NAMES + ['len'] and a and self.yes('call-spelling'):
                recv, _ = self.atom(a[0])
                rest = a[1:]
                if rng.randrange(3) == 0:
                    return recv + ['.', name, '('] + self.args(rest, ')'), 'suffix'
                if rest:
                    return recv + ['|', name, '('] + self.args(rest, ')'), 'suffix'
                return recv + ['|', name], 'open'
            return [name, '('] + self.args(a, ')'), 'closed'
        raise treeconv.Inexpressible(k)

    def stmt(self, t):
        k = t['k']
        if k == 'assign':
            return [t['name'], '='] + self.slot(t['ch'][0])
        if k == 'short':
            return [t['name'], t['op']] + self.slot(t['ch'][0])
        if k == 'call' and t['name'] in ('__setitem__', '__setitem_with_op__', '__delitem__') and not self.yes('sugar'):
            a = t['ch']
            if t['name'] == '__delitem__':
                return ['del'] + self.atom(a[0])[0] + ['['] + self.slot(a[1]) + [']']
            if t['name'] == '__setitem__':
                return self.atom(a[0])[0] + ['['] + self.slot(a[1]) + [']', '='] + self.slot(a[2])
            return self.atom(a[0])[0] + ['['] + self.slot(a[1]) + [']', uncps(a[2]['v']['s'])] + self.slot(a[3])
        return self.expr(t)[0]

    def code(self, tree):
        rng = self.rng
        out = []
        if self.yes('blank-statement'):
            out.append(rng.choice(['\n', ';', '\r\n']))
        for i, s in enumerate(tree['ch']):
            if i:
                out.append(rng.choice(['\n', ';', '\r\n', '\n']))
                if self.yes('blank-statement'):
                    out.append(rng.choice(['\n', ';', '\r\n']))
            out += self.stmt(s)
        if self.yes('blank-statement'):
            out.append(rng.choice(['\n', ';', '\r\n']))
        return out


def render_text(tokens, rng, fancy=True):
    """Token list -> text; comments may precede \n / \r\n separators."""
    toks = []
    for t in tokens:
        if t in ('\n', '\r\n') and fancy and rng.random() < 0.2:
            toks.append('#' + rng.choice([' note', '', ' x = "1"; y']))
        toks.append(t)
    # join_tokens treats '#...' lexemes as non-wordy; make sure a comment is separated and only precedes a break
    return join_tokens(toks, rng, fancy)


# ---- C20: stray tokens after separator mixtures

def gen_c20_case(rng):
    stmts = []
    for _ in range(rng.randrange(0, 5)):
        k = rng.randrange(6)
        if k == 0:
            stmts.append(['x', '=', '[', '1', ',', '\n', '2', ',', '\n', '3', ']'])
        elif k == 1:
            stmts.append(['f', '(', 'a', ',', '\r\n', 'b', ')'])
        elif k == 2:
            stmts.append(['{', '"k"', ':', '\n', '1', '}'])
        elif k == 3:
            stmts.append([])
        elif k == 4:
            stmts.append(['a', '+', '1'])
        else:
            stmts.append(['y', '+=', '(', '\n', '\n', '2', ')'])
    out = []
    for s in stmts:
        out += s + [rng.choice(['\n', ';', '\r\n'])]
    last = rng.choice([['a', '+', 'b'], ['x', '=', '1'], ['f', '(', 'a', ',', '\n', 'b', ')'], ['[', '1', ',', '\n', '2', ']'],
                       ['a', '[', '0', ']', '=', '2'], []])
    last = list(last)
    stray = rng.choice(['b', '1', ')', ']', '=', '+', 'else', ',', '"s"', '\n', ';', '}'])
    last.insert(rng.randrange(len(last) + 1), stray)
    out += last
    if rng.random() < 0.3:
        out += [rng.choice(['\n', ';']), 'z']
    return out


def generate_cases(tier, seed, kinds=('sentence', 'mutation', 'tests', 'soup', 'layout', 'c20', 'truncation')):
    """-> list of dict(text, origin[, want])"""
    rng = random.Random(seed * 7919 + 13)
    q = tier == 'quick'
    im = impl()
    cases = []
    sg = SentenceGen(im.productions(), rng)
    sentences = []
    if 'spelling' in kinds:
        # the call spellings f(x, a) / x.f(a) / x | f(a) inside larger sentences (unary operators, powers, subscripts and
        # other calls around them), each sentence also with its method dots and pipes swapped
        got = 0
        tries = 0
        while got < (700 if q else 6000) and tries < 200000:
            tries += 1
            sn = sg.sentence(rng.choice([3, 4, 5, 6]))
            if len(sn) > 40 or not any(t in ('.', '|') for t in sn):
                continue
            got += 1
            cases.append({'text': join_tokens(sn, rng), 'origin': 'spelling'})
            sw = [{'.': '|', '|': '.'}.get(t, t) if rng.random() < 0.7 else t for t in sn]
            cases.append({'text': join_tokens(sw, rng), 'origin': 'spelling'})
        # one-token programs with every kind of insignificant surrounding (special cases of a parser tend to live here)
        for t in ['x', 'total', '%a b%', '%x%', '_', 'x1', '1', '1.5', '"s"', 'True', 'None', '[]', '{}', 'f()', 'not x', '-x', 'x.f()', 'x | f', 'x[0]', 'r"a"', 'é']:
            for v in [t, t + '\n', t + '\r\n', t + ';', '\n' + t, t + ' ', ' ' + t, t + '\n\n', t + '\t', '(' + t + ')', t + ' # c', t + '\n# c', '\r\n' + t + '\r\n',
                      t + ';\n', t + '\n;', '\t' + t + '\n ', t + '\n' + t, t + ';' + t]:
                cases.append({'text': v, 'origin': 'spelling'})
        for s in ['-r.f(a)', '-r | f(a)', 'not r.f()', 'not r | f()', 'x ** -r.f(a)', 'y = -r[0].f(a).g()', '-r.f', '- r | f', 'a.f(b).g(c) | h(d)',
                  '-a ** b.f()', 'not a in b.f()', 'a if -b.f() else c | g()', 'a => -a.f()', '[-a.f(), not b | g()]', '{"k": -a.f()}']:
            cases.append({'text': s, 'origin': 'spelling'})
    if 'sentence' in kinds or 'mutation' in kinds or 'truncation' in kinds:
        want = 1500 if q else 12000
        maxtok = 40 if q else 120
        while len(sentences) < want:
            sn = sg.sentence(rng.choice([3, 4, 5, 6] if q else [3, 4, 5, 6, 7, 9]))
            if len(sn) <= maxtok:
                sentences.append(sn)
    if 'sentence' in kinds:
        for s in sentences:
            cases.append({'text': join_tokens(s, rng), 'origin': 'sentence'})
    if 'mutation' in kinds:
        for s in sentences[:(1200 if q else 8000)]:
            cases.append({'text': join_tokens(mutate(s, rng), rng), 'origin': 'mutation'})
    if 'truncation' in kinds:
        for s in sentences[:(120 if q else 600)]:
            for k in range(len(s)):
                cases.append({'text': ' '.join(s[:k]), 'origin': 'truncation'})
    if 'tests' in kinds:
        for s in test_suite_strings():
            cases.append({'text': s, 'origin': 'tests'})
    if 'soup' in kinds:
        for _ in range(1500 if q else 15000):
            cases.append({'text': soup(rng, rng.randrange(1, 12)), 'origin': 'soup'})
        for s in ['"abc', "'abc", 'r"abc', '"a\\', '"a\\\n"', '%abc', '%a\nb%', '"a\nb"', '\r', 'a\rb', '1.', '1.a', '.5',
                  '1..2', '1.2.3', 'a.b', '%%', '%%%', 'r', 'r""', "r'\\''", '"\\\\n"', '"\\\\"', '# c', '#', '# c\r\n1',
                  '١٢.٣', 'x²', '²x', 'a b', '﻿a', 'a;b', '(\n)\n)', ')\n1 2', '((((', '))))\n\na b']:
            cases.append({'text': s, 'origin': 'soup'})
    if 'layout' in kinds:
        for _ in range(1200 if q else 10000):
            tree = gen_tree(rng, rng.choice([1, 2, 2, 3]), rng.choice([1, 1, 2, 3]))
            r = Render(rng, rng.choice([0.0, 0.2, 0.5]))
            try:
                toks = r.code(tree)
            except treeconv.Inexpressible:
                continue
            cases.append({'text': render_text(toks, rng), 'origin': 'layout', 'want': tree,
                          'rewrites': sorted(r.used)})
            if rng.random() < 0.3:      # the canonical, fully parenthesised form of the same tree
                try:
                    cases.append({'text': treeconv.json_to_src(tree), 'origin': 'layout', 'want': tree, 'rewrites': ['canonical']})
                except treeconv.Inexpressible:
                    pass
    if 'c20' in kinds:
        for _ in range(800 if q else 6000):
            cases.append({'text': join_tokens(gen_c20_case(rng), rng, fancy=False), 'origin': 'c20'})
    # de-duplicate, keep order
    seen = set()
    out = []
    for c in cases:
        key = (c['text'], json.dumps(c.get('want'), sort_keys=True) if 'want' in c else None)
        if key not in seen:
            seen.add(key)
            out.append(c)
    return out


# ============================================================================== direction B: record + validate

def _guarded_observe(im, text):
    """im.observe under a wall-clock guard: lexing / parsing a short text takes microseconds; a change that makes the lexer or
    the parser loop must not hang the check - it is recorded as an observation that matches nothing the specification allows."""
    import signal

    def on_alarm(sig, frm):
        raise ObserveTimeout()
    old = signal.signal(signal.SIGALRM, on_alarm)
    signal.setitimer(signal.ITIMER_REAL, OBSERVE_TIMEOUT_S)
    try:
        return im.observe(text)
    except ObserveTimeout:
        res = {'pos': 0, 'lineno': 0, 'paren': 0}
        return {'chars': cps(text), 'toks': [], 'lexerr': {'t': 'exception:Timeout', 'ch': 0, 'pos': 0}, 'lexres': res, 'names': [], 'nameserr': 2,
                'parse': {'ok': False, 'class': 'BaseException:Timeout', 'msg': 'no result within %d s' % OBSERVE_TIMEOUT_S, 'kind': 'other',
                          'text': [], 'line': 0, 'ch': 0, 'look': 0, 'residue': res}}
    finally:
        signal.setitimer(signal.ITIMER_REAL, 0)
        signal.signal(signal.SIGALRM, old)


def _worker_observe(cases):
    im = impl()
    out = []
    for c in cases:
        rec = _guarded_observe(im, c['text'])
        if 'want' in c:
            rec['want'] = c['want']
        out.append(rec)
    return out


def _tlc_case(rec):
    """The JSON form TLC reads (no nulls, message text not needed)."""
    p = dict(rec['parse'])
    p.pop('msg', None)
    if p['ok']:
        p = {'ok': True, 'tree': p['tree'], 'look': p['look'], 'residue': p['residue']}
    r = {'chars': rec['chars'], 'toks': rec['toks'], 'lexerr': rec['lexerr'], 'lexres': rec['lexres'],
         'names': rec['names'], 'nameserr': rec['nameserr'], 'parse': p}
    if 'want' in rec:
        r['want'] = rec['want']
    return r


def validate_records(records, deviations, texts=None, origins=None):
    """TLC validates observation records; -> (tlc result, verdict list aligned with records)."""
    base = sorted(set(deviations) & set(IMPL_DETAIL))
    chars = set()
    for r in records:
        chars.update(r['chars'])
    doc = {'deviations': sorted(deviations), 'base': base, 'extra': extra_table(chars),
           'block': max(8, (len(records) + 255) // 256), 'cases': [_tlc_case(r) for r in records]}
    path = os.path.join(common.scratch_dir('lexparse'), 'cases_%d_%d.json' % (os.getpid(), int(time.time() * 1000) % 10 ** 9))
    with open(path, 'w') as f:
        json.dump(doc, f)
    r = common.run_tlc('TraceParse', cfg='TraceParse.cfg', env={'CASES_FILE': path, 'JAVA_TOOL_OPTIONS': '-Xss1g'},
                       extra=('-continue',),
                       timeout=3000, heap='12g')
    verdicts = {}
    for line in _tlc_lines(r.out):
        v = _decode(line)
        if v and 'i' in v and v.get('v') in ('accepted', 'rejected'):
            verdicts[v['i']] = v
    if len(verdicts) != len(records):
        raise MachineryError('TraceParse: %d verdicts for %d records (rc=%s)\n%s'
                             % (len(verdicts), len(records), r.rc, r.out[-3000:]))
    os.remove(path)
    return r, [verdicts[i + 1] for i in range(len(records))]


def judge_records(cases, records, verdicts, st):
    for c, rec, v in zip(cases, records, verdicts):
        text = c['text']
        obs = rec['parse']
        spec = v.get('spec', {})
        for clause in v['lex']:
            exp = {'toks': [(t['type'], uncps(t['text']), t['ilineno']) for t in spec.get('toks', [])],
                   'lexerr': spec.get('lexerr')}
            ob = {'toks': [(t['type'], uncps(t['text']), t['lineno']) for t in rec['toks']], 'lexerr': rec['lexerr'],
                  'lexres': rec['lexres'], 'names': [uncps(n) for n in rec['names']], 'nameserr': rec['nameserr']}
            _add_mismatch(st, mk_mismatch(clause, text, exp, ob, None, 'B:' + c['origin']))
        if v['n']:
            expl = _expl_name(v['expl']) if not v['d'] else None
            for clause in v['n'][:1]:
                cl = clause.split('.', 1)[1] if clause.startswith('parse.') else clause
                prop = None
                if c['origin'] == 'layout' and cl in ('accept', 'tree') and not expl:
                    prop = 'C15'
                m = mk_mismatch(cl, text, _show_spec(spec.get('n', {})) if isinstance(spec.get('n'), dict) else spec,
                                _show_obs(obs), expl, 'B:' + c['origin'], prop)
                if 'rewrites' in c:
                    m['rewrites'] = c['rewrites']
                _add_mismatch(st, m)
        elif v['d']:
            # accepted by the normative reading but not with the listed deviations on: a listed deviation is absent
            cl = v['d'][0]
            cl = cl.split('.', 1)[1] if cl.startswith('parse.') else cl
            m = mk_mismatch(cl, text, _show_spec(spec.get('d', {})) if isinstance(spec.get('d'), dict) else spec,
                            _show_obs(obs), None, 'B:' + c['origin'])
            m['note'] = 'code agrees with the normative specification but not with the listed deviations'
            m['kind'] = 'deviation-absent:' + cl
            _add_mismatch(st, m)


def run_cases_b(cases, deviations, st):
    """Observe with the real code, validate with TLC, judge; st is updated in place."""
    t0 = time.time()
    with _pool() as pool:
        parts = pool.map(_worker_observe, _chunks(cases, 64))
    records = [r for p in parts for r in p]
    if len(records) != len(cases):
        raise MachineryError('observation count')
    # layout cases: the specification's own LayoutInv  Parse(Lex(Unparse(t, layout))) = t  is part of the verdict
    r, verdicts = validate_records(records, deviations)
    judge_records(cases, records, verdicts, st)
    # LayoutInv  Parse(Lex(Unparse(t, layout))) = t  is checked by TLC on the specification for every layout record;
    # a failure there means the rendering (harness) or the specification is wrong -- never a silent pass
    for c, rec, v in zip(cases, records, verdicts):
        if 'want' in c and not v['layoutinv']:
            m = mk_mismatch('layout.want', c['text'], {'ok': True, 'tree': c['want']},
                            _show_spec(v['spec'].get('n', {})) if isinstance(v.get('spec', {}).get('n'), dict) else None,
                            None, 'B:layout', 'C15')
            m['note'] = 'LayoutInv fails on the SPECIFICATION: rendered tree is not what the normative Parse returns'
            m['rewrites'] = c.get('rewrites')
            _add_mismatch(st, m)
    st['traces_validated'] += len(records)
    st['states'] += r.generated
    st['transitions'] += r.generated
    st['distinct'] += r.distinct
    acc = sum(1 for v in verdicts if v['v'] == 'accepted')
    st['runs'].append({'model': 'TraceParse', 'records': len(records), 'accepted_with_listed_deviations': acc,
                       'rejected': len(records) - acc, 'accepted_normative': sum(1 for v in verdicts if not v['n'] and not v['lex']),
                       'by_origin': _count(c['origin'] for c in cases), 'tlc_wall_s': round(r.wall, 1)})
    for c, rec, v in list(zip(cases, records, verdicts))[:400:50]:
        st['samples'].append({'input': c['text'], 'origin': c['origin'], 'verdict': v['v'], 'observed': _show_obs(rec['parse'])})
    st['samples'] = st['samples'][:10]
    st['wall_s'] += time.time() - t0
    return records, verdicts


def _count(it):
    d = {}
    for x in it:
        d[x] = d.get(x, 0) + 1
    return d


# ============================================================================== public API

def run_direction_a(tier='quick', seed=0, deviations=ALL_DEVIATIONS):
    st = run_parse_a(tier, seed, deviations, 'all')
    _merge(st, run_lex_a(tier, seed, deviations))
    _merge(st, run_lex_sm(tier))
    return st


def run_direction_b(tier='quick', seed=0, deviations=ALL_DEVIATIONS, kinds=None):
    st = _new_stats()
    cases = generate_cases(tier, seed, kinds) if kinds else generate_cases(tier, seed)
    run_cases_b(cases, deviations, st)
    return st


def _view(st, prop):
    """The part of a result that concerns one property.  Unexplained mismatches of ANY clause are kept: they are
    violations (or machinery errors) whatever property the clause belongs to."""
    out = dict(st)
    out['property'] = prop
    out['all_properties'] = {'mismatch_count': st['mismatch_count'], 'by_property': st['by_property']}
    mine = dict(st['by_property'].get(prop, {}))
    unexpl = sum(d.get('UNEXPLAINED', 0) for d in st['by_property'].values())
    out['by_explanation'] = {k: v for k, v in mine.items() if k != 'UNEXPLAINED'}
    if unexpl:
        out['by_explanation']['UNEXPLAINED'] = unexpl
    out['explained_count'] = sum(v for k, v in mine.items() if k != 'UNEXPLAINED')
    out['unexplained_count'] = unexpl
    out['mismatch_count'] = out['explained_count'] + unexpl
    out['mismatches'] = [m for m in st['mismatches'] if prop in m.get('properties', [m['property']]) or not m['explained_by']]
    return out


def check_C06(tier='quick', seed=0, deviations=ALL_DEVIATIONS):
    st = run_parse_a(tier, seed, deviations, 'C06')
    b = _new_stats()
    run_cases_b(generate_cases(tier, seed, ('sentence', 'mutation', 'tests')), deviations, b)
    return _view(_merge(st, b), 'C06')


def check_C15(tier='quick', seed=0, deviations=ALL_DEVIATIONS):
    st = run_parse_a(tier, seed, deviations, 'C15')
    b = _new_stats()
    run_cases_b(generate_cases(tier, seed, ('layout', 'tests', 'spelling')), deviations, b)
    return _view(_merge(st, b), 'C15')


def check_C16_syntax(tier='quick', seed=0, deviations=ALL_DEVIATIONS):
    st = run_parse_a(tier, seed, deviations, 'C16')
    _merge(st, run_lex_a(tier, seed, deviations))
    b = _new_stats()
    run_cases_b(generate_cases(tier, seed, ('truncation', 'soup', 'mutation')), deviations, b)
    _merge(st, b)
    h = hostile_batch()
    st['runs'].append(h)
    for w in h['violations']:
        _add_mismatch(st, mk_mismatch('crash', w['input'], 'an ordinary Exception', w['observed'], None, 'hostile', 'C16'))
    return _view(st, 'C16')


def check_C18_names(tier='quick', seed=0, deviations=ALL_DEVIATIONS):
    st = run_lex_a(tier, seed, deviations)
    _merge(st, run_lex_sm(tier))
    b = _new_stats()
    run_cases_b(generate_cases(tier, seed, ('sentence', 'soup', 'tests', 'layout')), deviations, b)
    return _view(_merge(st, b), 'C18')


def check_C20(tier='quick', seed=0, deviations=ALL_DEVIATIONS):
    st = run_parse_a(tier, seed, deviations, 'C20')
    b = _new_stats()
    run_cases_b(generate_cases(tier, seed, ('c20', 'truncation', 'mutation')), deviations, b)
    return _view(_merge(st, b), 'C20')


def check_C06_spec(tier='quick', seed=0, deviations=ALL_DEVIATIONS):
    """Self-check of the SPECIFICATION (no implementation involved): the normative parser ParseD(., {}) against the
    declarative reading of C06 -- all derivation trees of the grammar (from Productions) filtered by the operator table
    (SQGrammarValid.tla): Sound, Complete, Unique, Derivable on all token strings up to a bound."""
    st = _new_stats()
    t0 = time.time()
    q = tier == 'quick'
    groups = [
        _grp(4 if q else 5, ['a', '+', '**', '-', 'not', 'in', '(', ')'] + ([] if q else ['=='])),
        _grp(4 if q else 5, ['a', '.', '|', '(', ')', '[', ']', '-'] + ([] if q else [':'])),
    ] + ([] if q else [
        _grp(5, ['a', '(', ')', ',', '=>', 'if', 'else', '+']),
        _grp(6, ['a', '{', '}', ':', ',', '[']),
        _grp(5, ['a', '[', ']', '=', '+=', 'del', 'nl', '1']),
    ])
    cfgfile = os.path.join(common.scratch_dir('lexparse'), 'mc_valid_%s.json' % tier)
    with open(cfgfile, 'w') as f:
        json.dump({'groups': [{'maxlen': g['maxlen'], 'alphabet': g['alphabet']} for g in groups]}, f)
    r = common.run_tlc('MC_ParseValid', cfg='MC_ParseValid.cfg', env={'LEXPARSE_CFG': cfgfile, 'JAVA_TOOL_OPTIONS': '-Xss256m'},
                       timeout=900 if q else 3000)
    if r.invariant_violated or 'Assumption' in r.out and 'is false' in r.out:
        mg = re.findall(r'/\\ g = (\d+)', r.out)
        ms = re.findall(r'/\\ s = <<([\d, ]*)>>', r.out)
        wit = None
        if mg and ms:
            wit = _render_lexemes(groups[int(mg[-1]) - 1], [int(x) for x in ms[-1].split(',') if x.strip()])
        m = mk_mismatch('spec:' + str(r.invariant_violated or 'ASSUME'), wit or '', 'normative Parse = grammar filtered by table',
                        'invariant violated on the specification itself', None, 'spec', 'C06')
        _add_mismatch(st, m)
    elif not r.ok:
        raise MachineryError('TLC failed on MC_ParseValid: rc=%s\n%s' % (r.rc, r.out[-3000:]))
    st['states'] = st['transitions'] = r.generated
    st['distinct'] = st['evaluations'] = r.distinct
    st['wall_s'] = time.time() - t0
    st['runs'].append({'model': 'MC_ParseValid', 'invariants': ['InvSound', 'InvComplete', 'InvUnique', 'InvDerivable'],
                       'groups': [[g['maxlen'], g['names']] for g in groups], 'strings': r.distinct,
                       'tlc_wall_s': round(r.wall, 1)})
    return _view(st, 'C06')


# ---- C16: hostile inputs in a subprocess (death by signal = violation)

_HOSTILE = r'''
import sys, json
sys.path.insert(0, %(harness)r)
sys.setrecursionlimit(10000)
import common
common.import_impl()
from smartquery.sq_parser import SqParser
p = SqParser()
inputs = {
  'nested-parens': '(' * 100000 + '1' + ')' * 100000,
  'nested-brackets': '[' * 100000,
  'unary-minus': '-' * 100000 + '1',
  'not-chain': 'not ' * 50000 + 'a',
  'long-name': 'a' * 1000000,
  'long-number': '1' * 200000,
  'long-string': '"' + 'x' * 1000000 + '"',
  'many-statements': ';' * 200000,
  'power-chain': '**'.join(['2'] * 20000),
  'lambda-chain': 'x => ' * 20000 + '1',
  'nul': '\x00',
  'surrogate': '\ud800',
}
out = {}
for k, s in inputs.items():
    for fn in ('parse', 'list_names'):
        try:
            r = p.parse(s) if fn == 'parse' else list(p.list_names(s))
            out[k + ':' + fn] = 'ok'
        except Exception as e:
            out[k + ':' + fn] = 'Exception:' + type(e).__name__
        except BaseException as e:
            out[k + ':' + fn] = 'BaseException:' + type(e).__name__
        print(json.dumps({k + ':' + fn: out[k + ':' + fn]}), flush=True)
'''


def hostile_batch():
    import subprocess
    t0 = time.time()
    code = _HOSTILE % {'harness': os.path.dirname(os.path.abspath(__file__))}
    p = subprocess.run(['timeout', '300', sys.executable, '-c', code], stdout=subprocess.PIPE, stderr=subprocess.PIPE,
                       text=True, env=dict(os.environ, PYTHONHASHSEED='0'))
    res = {}
    for line in p.stdout.splitlines():
        try:
            res.update(json.loads(line))
        except ValueError:
            pass
    viol = [{'input': k, 'observed': v} for k, v in res.items() if v.startswith('BaseException')]
    if p.returncode != 0:
        viol.append({'input': 'after ' + (list(res)[-1] if res else 'start'),
                     'observed': 'subprocess died rc=%d %s' % (p.returncode, p.stderr[-300:])})
    return {'model': 'hostile-batch', 'results': res, 'violations': viol, 'wall_s': round(time.time() - t0, 1)}


# ============================================================================== binding self-tests

def selftest_corruption(deviations=ALL_DEVIATIONS):
    """Corrupt one recorded field of a genuine observation and require TLC to reject exactly that record with the
    matching clause; the untouched records must be accepted.  -> (ok, report lines)"""
    import copy
    im = impl()

    def obs(text):
        return im.observe(text)

    def set_path(rec, path, fn):
        o = rec
        for k in path[:-1]:
            o = o[k]
        o[path[-1]] = fn(o[path[-1]])

    plan = [
        ('a + b * 2', None, None, None),
        ('a + b * 2', 'token type', (['toks', 0, 'type'], lambda v: 'NUMBER'), 'lex.tokens'),
        ('x = [1,\n2]\ny', 'token lineno', (['toks', 8, 'lineno'], lambda v: v + 1), 'lex.tokens'),
        ('"a\\nb"', 'string value', (['toks', 0, 'val'], lambda v: v[:-1]), 'lex.tokens'),
        ('a + b * 2', 'tree node', (['parse', 'tree', 'ch', 0, 'ch', 1, 'op'], lambda v: '+'), 'parse.tree'),
        ('2 ** 3 ** 2', 'tree shape (** regrouped to the left)',
         (['parse', 'tree', 'ch', 0], lambda t: {'k': 'bin', 'op': '**', 'ch': [
             {'k': 'bin', 'op': '**', 'ch': [t['ch'][0], t['ch'][1]['ch'][0]]}, t['ch'][1]['ch'][1]]}), 'parse.tree'),
        ('x = [1,\n2]\ny z', 'error line', (['parse', 'line'], lambda v: v + 1), 'parse.line'),
        ('x = [1,\n2]\ny z', 'error token', (['parse', 'text'], lambda v: cps('y')), 'parse.token'),
        ('1 +', 'exception class', (['parse', 'class'], lambda v: 'ParserError' if v != 'ParserError' else 'KeyError'),
         'parse.class'),
        ('a b', 'accept instead of reject',
         (['parse'], lambda v: {'ok': True, 'tree': {'k': 'code', 'ch': [{'k': 'name', 'name': 'a'}]}, 'look': v['look'],
                                'residue': v['residue']}), 'parse.accept'),
        ('f(a, %b c%)', 'name list', (['names'], lambda v: v[:-1]), 'names.list'),
        ('a $ b', 'illegal character', (['lexerr', 'ch'], lambda v: v + 1), 'lex.errchar'),
        ('(a\n', 'residual paren_count', (['lexres', 'paren'], lambda v: 0), 'lex.residue'),
        ('a\n\nb c', 'parser residue', (['parse', 'residue', 'lineno'], lambda v: v + 1), 'parse.residue'),
    ]
    records, expect = [], []
    for text, what, corr, clause in plan:
        r = copy.deepcopy(obs(text))
        if corr:
            set_path(r, corr[0], corr[1])
        records.append(r)
        expect.append((text, what, clause))
    _, verdicts = validate_records(records, deviations)
    ok = True
    lines = []
    for (text, what, clause), v in zip(expect, verdicts):
        got = v['lex'] + v['d']
        if clause is None:
            good = v['v'] == 'accepted'
            lines.append('%-4s untouched record %r -> %s' % ('ok' if good else 'FAIL', text, v['v']))
        else:
            good = v['v'] == 'rejected' and clause in got
            lines.append('%-4s corrupted %-38s of %r -> %s %s' % ('ok' if good else 'FAIL', what, text, v['v'], got))
        ok = ok and good
    # a listed deviation that is NOT in the specification run: the genuine record must be rejected
    r = [obs('1; 2; x y')]
    _, v1 = validate_records(r, [d for d in deviations if d != 'SemicolonCountsAsLine'])
    good = v1[0]['v'] == 'rejected' and 'parse.line' in v1[0]['d']
    lines.append('%-4s genuine record %r judged WITHOUT SemicolonCountsAsLine -> %s %s'
                 % ('ok' if good else 'FAIL', '1; 2; x y', v1[0]['v'], v1[0]['d']))
    return ok and good, lines


MUTANTS = {
    # name: (file, old, new, property expected to report an unexplained mismatch)
    'power-left-assoc': ('lexer.py', "('right', 'POWER')", "('left', 'POWER')", 'C06'),
    'uminus-below-pipe': ('lexer.py', "    ('left', 'PIPE'),\n    ('left', 'DOT'),\n    ('right', 'NOT'),\n    ('right', 'UMINUS'),",
                          "    ('right', 'UMINUS'),\n    ('left', 'PIPE'),\n    ('left', 'DOT'),\n    ('right', 'NOT'),", 'C06'),
    'percent-name-greedy': ('lexer.py', '(%.*?%)', '(%.*%)', 'C18'),
    'trailing-comma-list-dropped': ('rules.py', "    if len(p) == 3:\n        p[0] = CallOp(name='list', args=[])\n    else:",
                                    "    if len(p) == 3:\n        p[0] = CallOp(name='list', args=[])\n    elif len(p) == 5:\n"
                                    "        p[0] = CallOp(name='list', args=p[2][:-1])\n    else:", 'C15'),
    'lineno-counts-crlf-twice': ('lexer.py', "        t.lexer.lineno += 1\n        return t",
                                 "        t.lexer.lineno += len(t.value)\n        return t", 'C20'),
    # a REPAIR, not a defect: with EofAttributeError still listed the harness must notice that the deviation is gone
    'fix-eof-parsererror': ('rules.py', "def p_error(p):\n",
                            "def p_error(p):\n    if p is None:\n        raise ParserError('Syntax error: unexpected end of input')\n",
                            'C16'),
}


def make_mutant(name):
    """A scratch copy of the repository with one seeded change; -> its path (never touches /repo)."""
    import shutil
    fn, old, new, _ = MUTANTS[name]
    dst = os.path.join(common.scratch_dir('mutants'), name)
    if os.path.exists(dst):
        shutil.rmtree(dst)
    os.makedirs(dst)
    shutil.copytree(os.path.join(common.REPO, 'smartquery'), os.path.join(dst, 'smartquery'),
                    ignore=shutil.ignore_patterns('__pycache__'))
    if os.path.isdir(os.path.join(common.REPO, 'tests')):
        shutil.copytree(os.path.join(common.REPO, 'tests'), os.path.join(dst, 'tests'),
                        ignore=shutil.ignore_patterns('__pycache__'))
    path = os.path.join(dst, 'smartquery', fn)
    src = open(path).read()
    if old not in src:
        raise MachineryError('mutant %s does not apply to %s' % (name, fn))
    open(path, 'w').write(src.replace(old, new, 1))
    return dst


def selftest_mutants(names=None, tier='quick', seed=0):
    """Run the property check a mutant targets against a scratch copy (VERIF_REPO); it must report an unexplained
    mismatch.  -> (ok, report lines)"""
    import subprocess
    ok = True
    lines = []
    for name in (names or list(MUTANTS)):
        prop = MUTANTS[name][3]
        repo = make_mutant(name)
        out = os.path.join(common.scratch_dir('mutants'), name + '.json')
        t0 = time.time()
        p = subprocess.run([sys.executable, os.path.abspath(__file__), '--only', prop, '--tier', tier, '--seed', str(seed),
                            '--json', out], env=dict(os.environ, VERIF_REPO=repo, PYTHONHASHSEED='0'),
                           stdout=subprocess.PIPE, stderr=subprocess.STDOUT, text=True)
        detected = p.returncode == 1
        wit = ''
        try:
            res = json.load(open(out))[prop]
            w = [m for m in res['mismatches'] if not m['explained_by']]
            if w:
                w.sort(key=lambda m: len(m['input']))
                wit = '%d unexplained, e.g. %r [%s] expected %s observed %s' % (
                    res['unexplained_count'], w[0]['input'], w[0]['kind'],
                    json.dumps(w[0]['expected'])[:160], json.dumps(w[0]['observed'])[:160])
        except (OSError, ValueError, KeyError):
            wit = p.stdout[-400:]
        lines.append('%-4s mutant %-28s check %s rc=%d %.0fs  %s' % ('ok' if detected else 'MISS', name, prop, p.returncode,
                                                                       time.time() - t0, wit))
        ok = ok and detected
    return ok, lines


# ============================================================================== main

def summarize(name, st):
    print('%-18s states=%-8d traces=%-6d evals=%-8d mismatches=%-6d explained=%-6d UNEXPLAINED=%-4d wall=%.1fs'
          % (name, st['states'], st['traces_validated'], st['evaluations'], st['mismatch_count'],
             st['explained_count'], st['unexplained_count'], st['wall_s']))
    for k, v in sorted(st['by_explanation'].items()):
        w = next((m for m in st['mismatches'] if (m['explained_by'] or 'UNEXPLAINED') == k), None)
        print('    %-40s %6d   e.g. %r [%s/%s]' % (k, v, w['input'] if w else None, w['property'] if w else '',
                                                   w['kind'] if w else ''))


def main(argv):
    import argparse
    ap = argparse.ArgumentParser()
    ap.add_argument('--tier', default='quick')
    ap.add_argument('--seed', type=int, default=int(os.environ.get('VERIF_SEED', '0')))
    ap.add_argument('--deviations', default=','.join(ALL_DEVIATIONS),
                    help='comma separated list of deviations currently listed as present in the code ("" = none)')
    ap.add_argument('--only', default='', help='a, b, spec, C06, C15, C16, C18, C20')
    ap.add_argument('--json', default='')
    ap.add_argument('--selftest', default='', help='corruption | deviation-models | mutants | mutants:<name>,<name>')
    a = ap.parse_args(argv)
    if a.selftest:
        if a.selftest == 'corruption':
            ok, lines = selftest_corruption()
        elif a.selftest == 'deviation-models':
            res = run_deviation_models(a.tier)
            ok = res['ok']
            lines = ['%-4s deviations=%-32s invariant %-9s violated=%-8s witness=%r' % (
                'ok' if r['as_expected'] else 'FAIL', ','.join(r['deviations']) or '(none)', r['invariant'], r['violated'],
                r['witness']) for r in res['rows']]
        else:
            names = a.selftest.split(':', 1)[1].split(',') if ':' in a.selftest else None
            ok, lines = selftest_mutants(names, a.tier, a.seed)
        print('\n'.join(lines))
        print('SELFTEST %s' % ('PASSED' if ok else 'FAILED'))
        return 0 if ok else 1
    devs = tuple(d for d in a.deviations.split(',') if d)
    todo = [x for x in a.only.split(',') if x] or ['a', 'b', 'spec']
    fns = {'a': run_direction_a, 'b': run_direction_b, 'spec': check_C06_spec, 'C06': check_C06, 'C15': check_C15, 'C16': check_C16_syntax,
           'C18': check_C18_names, 'C20': check_C20}
    bad = 0
    results = {}
    for t in todo:
        st = fns[t](a.tier, a.seed, devs)
        results[t] = st
        summarize(t, st)
        bad += st['unexplained_count']
    if a.json:
        with open(a.json, 'w') as f:
            json.dump(results, f, indent=1, default=str)
    print('UNEXPLAINED MISMATCHES: %d' % bad)
    return 0 if bad == 0 else 1


if __name__ == '__main__':
    os.environ.setdefault('PYTHONHASHSEED', '0')
    try:
        sys.exit(main(sys.argv[1:]))
    except MachineryError as e:
        print('MACHINERY FAILURE: %s' % e)
        sys.exit(2)
