"""Neutral JSON form of smartquery trees and literal values (spec/CONVENTIONS.md).

tree_to_json(op)   dataclass tree -> JSON tree (structural, never through repr)
value_to_json(v)   literal / plain value -> JSON value
json_to_src(tree)  JSON tree -> fully parenthesised source text that parses back to the same tree
                   (raises Inexpressible for trees no source text can produce)

Classes are recognised by name, so the functions work on any copy of smartquery.
"""
import decimal
import re

Inexpressible = type('Inexpressible', (ValueError,), {})


def cps(s):
    return [ord(c) for c in s]


def uncps(a):
    return ''.join(chr(c) for c in a)


# ----------------------------------------------------------------------------- values

def _digits_of_int(n):
    return [int(c) for c in str(abs(n))]


def dec_to_json(d, sub=None):
    """decimal.Decimal -> {"t":"dec", sub, sign, digs, exp}; non-finite -> opaque."""
    sign, digs, exp = d.as_tuple()
    if not isinstance(exp, int):
        return {'t': 'opaque', 'type': 'Decimal:' + str(d)}
    if sub is None:
        sub = type(d) is not decimal.Decimal
    digs = list(digs)
    while len(digs) > 1 and digs[0] == 0:
        digs.pop(0)
    return {'t': 'dec', 'sub': bool(sub), 'sign': int(sign), 'digs': digs, 'exp': int(exp)}


def value_to_json(v):
    if v is None:
        return {'t': 'none'}
    if isinstance(v, bool):
        return {'t': 'bool', 'b': v}
    if isinstance(v, decimal.Decimal):
        return dec_to_json(v)
    if isinstance(v, int):
        return {'t': 'int', 'sign': 1 if v < 0 else 0, 'digs': _digits_of_int(v)}
    if isinstance(v, float):
        if v != v or v in (float('inf'), float('-inf')):
            return {'t': 'opaque', 'type': 'float:' + repr(v)}
        d = dec_to_json(decimal.Decimal(v), sub=False)
        return {'t': 'float', 'dec': {'sign': d['sign'], 'digs': d['digs'], 'exp': d['exp']}, 'repr': cps(repr(v))}
    if isinstance(v, str):
        return {'t': 'str', 's': cps(v)}
    if isinstance(v, tuple):
        return {'t': 'tuple', 'items': [value_to_json(x) for x in v]}
    if isinstance(v, slice):
        return {'t': 'slice', 'a': value_to_json(v.start), 'b': value_to_json(v.stop), 'c': value_to_json(v.step)}
    return {'t': 'opaque', 'type': type(v).__name__}


# ----------------------------------------------------------------------------- trees

def tree_to_json(op):
    n = type(op).__name__
    if n == 'ValueOp':
        return {'k': 'val', 'v': value_to_json(op.v)}
    if n == 'CodeOp':
        return {'k': 'code', 'ch': [tree_to_json(x) for x in op.lines]}
    if n == 'BinOp':
        return {'k': 'bin', 'op': op.op, 'ch': [tree_to_json(op.op1), tree_to_json(op.op2)]}
    if n == 'UnaryOp':
        return {'k': 'un', 'op': op.op, 'ch': [tree_to_json(op.op1)]}
    if n == 'AssignOp':
        return {'k': 'assign', 'name': op.name, 'ch': [tree_to_json(op.value)]}
    if n == 'ShortOp':
        return {'k': 'short', 'name': op.name, 'op': op.op, 'ch': [tree_to_json(op.value)]}
    if n == 'NameOp':
        return {'k': 'name', 'name': op.name}
    if n == 'IfExprOp':
        return {'k': 'if', 'ch': [tree_to_json(op.cond), tree_to_json(op.op1), tree_to_json(op.op2)]}
    if n == 'SliceOp':
        return {'k': 'slice', 'ch': [tree_to_json(op.start), tree_to_json(op.stop), tree_to_json(op.step)]}
    if n == 'CallOp':
        return {'k': 'call', 'name': op.name, 'ch': [tree_to_json(x) for x in op.args]}
    if n == 'DictOp':
        ch = []
        for k, v in op.d:
            ch.append(tree_to_json(k))
            ch.append(tree_to_json(v))
        return {'k': 'dict', 'ch': ch}
    if n == 'LambdaOp':
        return {'k': 'lambda',
                'params': [a.name if type(a).__name__ == 'NameOp' else '?' for a in op.args],
                'ch': [tree_to_json(op.expr)]}
    if n == 'NoOp':
        return {'k': 'noop'}
    raise TypeError('not a smartquery tree node: %r' % (op,))


def tree_size(t):
    return 1 + sum(tree_size(c) for c in t.get('ch', ()))


# ----------------------------------------------------------------------------- unparser

_STRING_RE = re.compile(r""" (r?\"([^\\\n]|(\\.))*?\") | (r?\'([^\\\n]|(\\.))*?\') """, re.VERBOSE)
_NAME_RE = re.compile(r""" (%.*?%) | ([^\W\d][\w0-9_]*([\w_][\w0-9_]*)*) """, re.VERBOSE)
KEYWORDS = {'and', 'or', 'in', 'not', 'if', 'else', 'True', 'False', 'None', 'del',
            'for', 'while', 'break', 'continue', 'def', 'raise', 'elif'}


def string_value(lexeme):
    """The value the shipped t_STRING rule computes for a string lexeme."""
    if lexeme[0] != 'r':
        return lexeme[1:-1].replace(r'\n', '\n').replace(r'\t', '\t').replace(r'\'', "'").replace(r'\"', '"')
    return lexeme[2:-1]


def string_literal(s):
    """A lexeme whose STRING value is s (tries cooked/raw x both quotes)."""
    cands = []
    for q in ('"', "'"):
        cooked = s.replace('\n', '\\n').replace(q, '\\' + q)
        cands.append(q + cooked + q)
        cands.append('r' + q + s + q)
    for c in cands:
        m = _STRING_RE.match(c)
        if m and m.end() == len(c) and string_value(c) == s:
            return c
    raise Inexpressible('string value has no literal: %r' % (s,))


def number_literal(v):
    if v.get('t') != 'dec' or v['sign'] != 0 or v['exp'] > 0 or not v.get('sub', True):
        raise Inexpressible('number has no literal: %r' % (v,))
    ds = ''.join(str(d) for d in v['digs'])
    e = -v['exp']
    if e == 0:
        return ds
    ds = ds.rjust(e + 1, '0')
    return ds[:-e] + '.' + ds[-e:]


def name_text(n):
    m = _NAME_RE.match(n)
    if not m or m.end() != len(n) or n in KEYWORDS:
        raise Inexpressible('not a NAME lexeme: %r' % (n,))
    return n


def _is_none(t):
    return t.get('k') == 'val' and t['v'].get('t') == 'none'


def _expr(t):
    """Source of an expression, safe in any operand position (always atomic or parenthesised)."""
    k = t['k']
    if k == 'val':
        v = t['v']
        ty = v['t']
        if ty == 'none':
            return 'None'
        if ty == 'bool':
            return 'True' if v['b'] else 'False'
        if ty == 'dec':
            return number_literal(v)
        if ty == 'str':
            return string_literal(uncps(v['s']))
        raise Inexpressible('value has no literal: %r' % (v,))
    if k == 'name':
        return name_text(t['name'])
    if k == 'bin':
        return '((%s) %s (%s))' % (_expr(t['ch'][0]), t['op'], _expr(t['ch'][1]))
    if k == 'un':
        return '(%s (%s))' % (t['op'], _expr(t['ch'][0]))
    if k == 'if':
        return '((%s) if (%s) else (%s))' % (_expr(t['ch'][1]), _expr(t['ch'][0]), _expr(t['ch'][2]))
    if k == 'call':
        args = t['ch']
        if t['name'] == '__getitem__' and len(args) == 2 and args[1]['k'] == 'slice':
            a, b, c = args[1]['ch']
            if _is_none(c):
                inner = '%s:%s' % ('' if _is_none(a) else '(%s)' % _expr(a), '' if _is_none(b) else '(%s)' % _expr(b))
            elif _is_none(a) and _is_none(b):
                inner = '::(%s)' % _expr(c)
            else:
                raise Inexpressible('slice with a step and a bound has no source form')
            return '((%s)[%s])' % (_expr(args[0]), inner)
        return '%s(%s)' % (name_text(t['name']), ', '.join('(%s)' % _expr(a) for a in args))
    if k == 'dict':
        ch = t['ch']
        if not ch:
            raise Inexpressible('empty DictOp has no source form')
        return '{%s}' % ', '.join('(%s): (%s)' % (_expr(ch[i]), _expr(ch[i + 1])) for i in range(0, len(ch), 2))
    if k == 'lambda':
        ps = t['params']
        if not ps or '?' in ps:
            raise Inexpressible('lambda parameter list has no source form: %r' % (ps,))
        body = _expr(t['ch'][0])
        if len(ps) == 1:
            return '(%s => (%s))' % (name_text(ps[0]), body)
        return '((%s) => (%s))' % (', '.join(name_text(p) for p in ps), body)
    raise Inexpressible('node kind %r is not an expression' % (k,))


def _stmt(t):
    k = t['k']
    if k == 'assign':
        return '%s = (%s)' % (name_text(t['name']), _expr(t['ch'][0]))
    if k == 'short':
        return '%s %s (%s)' % (name_text(t['name']), t['op'], _expr(t['ch'][0]))
    if k in ('noop', 'code', 'slice'):
        raise Inexpressible('node kind %r has no source form here' % (k,))
    return _expr(t)


def json_to_src(tree):
    """Fully parenthesised source text for a JSON tree (a "code" root gives one statement per line)."""
    if tree['k'] == 'code':
        return '\n'.join(_stmt(l) for l in tree['ch'])
    return _stmt(tree)
