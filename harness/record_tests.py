"""Run the repository's own test-suite (scratch copy) with SqParser.eval wrapped, and dump every
eval call (source, names before the call, budget) as a pickle.  Executed as a subprocess:
  python record_tests.py <snapshot dir> <tests dir> <out.pkl>"""
import copy
import pickle
import sys


def main(snap, tests, out):
    sys.path.insert(0, snap)
    import smartquery.sq_parser as sp
    calls = []
    orig = sp.SqParser.eval

    def rec(self, expr, names=None, ast_names=None, max_ops_evaluated=100):
        entry = {'src': expr, 'max': max_ops_evaluated, 'ast': ast_names is not None}
        try:
            entry['names'] = copy.deepcopy(names) if names is not None else None
            pickle.dumps(entry['names'])
        except Exception:
            entry['names'] = 'unpicklable'
        calls.append(entry)
        return orig(self, expr, names=names, ast_names=ast_names, max_ops_evaluated=max_ops_evaluated)
    sp.SqParser.eval = rec
    import pytest
    rc = pytest.main(['-q', '-p', 'no:cacheprovider', '-x', '--no-header', tests, '-o', 'addopts='])
    pickle.dump({'rc': int(rc), 'calls': calls}, open(out, 'wb'))


if __name__ == '__main__':
    main(*sys.argv[1:4])
