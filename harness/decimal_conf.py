#!/venv/bin/python
"""Conformance of spec/SQDecimal.tla against Python's real `decimal` module (prec 28).

Generates the fixed boundary cases plus N seeded random cases, evaluates each with `decimal` under the
default context, writes them as one JSON array and lets TLC (spec/TraceDecimal.tla)
check that the specification's operator yields exactly the same representation for
every case.

    /venv/bin/python /verif/harness/decimal_conf.py [N [seed]]

Stdlib only.  `run(n, seed)` returns dict(cases=, ok=, states=, wall_s=, ...).
"""
import decimal
import json
import math
import os
import random
import re
import shutil
import subprocess
import sys
import tempfile
import time
from decimal import Decimal

SPEC_DIR = os.path.join(os.path.dirname(os.path.dirname(os.path.abspath(__file__))), "spec")
PREC = 28
TLC_TIMEOUT_S = 900

SIGNALS = (
    ("DivisionByZero", decimal.DivisionByZero),
    ("InvalidOperation", decimal.InvalidOperation),  # includes DivisionUndefined (0/0)
    ("Overflow", decimal.Overflow),
)


# ----------------------------------------------------------------------------- context
def fresh_context():
    ctx = decimal.DefaultContext.copy()
    assert ctx.prec == PREC and ctx.rounding == decimal.ROUND_HALF_EVEN
    assert ctx.Emax == 999999 and ctx.Emin == -999999 and ctx.clamp == 0 and ctx.capitals == 1
    assert {t for t, on in ctx.traps.items() if on} == {
        decimal.InvalidOperation, decimal.DivisionByZero, decimal.Overflow}
    decimal.setcontext(ctx)
    return ctx


# ----------------------------------------------------------------------------- representations
def dec_rep(d):
    t = d.as_tuple()
    assert isinstance(t.exponent, int), d
    return {"sign": t.sign, "digs": list(t.digits), "exp": t.exponent}


def int_rep(n):
    return {"sign": 1 if n < 0 else 0, "digs": [int(ch) for ch in str(abs(n))]}


def cps(s):
    return [ord(ch) for ch in s]


def mk(sign, digits, exp):
    """Decimal from sign, digit string (canonicalised), exponent; exact, context free."""
    digits = digits.lstrip("0") or "0"
    return Decimal((sign, tuple(int(ch) for ch in digits), exp))


def sig_of(exc):
    for name, cls in SIGNALS:
        if isinstance(exc, cls):
            return {"sig": name}
    return {"sig": type(exc).__name__}


def guarded(ctx, fn, conv):
    """Evaluate fn() in a clean context.  Results that are subnormal (flag Subnormal or
    Underflow) are outside the specification: expect the marker "Unspecified"."""
    ctx.clear_flags()
    try:
        v = fn()
    except decimal.DecimalException as e:
        return sig_of(e)
    if ctx.flags[decimal.Subnormal] or ctx.flags[decimal.Underflow]:
        return {"sig": "Unspecified"}
    return conv(v)


# ----------------------------------------------------------------------------- case builders
class Gen:
    def __init__(self, seed):
        self.rnd = random.Random(seed)
        self.ctx = fresh_context()
        self.cases = []

    # -- single cases
    def binop(self, op, a, b):
        f = {"add": lambda: a + b, "sub": lambda: a - b,
             "mul": lambda: a * b, "div": lambda: a / b}[op]
        self.cases.append({"op": op, "a": dec_rep(a), "b": dec_rep(b),
                           "expect": guarded(self.ctx, f, dec_rep)})

    def unop(self, op, a):
        f = {"neg": lambda: -a, "plus": lambda: +a, "abs": lambda: abs(a)}[op]
        self.cases.append({"op": op, "a": dec_rep(a), "expect": guarded(self.ctx, f, dec_rep)})

    def cmp(self, a, b):
        self.cases.append({"op": "cmp", "a": dec_rep(a), "b": dec_rep(b),
                           "expect": (a > b) - (a < b)})
        self.cases.append({"op": "eq", "a": dec_rep(a), "b": dec_rep(b), "expect": a == b})

    def misc(self, a):
        self.cases.append({"op": "iszero", "a": dec_rep(a), "expect": not a})
        self.cases.append({"op": "digits", "a": dec_rep(a), "expect": len(a.as_tuple().digits)})

    def str_(self, a):
        self.cases.append({"op": "str", "a": dec_rep(a), "expect": cps(str(a))})

    def intstr(self, n):
        self.cases.append({"op": "intstr", "a": int_rep(n), "expect": cps(str(n))})

    def int2dec(self, n):
        self.cases.append({"op": "int2dec", "a": int_rep(n), "expect": dec_rep(Decimal(n))})

    def toint(self, a, mode):
        f = {"trunc": int, "floor": math.floor, "ceil": math.ceil, "half_even": round}[mode]
        v = f(a)
        assert type(v) is int
        self.cases.append({"op": "toint", "a": dec_rep(a), "mode": mode, "expect": int_rep(v)})

    def quantize(self, a, nd):
        self.cases.append({"op": "quantize", "a": dec_rep(a), "nd": nd,
                           "expect": guarded(self.ctx, lambda: round(a, nd), dec_rep)})

    def lit(self, text):
        assert re.fullmatch(r"\d+(\.\d+)?", text), text
        self.cases.append({"op": "lit", "a": cps(text), "expect": dec_rep(Decimal(text))})

    def pow(self, a, n):
        self.cases.append({"op": "pow", "a": dec_rep(a), "n": n,
                           "expect": guarded(self.ctx, lambda: a ** Decimal(n), dec_rep)})

    def smallnat(self, a):
        ok = (a == a.to_integral_value()) and 0 <= a <= 50
        self.cases.append({"op": "smallnat", "a": dec_rep(a), "expect": int(a) if ok else -1})

    # -- random material
    def rdigs(self, k):
        """k random digits, the first one non-zero."""
        r = self.rnd
        if k <= 0:
            return ""
        return r.choice("123456789") + "".join(r.choice("0123456789") for _ in range(k - 1))

    def digits(self, n):
        """An n-digit coefficient biased towards carries, ties and trailing zeros."""
        r = self.rnd
        if n == 1:
            return str(r.randint(1, 9))
        kind = r.random()
        k = PREC if (n > PREC and r.random() < 0.5) else r.randint(1, n - 1)
        if kind < 0.12:
            return "9" * n
        if kind < 0.20:
            return "1" + "0" * (n - 1)
        if kind < 0.28:                                   # exact tie after k digits
            return self.rdigs(k) + "5" + "0" * (n - k - 1)
        if kind < 0.32:                                   # just above / below a tie
            return (self.rdigs(k) + r.choice(["49999999", "50000001", "4", "6"]) + "0" * n)[:n]
        if kind < 0.40:                                   # run of nines (carry chains)
            return self.rdigs(k) + "9" * (n - k)
        if kind < 0.48:                                   # trailing zeros
            return self.rdigs(k) + "0" * (n - k)
        return self.rdigs(n)

    def operand(self, wide_exp=True):
        r = self.rnd
        if r.random() < 0.06:
            return mk(r.randint(0, 1), "0", r.choice([0, 0, -2, 3, -30, 40, r.randint(-60, 60)]))
        n = r.choice([1, 1, 2, 3, 5, 9, 14, 20, 26, 27, 27, 28, 28, 28, 29, 29, 30, 31, 40, 40, 56, 57])
        u = r.random()
        if u < 0.70:
            e = r.randint(-35, 10)
        elif u < 0.90 or not wide_exp:
            e = r.randint(-70, 70)
        elif u < 0.95:
            e = r.randint(-3000, 3000)
        else:
            e = r.choice([1, -1]) * r.randint(400000, 999990)
        return mk(r.randint(0, 1), self.digits(n), e)

    def related(self, a):
        """An operand close to a (cancellation, exponent alignment, exact quotients)."""
        r = self.rnd
        t = a.as_tuple()
        ds = "".join(map(str, t.digits))
        u = r.random()
        if u < 0.25:                                      # same magnitude, tiny difference
            n = int(ds) + r.choice([-1, 1, 0, 2, -5, 10])
            return mk(r.randint(0, 1), str(max(n, 0)), t.exponent)
        if u < 0.5:                                       # far smaller / larger: sticky digit logic
            return mk(r.randint(0, 1), self.digits(r.choice([1, 2, 28, 29])),
                      t.exponent + r.choice([-1, 1]) * r.randint(20, 70))
        if u < 0.75:                                      # small divisor / multiplier
            return mk(r.randint(0, 1), r.choice(["2", "3", "4", "5", "7", "8", "16", "25", "125", "3", "9", "11"]),
                      r.randint(-3, 3))
        return mk(r.randint(0, 1), ds, t.exponent + r.randint(-3, 3))


def boundary(g):
    D = Decimal
    n9 = lambda k: "9" * k
    P = PREC
    # carries ...999 + 1, 27/28/29/40-digit operands, mixed signs
    for k in (1, 2, 27, 28, 29, 30, 40, 56):
        for e in (0, -5, 3):
            a = mk(0, n9(k), e)
            for b in (mk(0, "1", e), mk(0, "1", e + 1), mk(0, "5", e - 1), mk(0, "1", e + k - P),
                      mk(0, "5", e + k - P - 1), mk(0, "49", e + k - P - 2), mk(0, "51", e + k - P - 2)):
                for sa in (0, 1):
                    for sb in (0, 1):
                        aa, bb = a.copy_negate() if sa else a, b.copy_negate() if sb else b
                        g.binop("add", aa, bb)
                        g.binop("sub", aa, bb)
    # ties at the 28th digit (half-even both ways), just above / below the tie
    for last in "0123456789":
        base = "1234567890123456789012345678"[:P - 1] + last
        for tail in ("5", "50", "500000", "49", "4999999999", "51", "5000000001", "05", "95"):
            x = mk(0, base + tail, -len(tail))
            for sgn in (0, 1):
                xx = x.copy_negate() if sgn else x
                g.unop("plus", xx)
                g.unop("neg", xx)
                g.unop("abs", xx)
                g.binop("add", xx, D("0"))
                g.binop("mul", xx, D("1"))
                g.binop("div", xx, D("1"))
    # the classic and zero handling
    g.binop("add", D("0.1"), D("0.2"))
    zeros = [mk(s, "0", e) for s in (0, 1) for e in (0, -2, 3, -40, 40, -999999, 999999, -1000050, 1000050, -2000000, 2000000)]
    some = [D("1"), D("-1"), D("1E+3"), D("-2.50"), mk(0, n9(28), 0), mk(1, n9(30), -10), D("1E-50"), D("7E+50")]
    for z in zeros:
        g.unop("neg", z); g.unop("plus", z); g.unop("abs", z); g.str_(z); g.misc(z)
        for z2 in zeros[:12]:
            for op in ("add", "sub", "mul", "div"):
                g.binop(op, z, z2)
        for x in some:
            for op in ("add", "sub", "mul", "div"):
                g.binop(op, z, x)
                g.binop(op, x, z)
            g.cmp(z, x); g.cmp(x, z)
    # widely different exponents (the _normalize shortcut), both orders, all sign pairs
    big = [D("1E+900000"), D("1.5E+999999"), mk(0, n9(28), 999971), mk(0, n9(28), 999972), mk(0, "1" + "0" * 27, 500000),
           mk(0, "1" + "0" * 39, 100), D("1E+40"), D("1E+29"), D("1E+28"), D("1E+27"), mk(0, "1" + "0" * 28, 0)]
    small = [D("1"), D("5E-1"), D("1E-900000"), D("4.9"), D("5"), D("5.1"), D("0.5"), mk(0, "5" + "0" * 30, -31),
             mk(0, "5" + "0" * 29 + "1", -31), mk(0, n9(40), -40)]
    for a in big:
        for b in small:
            for sa in (0, 1):
                for sb in (0, 1):
                    aa, bb = a.copy_negate() if sa else a, b.copy_negate() if sb else b
                    g.binop("add", aa, bb); g.binop("add", bb, aa); g.binop("sub", aa, bb); g.binop("sub", bb, aa)
                    g.cmp(aa, bb)
            g.binop("mul", a, b); g.binop("div", a, b); g.binop("div", b, a); g.binop("mul", a, a)
    # operands straddling 10^k: tmp = 1000...0, other just below the rounding position
    for k in (27, 28, 29):
        a = mk(0, "1" + "0" * k, 0)
        for b in ("1", "4", "5", "6", "49", "50", "51", "499999", "500000", "500001"):
            for eb in (-1, -2, -3, -7, -30):
                g.binop("sub", a, mk(0, b, eb)); g.binop("add", a, mk(0, b, eb))
    # overflow / near overflow / underflow (Unspecified) in every operator
    edge = [D("9.999999999999999999999999999E+999999"), D("1E+999999"), D("1E+999998"), D("5E+999999"),
            D("1E-999999"), D("1E-1000026"), D("1.5E-999999"), D("1E+500000"), D("1E-500000"), D("2"), D("10"), D("0.1"), D("3")]
    for a in edge:
        for b in edge:
            for op in ("add", "sub", "mul", "div"):
                g.binop(op, a, b)
        g.unop("neg", a); g.unop("plus", a); g.str_(a)
    g.unop("plus", mk(0, n9(29), 999971)); g.unop("plus", mk(0, n9(28) + "5", 999971)); g.unop("plus", mk(0, n9(28) + "4", 999971))
    g.unop("neg", mk(0, n9(29), 999971)); g.unop("abs", mk(1, n9(40), 999960))
    # exact and inexact quotients, ideal exponent rule
    nums = [D("1"), D("2"), D("10"), D("100"), D("1E+2"), D("1.00"), D("6"), D("6.0"), D("6.00E+3"), D("12"), D("1000"),
            D("0.001"), D("123456789"), mk(0, n9(28), 0), mk(0, n9(29), 0), mk(0, "1" + "0" * 40, -5), D("-7"), D("2.5"), D("1E-3"),
            mk(0, "1" * 40, 0), mk(0, "142857" * 7, -10)]
    dens = [D("1"), D("2"), D("3"), D("4"), D("5"), D("7"), D("8"), D("0.5"), D("2.0"), D("2.000"), D("2E+3"), D("16"), D("625"), D("1024"),
            D("3E-5"), D("-3"), D("9"), D("11"), D("10"), D("100"), D("1E+2"), mk(0, n9(28), 0), mk(0, n9(29), 3), mk(0, "1" * 40, -7),
            mk(0, "142857" * 7, 0), D("1.0000000000000000000000000001")]
    for a in nums:
        for b in dens:
            g.binop("div", a, b)
            g.binop("mul", a, b)
    # literals
    for text in ("0", "00", "007", "7", "0.0", "0.00", "007.10", "7.10", "10", "100", "0.1", "0.10", "1.0", "000.000", "0.001", "000.0010",
                 "123456789012345678901234567890", "1234567890123456789012345678.90", "0." + "0" * 60 + "1", "0" * 300 + "1",
                 "0" * 300 + "." + "0" * 300, "1" + "0" * 300, "0." + "9" * 40, "9" * 40 + "." + "9" * 40, "0" * 17, "0" * 16 + "1",
                 "0" * 15 + "20", "3." + "0" * 33, "0" * 33 + "4." + "0" * 33 + "5" + "0" * 33, "5.", "50"):
        if text.endswith("."):
            continue
        g.lit(text)
    # str() in all notations
    for ds in ("0", "1", "12", "123", "1234567", "1" + "0" * 27, n9(28), n9(40), "10", "100"):
        for e in (0, 1, 2, 5, 28, -1, -2, -3, -5, -6, -7, -8, -9, -10, -27, -28, -29, -33, -34, -45, -46, 100, -100, 999999, -999999, -1000026):
            for s in (0, 1):
                g.str_(mk(s, ds, e))
    # int / floor / ceil / round
    vals = [D("0"), D("-0"), D("0.0"), D("0E+5"), D("0E+100"), D("0.5"), D("-0.5"), D("1.5"), D("-1.5"), D("2.5"), D("-2.5"), D("0.49"), D("0.51"),
            D("-0.49"), D("-0.51"), D("1E-30"), D("-1E-30"), D("0.999"), D("-0.999"), D("9.5"), D("99.5"), D("-99.5"), D("999.4999"),
            D("1E+1"), D("1.0"), D("-1.00"), D("12345.678"), D("-12345.678"), D("1E+60"), D("1E+61"), D("-1.23E+62"), D("123E+100"),
            mk(0, n9(28), -1), mk(1, n9(28), -1), mk(0, n9(40), -20), mk(0, n9(40), 0), mk(0, n9(40), 5), mk(0, "25" + "0" * 30, -31),
            mk(0, "35" + "0" * 30, -31), mk(0, "25" + "0" * 29 + "1", -31), mk(0, "5", -1), mk(0, "5", -2), mk(0, "50", -2), mk(0, "500001", -6),
            D("1E-999999"), D("-1E-999999"), D("5E-1000"), mk(0, "1", 60), mk(0, n9(5), 60)]
    for v in vals:
        for mode in ("trunc", "floor", "ceil", "half_even"):
            g.toint(v, mode)
    # quantize = round(d, nd): negative nd, too many digits (InvalidOperation), zeros
    qv = [D("0"), D("-0"), D("0.000"), D("0E+10"), D("1"), D("-1"), D("123.456"), D("-123.456"), D("0.5"), D("1.5"), D("2.5"), D("0.05"), D("0.15"),
          D("0.25"), D("-0.25"), D("999.5"), D("999.95"), D("1E+3"), D("1E-3"), D("1234567890123456789012345678"), D("123456789012345678901234567.8"),
          D("12345678901234567890123456.78"), mk(0, n9(28), 0), mk(0, n9(28), -1), mk(0, n9(29), -1), mk(0, n9(28) + "5", -1), mk(0, n9(27) + "5", -1),
          mk(0, n9(40), -20), mk(0, n9(40), -39), mk(0, n9(40), -41), D("1E+27"), D("1E+28"), D("5E-30"), D("1E+999999"), D("1E-999999"), D("4.5E+10"),
          D("1E+500"), D("1E-500")]
    for v in qv:
        for nd in (0, 1, 2, 3, 5, 27, 28, 29, 40, -1, -2, -3, -10, -27, -28, -29, 999999, 1000000, 1000026, 1000027, -999999, -1000000, 500, -500):
            g.quantize(v, nd)
    # neg / abs of 40-digit values
    for ds in (n9(40), "1" * 40, "1234567890" * 4, "1" + "0" * 38 + "5", "1234567890123456789012345678" + "5" + "0" * 11,
               "1234567890123456789012345677" + "5" + "0" * 11, "1234567890123456789012345677" + "5" + "0" * 10 + "1"):
        for e in (0, -20, 20, -45):
            for s in (0, 1):
                v = mk(s, ds, e)
                g.unop("neg", v); g.unop("abs", v); g.unop("plus", v); g.misc(v)
    # ints
    for n in (0, 1, -1, 7, 10, -10, 10 ** 27, 10 ** 28 - 1, 10 ** 28, -10 ** 40, 2 ** 31, 2 ** 64, -(2 ** 200), 12345678901234567890):
        g.intstr(n); g.int2dec(n)
    # comparison: equal values with different exponents, adjacent values, far apart
    cv = [D("1"), D("1.0"), D("1.000000000000000000000000000000000000"), D("1E+0"), D("10E-1"), D("0.1E+1"), D("1.0000000000000000000000000000000000001"),
          D("0.9999999999999999999999999999999999999"), D("-1"), D("-1.0"), D("1E+999999"), D("9.99E+999998"), D("1E-999999"), D("-1E-999999"),
          D("100"), D("1E+2"), D("99.999"), mk(0, n9(40), 0), mk(0, "1" + "0" * 40, 0), D("1E+40"), D("1E+41"), D("0"), D("-0"), D("0E+7")]
    for a in cv:
        for b in cv:
            g.cmp(a, b)
    # small-nat recogniser used by the power envelope
    for v in (D("0"), D("-0"), D("0.0"), D("1"), D("2"), D("50"), D("51"), D("5E+1"), D("6E+1"), D("1E+2"), D("5.0"), D("5.00"), D("50.000"), D("5.5"),
              D("0.5"), D("-1"), D("-0.0"), D("49.99"), D("1E+1"), D("1E-1"), D("10"), D("99"), D("100"), D("1E+5"), D("12E-1"), D("120E-1"), D("500E-1"), D("510E-1")):
        g.smallnat(v)
    # power envelope (relational): exact, inexact, zero, signs, overflow, 0 ** 0
    for a, n in ((D("2"), 10), (D("2"), 50), (D("1.1"), 2), (D("1.1"), 50), (D("-3"), 3), (D("-3"), 4), (D("0"), 0), (D("0"), 3), (D("-0"), 3), (D("-0.0"), 2),
                 (D("7"), 0), (D("10"), 28), (D("10"), 29), (D("1E+5"), 7), (D("9.99E+99999"), 10), (D("9.99E+99999"), 11), (D("1E+20000"), 50),
                 (D("1E+20000"), 49), (D("1234567.891"), 5), (D("0.3"), 17), (D("1.000000000000000000000000001"), 50), (mk(0, n9(28), -28), 50),
                 (mk(0, n9(28), 0), 2), (mk(0, n9(28), 0), 33), (mk(1, "1234567890123456789012345678", -10), 49), (D("5"), 41), (D("25"), 20), (D("0.5"), 50)):
        g.pow(a, n)


def randoms(g, total):
    r = g.rnd
    while len(g.cases) < total:
        u = r.random()
        a = g.operand()
        if u < 0.50:
            b = g.related(a) if r.random() < 0.45 else g.operand()
            op = r.choice(["add", "sub", "add", "sub", "mul", "div", "div"])
            if r.random() < 0.5:
                a, b = b, a
            g.binop(op, a, b)
        elif u < 0.58:
            g.unop(r.choice(["neg", "plus", "abs"]), a)
        elif u < 0.66:
            b = g.related(a) if r.random() < 0.6 else g.operand()
            g.cmp(a, b)
        elif u < 0.74:
            g.str_(a)
        elif u < 0.82:
            a = g.operand(wide_exp=False)
            g.toint(a, r.choice(["trunc", "floor", "ceil", "half_even"]))
        elif u < 0.90:
            a = g.operand(wide_exp=False)
            g.quantize(a, r.choice([0, 1, 2, 3, -1, -2, r.randint(-40, 60), r.randint(-5, 30)]))
        elif u < 0.95:
            ip = "0" * r.choice([0, 0, 1, 5]) + "".join(r.choice("0123456789") for _ in range(r.randint(1, 35)))
            fp = "".join(r.choice("0123456789") for _ in range(r.randint(1, 35))) + "0" * r.choice([0, 0, 1, 7])
            g.lit(ip if r.random() < 0.3 else ip + "." + fp)
        elif u < 0.97:
            n = r.choice([1, -1]) * int(g.digits(r.choice([1, 5, 10, 28, 29, 40, 77])))
            g.intstr(n); g.int2dec(n)
        elif u < 0.99:
            g.misc(a)
        else:
            a = mk(r.randint(0, 1), g.digits(r.choice([1, 2, 5, 12, 28])), r.randint(-30, 10))
            g.pow(a, r.randint(0, 50))


def generate(n=3000, seed=1):
    """All boundary cases (deterministic) followed by n seeded random cases."""
    g = Gen(seed)
    boundary(g)
    nb = len(g.cases)
    randoms(g, nb + n)
    return g.cases, nb


# ----------------------------------------------------------------------------- TLC
def run_tlc(cases_file, workers=16, timeout_s=TLC_TIMEOUT_S):
    meta = tempfile.mkdtemp(prefix="tlc_decconf_")
    env = dict(os.environ)
    env["CASES_FILE"] = cases_file
    env["JAVA_TOOL_OPTIONS"] = (env.get("JAVA_TOOL_OPTIONS", "") + " -Djava.io.tmpdir=" + meta).strip()   # TLC's tlc-<n> directory goes where we clean up
    # deliberately no -Xss here: SQDecimal must work with the default JVM thread stack
    cmd = ["timeout", str(timeout_s), "tlc", "-workers", str(workers), "-continue",
           "-metadir", meta, "-noGenerateSpecTE", "-config", "TraceDecimal.cfg", "TraceDecimal.tla"]
    t0 = time.time()
    try:
        p = subprocess.run(cmd, cwd=SPEC_DIR, env=env, stdout=subprocess.PIPE, stderr=subprocess.STDOUT,
                           text=True, timeout=timeout_s + 30)
        out, rc = p.stdout, p.returncode
    except subprocess.TimeoutExpired as e:
        out, rc = (e.stdout or "") + "\n[harness] TLC timed out", 124
    finally:
        shutil.rmtree(meta, ignore_errors=True)
    wall = time.time() - t0
    m = re.search(r"(\d+) states generated, (\d+) distinct states found", out)
    states = int(m.group(2)) if m else None
    # PrintT pretty-prints long tuples over several lines: << "MISMATCH",\n   1350, ...
    mism = sorted({int(x) for x in re.findall(r'<<\s*"MISMATCH",\s*(\d+),', out)})
    # with -continue TLC still says "No error has been found" and exits 0 after
    # invariant violations, so any "Error:" line counts as failure
    clean = ("Model checking completed." in out) and ("Error:" not in out)
    return dict(rc=rc, states=states, wall_s=round(wall, 2), mismatches=mism, clean=clean, output=out)


def run(n=3000, seed=1, workers=16, keep=False, cases_file=None):
    """Generate (or reuse cases_file), check with TLC, return a verdict dict."""
    tmpdir = None
    if cases_file is None:
        cases, nb = generate(n, seed)
        tmpdir = tempfile.mkdtemp(prefix="decconf_")
        cases_file = os.path.join(tmpdir, "cases.json")
        with open(cases_file, "w") as f:
            json.dump(cases, f, separators=(",", ":"))
    else:
        with open(cases_file) as f:
            cases = json.load(f)
        nb = None
    res = run_tlc(cases_file, workers=workers)
    expected_states = 2 * len(cases)
    ok = (res["rc"] == 0 and res["clean"] and not res["mismatches"] and res["states"] == expected_states)
    verdict = dict(cases=len(cases), boundary=nb, ok=ok, states=res["states"], wall_s=res["wall_s"],
                   mismatches=res["mismatches"][:20], rc=res["rc"], seed=seed)
    by_op = {}
    for c in cases:
        by_op[c["op"]] = by_op.get(c["op"], 0) + 1
    verdict["by_op"] = by_op
    if not ok:
        verdict["tlc_tail"] = res["output"][-3000:]
        verdict["first_bad"] = [cases[k - 1] for k in res["mismatches"][:3]]
    if keep or not ok:
        verdict["cases_file"] = cases_file
    elif tmpdir:
        shutil.rmtree(tmpdir, ignore_errors=True)
    return verdict


if __name__ == "__main__":
    pos = [x for x in sys.argv[1:] if not x.startswith("--")]
    n_ = int(pos[0]) if len(pos) > 0 else 3000
    seed_ = int(pos[1]) if len(pos) > 1 else 1
    v = run(n_, seed_, keep="--keep" in sys.argv)
    print(json.dumps(v, indent=1, default=str))
    sys.exit(0 if v["ok"] else 1)
