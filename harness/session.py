"""Session-layer drivers (properties C11, C17): sequences of parse / eval / list_names calls
on one long-lived SqParser, compared (a) with the same call on a freshly constructed
parser, (b) with the TLA+ session specification (spec/SQSession.tla via TraceSession.tla),
and for the cache (c) a cached parser against an uncached one in lock-step."""
import collections.abc
import copy
import json
import os
import random
import re
import sys
import time
from decimal import Decimal

from . import common

SOURCES = [
    ('valid', 'a = [1,\n 2]\nb'), ('valid', '1\n2'), ('valid', 'x = 1; y = 2\nx + y'), ('valid', '{"a": [1, 2], "b": {"c": 3}}'),
    ('valid', '[[1, 2], [3]]'), ('valid', 'round(rate * amount, 2)'), ('valid', 'q = [1, 2, 3] | map(v => v * 2)\nq'),
    ('valid', '"s" + 1'), ('valid', ''), ('valid', '# only a comment'), ('valid', 'len("abc")'), ('valid', 'k = {"n": [1]}\nk["n"]'),
    ('valid', 'z = [1, [2, [3]]]\nz'), ('valid', '(1 if True else 2)'),
    ('eof', '1 +'), ('eof', 'f(1, [2,'), ('eof', 'x ='), ('unbalanced', '(1,'), ('unbalanced', '{"k": [1, 2'),
    ('illegal', 'f(1, [2, $])'), ('illegal', '"abc'), ('illegal', '{"k": [for, 1]}'), ('illegal', 'a ? b'),
    ('syntax', 'x y'), ('syntax', 'a\nb\nc d'), ('syntax', '[1,\n2,\n3]\nx y'), ('syntax', '1; 2; x y'), ('reserved', 'for'), ('reserved', '1 + while'),
    ('runtime', 'undefined_name'), ('runtime', '[1][5]'), ('runtime', 'pop([])'), ('runtime', '1 / 0'), ('runtime', 'nofn()'),
    ('valid', 'total = 5'), ('runtime', 'total'), ('runtime', 'x + 1'), ('valid', 'len = 3'), ('valid', 'k = 7\nk'), ('runtime', 'k'),
    ('syntax', '1 +\n2'), ('syntax', 'total =\n5'), ('syntax', '[1, 2] |\nlen'), ('syntax', '\n\nx = 1\ny = 2 oops'), ('syntax', '\r\n  \nq = [1,\n2]\nq q'),
    ('valid', 'a = 1\n-2'), ('valid', 'x = 1\n[2]'), ('valid', 'f = v => v\n(1)'),
    ('valid', 'split("a  b c", "  ")'), ('valid', 'split("a  b c", " ")'), ('valid', 'x = "p  q"\nlen(x)'), ('runtime', '%first  name% + 1'), ('runtime', '%first name% + 1'),
    ('valid', 'w = "a\tb"\nw'), ('runtime', '%a b% + %a  b%'), ('runtime', '%a% + %b%'), ('syntax', '%a% %b%'), ('runtime', '%a%; %b%'),
    ('opslimit', '[1, 2, 3, 4, 5, 6, 7, 8] | map(v => v + 1) | map(v => v * 2) | map(v => v - 1) | map(v => v)'),
]
SHADOW_USES = [('len', 'len("abc")'), ('len', 'q = [1, 2, 3] | len\nq'), ('str', 'str(12) + "a"'), ('max', 'max(1, 2)'), ('lower', '"AB" | lower'),
               ('sorted', '[3, 1, 2] | sorted'), ('keys', 'keys({"a": 1})'), ('round', 'round(2.5)'), ('map', '[1, 2] | map(v => v + 1)'),
               ('list', '[1, 2]'), ('dict', '{"a": 1}'), ('__getitem__', '[1, 2][0]')]
STORIES = [('total = 5', 'total'), ('len = 3', 'len("abc")'), ('k = 7\nk', 'k + 1'), ('x = 1; y = 2\nx + y', 'y'), ('q = [1]\nq += [2]', 'q'),
           ('str = v => "s"', 'str(1)'), ('z = 1\nz = z / 0', 'z'), ('t = [1, 2, 3] | map(v => v)\nt', 't | len'), ('f = v => v + 1', 'f(1)'),
           ('max = 2', '[1, 2] | max'), ('u = 1\nundefined_name', 'u')]
NEAR = [lambda s: s, lambda s: s + '\n', lambda s: ' ' + s, lambda s: '\n' + s, lambda s: s + '  ', lambda s: s + '\n\n',
        # every blank doubled / turned into a tab - also INSIDE string literals and %...% names, where it makes a different program
        lambda s: s.replace(' ', '  '), lambda s: s.replace(' ', '\t'), lambda s: s.replace('  ', ' ')]


def norm_exc(e):
    msg = re.sub(r'0x[0-9a-fA-F]+', '0x?', str(e))
    return ('exc', type(e).__name__, msg[:300])


def norm_val(v, depth=0):
    """Structural, identity-free rendering of a result (for the differential comparison)."""
    if depth > 20:
        return '...'
    if isinstance(v, Decimal):
        return ('dec', str(v), type(v).__name__)
    if isinstance(v, (list, tuple)):
        return (type(v).__name__, [norm_val(x, depth + 1) for x in v])
    if isinstance(v, dict):
        return ('dict', [(k, norm_val(x, depth + 1)) for k, x in v.items()])
    if callable(v):
        return ('fn', getattr(v, '__qualname__', '?'))
    return (type(v).__name__, repr(v))


def do_call(parser, c, names):
    """Execute one call; returns a normalised outcome."""
    op = c['op']
    try:
        if op == 'parse':
            from .vmtrace import TRACER, Conv, tree_to_spec
            t = parser.parse(c['src'])
            return ('ok', tree_digest(t))
        if op == 'eval':
            kw = {}
            if c.get('max') is not None:
                kw['max_ops_evaluated'] = c['max']
            r = parser.eval(c['src'], names=names, **kw)
            return ('ok', norm_val(r))
        if op == 'names':
            return ('ok', list(parser.list_names(c['src'])))
        if op == 'names_partial':
            it = parser.list_names(c['src'])
            out = []
            for _ in range(c['k']):
                try:
                    out.append(next(it))
                except StopIteration:
                    break
            del it
            return ('ok', out)
    except BaseException as e:   # noqa
        if isinstance(e, (KeyboardInterrupt, SystemExit)):
            raise
        return norm_exc(e)
    raise ValueError(op)


def tree_digest(t):
    """Structural snapshot of a dataclass tree (no identities)."""
    import dataclasses
    if dataclasses.is_dataclass(t):
        # fields that take part in equality: a field declared compare=False is the implementation's own bookkeeping
        return (type(t).__name__, [(f.name, tree_digest(getattr(t, f.name))) for f in dataclasses.fields(t) if f.compare])
    if isinstance(t, (list, tuple)):
        return [tree_digest(x) for x in t]
    if isinstance(t, Decimal):
        return ('dec', str(t))
    return repr(t)


def random_calls(r, n, with_eval=True):
    calls = []
    for _ in range(n):
        kind, src = r.choice(SOURCES)
        src = r.choice(NEAR)(src) if r.random() < 0.3 else src
        if calls and r.random() < 0.25:
            kind, src = calls[-1]['kind'], calls[-1]['src']       # the same source again, immediately
        op = r.choice(['parse', 'eval', 'eval', 'names', 'names_partial'] if with_eval else ['parse', 'names', 'names_partial'])
        c = {'op': op, 'src': src, 'kind': kind}
        if op == 'eval':
            c['max'] = r.choice([None, None, 20, 7, 200]) if kind != 'opslimit' else r.choice([None, 30])
            c['n'] = r.choice([0, 1, 2, None])      # names mapping A / B / persistent / names omitted
        if op == 'names_partial':
            c['k'] = r.choice([0, 1, 2])
        calls.append(c)
    if with_eval and r.random() < 0.4:
        # a story: an evaluation WITHOUT a names mapping (or with one) assigns a name / shadows a builtin / fails after assigning;
        # a later evaluation (same or other mapping, or none) reads that name or uses that builtin
        w, rd = r.choice(STORIES)
        n1 = r.choice([None, None, 0, 2])
        first = {'op': 'eval', 'src': w, 'kind': 'valid', 'max': r.choice([None, None, 4]), 'n': n1}
        later = {'op': 'eval', 'src': rd, 'kind': 'runtime', 'max': None, 'n': r.choice([None, n1, 1])}
        i = r.randrange(0, len(calls) + 1)
        j = r.randrange(i, len(calls) + 1)
        calls = calls[:i] + [first] + calls[i:j] + [later] + calls[j:]
    if r.random() < 0.35:
        # a story: list_names stops inside brackets (abandoned after k names, a text with an unclosed bracket, an illegal character
        # inside a bracket, or a failed parse there); the next call is given a text in which a line break matters
        a = r.choice([{'op': 'names_partial', 'src': 'f(a, b)', 'k': 1}, {'op': 'names_partial', 'src': 'g([x, y],\n z)', 'k': 2}, {'op': 'names', 'src': 'f(1, [2,'},
                      {'op': 'names', 'src': 'push(items, "abc'}, {'op': 'names', 'src': 'items[price $ 2]'}, {'op': 'parse', 'src': 'max(1 2)'},
                      {'op': 'names_partial', 'src': 'a = [p,\nq,\nr]\nb', 'k': 2}, {'op': 'names', 'src': 'x = [1,\n2]\ny = (3'}])
        b_src, b_kind = r.choice([('1 +\n2', 'syntax'), ('total =\n5', 'syntax'), ('[1, 2] |\nlen', 'syntax'), ('x = [1, 2]\nlen(x)', 'valid'), ('a = 1\n-2', 'valid'),
                                  ('p = 1\nq = 2\np q', 'syntax'), ('f(a)\nb', 'runtime')])
        first = dict(a, kind='valid')
        second = {'op': r.choice(['parse', 'eval'] if with_eval else ['parse']), 'src': b_src, 'kind': b_kind, 'max': None, 'n': 0, 'k': 0}
        i = r.randrange(0, len(calls) + 1)
        calls = calls[:i] + [first, second] + calls[i:]
    return calls


def fresh_names():
    return [{'rate': Decimal('1.5'), 'amount': 3}, {'rate': 2, 'amount': Decimal(10), 'extra': [1]}, {}]


# ---------------------------------------------------------------------------------------------
# C11: long-lived parser vs fresh parser, per call
# ---------------------------------------------------------------------------------------------
def run_history(seq_seed, length):
    """One sequence on a long-lived parser; every call is also made on a brand-new parser with equal
    arguments.  Returns (records, differences)."""
    impl = common.import_impl()
    from smartquery.sq_parser import SqParser
    r = random.Random(seq_seed)
    calls = random_calls(r, length)
    P = SqParser()
    names_p = fresh_names()
    recs, diffs = [], []
    for i, c in enumerate(calls):
        n = c.get('n', 0)
        names_f = copy.deepcopy(names_p[n]) if n is not None else None
        F = SqParser()
        of = do_call(F, c, names_f)
        op = do_call(P, c, names_p[n] if n is not None else None)
        same = of == op and (c['op'] != 'eval' or n is None or norm_val(names_f) == norm_val(names_p[n]))
        recs.append({'call': {k: v for k, v in c.items()}, 'long_lived': op, 'fresh': of,
                     'residue': {'pos': P.lex.lexpos, 'lineno': P.lex.lineno, 'paren': getattr(P.lex, 'paren_count', 0)}})
        if not same:
            diffs.append({'index': i, 'calls': [{k: v for k, v in x.items()} for x in calls[:i + 1]], 'long_lived': op, 'fresh': of,
                          'names_long_lived': norm_val(names_p[n]) if n is not None else None, 'names_fresh': norm_val(names_f)})
        # the parser must remain usable after any exception
        if r.random() < 0.2:
            probe = {'op': 'eval', 'src': '1 + 1', 'max': None}
            ok = do_call(P, probe, {})
            if ok != ('ok', norm_val(Decimal(2))):
                diffs.append({'index': i, 'calls': [{k: v for k, v in x.items()} for x in calls[:i + 1]] + [probe], 'long_lived': ok,
                              'fresh': ('ok', norm_val(Decimal(2)))})
    return recs, diffs


def _hist_worker(arg):
    seed, length = arg
    try:
        return run_history(seed, length)
    except BaseException as e:   # noqa
        import traceback
        return None, [{'harness_error': ''.join(traceback.format_exception_only(type(e), e))}]


def run_histories(seed, n, length, procs=16):
    import multiprocessing as mp
    common.snapshot_repo()
    args = [(seed * 1000003 + i, length) for i in range(n)]
    ctx = mp.get_context('fork')
    with ctx.Pool(procs) as pool:
        return pool.map(_hist_worker, args, chunksize=max(1, n // (procs * 4)))


# ---------------------------------------------------------------------------------------------
# C17: cached parser vs uncached parser in lock-step
# ---------------------------------------------------------------------------------------------
class LRU(collections.abc.MutableMapping):
    def __init__(self, k):
        self.k = k
        self.d = collections.OrderedDict()

    def __getitem__(self, key):
        v = self.d[key]
        self.d.move_to_end(key)
        return v

    def __setitem__(self, key, v):
        self.d[key] = v
        self.d.move_to_end(key)
        while len(self.d) > self.k:
            self.d.popitem(last=False)

    def __delitem__(self, key):
        del self.d[key]

    def __iter__(self):
        return iter(self.d)

    def __len__(self):
        return len(self.d)


class Evicting(collections.abc.MutableMapping):
    """Forgets everything at once."""

    def __getitem__(self, key):
        raise KeyError(key)

    def __setitem__(self, key, v):
        pass

    def __delitem__(self, key):
        raise KeyError(key)

    def __iter__(self):
        return iter(())

    def __len__(self):
        return 0


def make_cache(kind, SqParser):
    if kind == 'dict':
        return {}
    if kind == 'warm':
        p = SqParser()
        return {'[[1, 2], [3]]': p.parse('[[1, 2], [3]]'), 'z = [1, [2, [3]]]\nz': p.parse('z = [1, [2, [3]]]\nz')}
    if kind == 'lru1':
        return LRU(1)
    if kind == 'lru2':
        return LRU(2)
    if kind == 'evict':
        return Evicting()
    raise ValueError(kind)


def mutate_result(v, r):
    """The host mutates what an evaluation returned (nested containers too)."""
    if isinstance(v, list):
        for x in v:
            mutate_result(x, r)
        if r.random() < 0.7:
            v.append(99)
        elif v:
            v.clear()
    elif isinstance(v, dict):
        for x in v.values():
            mutate_result(x, r)
        v['mutated'] = 1


def run_cache_sequence(seq_seed, length, kind):
    common.import_impl()
    from smartquery.sq_parser import SqParser
    r = random.Random(seq_seed)
    calls = [c for c in random_calls(r, length) if c['op'] in ('parse', 'eval')]
    # repeated and near-duplicate sources
    calls = calls + [dict(c, src=r.choice(NEAR)(c['src'])) for c in r.sample(calls, min(len(calls), length // 2))]
    r.shuffle(calls)
    if r.random() < 0.4:
        # a story: a text that uses a builtin is evaluated, the name is then shadowed (by the program on a persistent names
        # mapping, or by the host putting a function / a value under that name), and the same text is evaluated again
        b, use = r.choice(SHADOW_USES)
        n = r.choice([0, 1, 2])
        shadow = r.choice([{'op': 'eval', 'src': '%s = v => 42' % b, 'kind': 'valid', 'n': n, 'max': None},
                           {'op': 'eval', 'src': '%s = 7' % b, 'kind': 'valid', 'n': n, 'max': None},
                           {'op': 'host_set', 'src': '', 'kind': 'valid', 'n': n, 'key': b, 'val': r.choice(['fn', 'value'])}])
        first = {'op': r.choice(['eval', 'eval', 'parse']), 'src': use, 'kind': 'valid', 'n': n, 'max': None}
        again = {'op': 'eval', 'src': r.choice([use, use, use + '  ']), 'kind': 'valid', 'n': n, 'max': None}
        at = r.randrange(0, len(calls) + 1)
        calls = calls[:at] + [first, shadow, again] + calls[at:]
    cache = make_cache(kind, SqParser)
    K = SqParser(parse_cache=cache)
    U = SqParser()
    names_k, names_u = fresh_names(), fresh_names()
    diffs = []
    parsed_ok = set(cache) if hasattr(cache, 'keys') else set()
    for i, c in enumerate(calls):
        n = c.get('n', 0)
        if c['op'] == 'host_set':
            val = (lambda *a: 'host') if c['val'] == 'fn' else 'a host value'
            names_k[n][c['key']] = val
            names_u[n][c['key']] = val
            continue
        snap_before = {k: tree_digest(cache[k]) for k in list(cache)}
        ok = do_call(K, c, names_k[n] if n is not None else None)
        ou = do_call(U, c, names_u[n] if n is not None else None)
        text = c['src'].rstrip() if c['op'] == 'eval' else c['src']
        # which texts parse (an evaluation error still caches the tree)
        try:
            SqParser().parse(text)
            parsed_ok.add(text)
        except Exception:
            pass
        prefix = [{k: v for k, v in x.items()} for x in calls[:i + 1]]
        if ok != ou or (c['op'] == 'eval' and n is not None and norm_val(names_k[n]) != norm_val(names_u[n])):
            diffs.append({'clause': 'Transparent', 'kind': kind, 'calls': prefix, 'cached': ok, 'uncached': ou})
        bad_keys = [k for k in list(cache) if k not in parsed_ok]
        if bad_keys:
            diffs.append({'clause': 'CacheKeys', 'kind': kind, 'calls': prefix, 'keys_never_parsed_exactly': bad_keys[:3]})
        for k, d in snap_before.items():
            if k in cache and tree_digest(cache[k]) != d:
                diffs.append({'clause': 'TreeFrozen', 'kind': kind, 'calls': prefix, 'key': k})
        # the host mutates the results of both parsers in the same way
        if c['op'] == 'eval' and ok[0] == 'ok':
            try:
                rk = K.eval(c['src'], names=copy.deepcopy(names_k[n or 0]), **({'max_ops_evaluated': c['max']} if c.get('max') else {}))
                snap = {k: tree_digest(cache[k]) for k in list(cache)}
                mutate_result(rk, random.Random(seq_seed + i))
                for k, d in snap.items():
                    if k in cache and tree_digest(cache[k]) != d:
                        diffs.append({'clause': 'NoResultAlias', 'kind': kind, 'calls': prefix, 'key': k,
                                      'what': 'mutating the value an evaluation returned changed the cached tree'})
            except Exception:
                pass
    return len(calls), diffs


def _cache_worker(arg):
    seed, length, kind = arg
    try:
        return run_cache_sequence(seed, length, kind)
    except BaseException as e:   # noqa
        import traceback
        return 0, [{'harness_error': ''.join(traceback.format_exception_only(type(e), e))}]


def run_cache_sequences(seed, n, length, kinds=('dict', 'warm', 'lru1', 'lru2', 'evict'), procs=16):
    import multiprocessing as mp
    common.snapshot_repo()
    args = [(seed * 7919 + i, length, kinds[i % len(kinds)]) for i in range(n)]
    ctx = mp.get_context('fork')
    with ctx.Pool(procs) as pool:
        return pool.map(_cache_worker, args, chunksize=max(1, n // (procs * 4)))


# ---------------------------------------------------------------------------------------------
# recorded sessions for TLC (spec/TraceSession.tla)
# ---------------------------------------------------------------------------------------------
class _Shim:
    pass


def record_session(seq_seed, length, cache_kind=None, observe_keys=True, observe_residue=False):
    """Run a random sequence on one long-lived parser and record, per call, what TraceSession compares:
    outcome of the (implied) parse or of list_names, lexer residue, cache keys."""
    common.import_impl()
    hp = os.path.join(common.VERIF, 'harness')
    if hp not in sys.path:
        sys.path.insert(0, hp)
    import lexparse
    import treeconv
    from smartquery.sq_parser import SqParser
    from smartquery.exceptions import ParserError
    shim = _Shim()
    shim.ParserError = ParserError
    r = random.Random(seq_seed)
    calls = random_calls(r, length)
    cache = make_cache(cache_kind, SqParser) if cache_kind else None
    P = SqParser(parse_cache=cache) if cache_kind else SqParser()
    names = fresh_names()
    out = []
    for c in calls:
        text = c['src'].rstrip() if c['op'] == 'eval' else c['src']
        captured = {}
        if c['op'] in ('parse', 'eval'):
            orig = P.parse

            def cap(expr, orig=orig):
                try:
                    t = orig(expr)
                    captured['tree'] = t
                    return t
                except BaseException as e:      # noqa
                    captured['exc'] = e
                    raise
            P.parse = cap
            try:
                do_call(P, c, names[c['n']] if c.get('n') is not None else (None if 'n' in c else names[0]))
            finally:
                del P.parse
            if 'tree' in captured:
                obs = {'ok': True, 'tree': treeconv.tree_to_json(captured['tree'])}
            else:
                o = lexparse.Impl.classify(shim, captured.get('exc', Exception('?')))
                obs = {'ok': False, 'kind': o['kind'], 'text': o['text'], 'line': o['line'], 'ch': o['ch'], 'cls': o['class']}
        else:
            res = do_call(P, c, None)
            if res[0] == 'ok':
                obs = {'names': [common.cps(x) for x in res[1]], 'err': 0}
            else:
                # list_names raises at the first illegal character after yielding the names before it
                part = []
                try:
                    for x in P.list_names(c['src']):
                        part.append(x)
                except Exception:
                    pass
                obs = {'names': [common.cps(x) for x in part], 'err': 1}
            if c['op'] == 'names_partial':
                obs.pop('err', None)
        if observe_residue:
            # the lexer's internal position / line / depth after the call: an internal observable (recorded for the C11 note only;
            # a difference there ends the validation of the session, so the property checks leave it out)
            obs['residue'] = {'pos': P.lex.lexpos, 'lineno': P.lex.lineno, 'paren': getattr(P.lex, 'paren_count', 0)}
        if cache_kind and observe_keys:
            obs['keys'] = [common.cps(k) for k in list(cache)]
        out.append({'text': text, 'op': c['op'], 'k': c.get('k', 0), 'obs': obs})
    return out


def _rec_worker(arg):
    try:
        return record_session(*arg)
    except BaseException as e:   # noqa
        import traceback
        return {'harness_error': ''.join(traceback.format_exception_only(type(e), e))}


def validate_sessions(seed, n, length, cache_kind=None, procs=16, mutant_devs=(), observe_keys=True, observe_residue=False):
    """Record n sessions and validate them with TLC against SQSession.  Returns (sessions, verdicts, tlc result)."""
    import multiprocessing as mp
    common.snapshot_repo()
    ctx = mp.get_context('fork')
    with ctx.Pool(procs) as pool:
        sessions = pool.map(_rec_worker, [(seed * 104729 + i, length, cache_kind, observe_keys, observe_residue) for i in range(n)], chunksize=max(1, n // (procs * 4)))
    sessions = [s for s in sessions if not isinstance(s, dict)]
    texts = sorted({c['text'] for s in sessions for c in s})
    idx = {t: i + 1 for i, t in enumerate(texts)}
    traces = []
    for s in sessions:
        traces.append({'calls': [{'call': {'op': c['op'], 'si': idx[c['text']], 'k': c['k']}, 'obs': c['obs']} for c in s]})
    d = common.scratch_dir('sessions')
    nchunks = min(procs, max(1, len(traces) // 20))
    from concurrent.futures import ThreadPoolExecutor
    import uuid
    paths = []
    for ci in range(nchunks):
        p = os.path.join(d, 'sess_%s_%d.json' % (uuid.uuid4().hex[:8], ci))
        json.dump({'sources': [common.cps(t) for t in texts], 'traces': traces[ci::nchunks]}, open(p, 'w'))
        paths.append(p)
    cfg = open(os.path.join(common.SPEC, 'TraceSession.cfg')).read().replace('CacheKind = "none"', 'CacheKind = "%s"' % (
        {None: 'none', 'dict': 'dict', 'warm': 'dict', 'lru1': 'lru1', 'lru2': 'dict', 'evict': 'evict'}[cache_kind]))
    if mutant_devs:
        cfg = cfg.replace('Deviations = {', 'Deviations = {%s, ' % ', '.join('"%s"' % x for x in mutant_devs))
    cfgp = os.path.join(d, 'ts_%s.cfg' % uuid.uuid4().hex[:8])
    open(cfgp, 'w').write(cfg)

    def one(p):
        return common.run_tlc('TraceSession.tla', cfg=cfgp, workers=1, env={'SOURCES_FILE': p}, timeout=900, heap='3g')
    with ThreadPoolExecutor(max_workers=nchunks) as ex:
        results = list(ex.map(one, paths))
    verdicts = []
    for ci, res in enumerate(results):
        vs = {r['tid']: r for r in res.printed() if 'tid' in r}
        chunk = traces[ci::nchunks]
        for j in range(len(chunk)):
            verdicts.append((sessions[ci + j * nchunks], vs.get(j + 1)))
    return sessions, verdicts, results
