"""External instrumentation of the smartquery evaluator (no source hooks).

Wraps `eval` of each of the 13 Op subclasses (an independent record of node evaluations)
and the base `Op.eval` every override reaches through super().eval(state) (the charge),
in the *snapshot copy* of the package.  Produces the event stream the TLA+ machine
(spec/SQVM.tla) emits, in the representations of spec/CONVENTIONS.md:

  {"e":"c","id":node,"vm":k,"ops":n,"r":raised}     charge
  {"e":"x","id":node,"v":deep value}                  node exit with a value
  {"e":"e","id":node,"cls":..,"name":..}              node exit with an exception
  {"e":"p","name":f,"args":[deep values]}             host probe / callback entered
  {"e":"o","name":b,"orc":{...}}                      observed result of a relational builtin
  {"e":"nc","id":node}                                node evaluation that was not charged
  {"e":"end","out":{..},"names":{nid:{..}},"ops":n,"depth":{vm:d},"looked":[..]}   eval call finished

Enabled only when SMARTQUERY_VERIF=1 (set by ./check).
"""
import decimal
import os
import sys

from . import common

GUARD = 'SMARTQUERY_VERIF'


class ProbeError(Exception):
    pass


class Conv:
    """Projection of Python objects to specification values, with identity."""

    def __init__(self, impl):
        self.impl = impl
        self.addr = {}        # id(obj) -> address
        self.keep = []        # strong references: an id is never reused within a run
        self.lam = {}         # id(function) -> lambda id
        self.lamobjs = set()  # ids of callables returned by the evaluation of a lambda node
        self.vm = {}          # id(VMState) -> vm index
        self.hostfns = {}     # id(function) -> name
        F = impl['functions'].FUNCTIONS
        self.builtin = {}
        for k, f in F.items():
            self.builtin.setdefault(id(f), k)
        self.CustomDecimal = impl['custom_types'].Decimal

    # -- identity -----------------------------------------------------------------
    def address(self, obj):
        a = self.addr.get(id(obj))
        if a is None:
            a = len(self.addr) + 1
            self.addr[id(obj)] = a
            self.keep.append(obj)
        return a

    def lambda_id(self, f):
        a = self.lam.get(id(f))
        if a is None:
            a = len(self.lam) + 1
            self.lam[id(f)] = a
            self.keep.append(f)
        return a

    def vm_id(self, state):
        a = self.vm.get(id(state))
        if a is None:
            a = len(self.vm) + 1
            self.vm[id(state)] = a
            self.keep.append(state)
        return a

    # -- scalars ------------------------------------------------------------------
    @staticmethod
    def int_rep(i):
        return {'sign': 1 if i < 0 else 0, 'digs': [int(c) for c in str(abs(i))]}

    @staticmethod
    def dec_rep(d):
        s, digs, e = d.as_tuple()
        digs = list(digs)
        while len(digs) > 1 and digs[0] == 0:
            digs.pop(0)
        return {'sign': s, 'digs': digs, 'exp': e}

    def scalar(self, v):
        """Spec value of a non-container, or None if v is a container."""
        if v is None:
            return {'t': 'none'}
        if v is True or v is False:
            return {'t': 'bool', 'b': v}
        if isinstance(v, decimal.Decimal):
            if not v.is_finite():
                return {'t': 'opaque', 'type': 'Decimal:' + str(v)}
            if len(v.as_tuple().digits) > 6000:
                return {'t': 'opaque', 'type': 'Decimal:huge:%d-digits' % len(v.as_tuple().digits)}
            r = self.dec_rep(v)
            r.update(t='dec', sub=type(v) is self.CustomDecimal)
            if type(v) not in (self.CustomDecimal, decimal.Decimal):
                return {'t': 'opaque', 'type': type(v).__name__}
            return r
        if type(v) is int:
            if v.bit_length() > 20000:          # thousands of digits: not worth shipping to TLC digit by digit
                return {'t': 'opaque', 'type': 'int:huge:%d-bits' % v.bit_length()}
            r = self.int_rep(v)
            r['t'] = 'int'
            return r
        if type(v) is float:
            if v != v or v in (float('inf'), float('-inf')):
                return {'t': 'opaque', 'type': 'float:' + repr(v)}
            return {'t': 'float', 'dec': self.dec_rep(decimal.Decimal(v)), 'repr': common.cps(repr(v))}
        if type(v) is str:
            return {'t': 'str', 's': common.cps(v)}
        if type(v) is slice:
            return {'t': 'slice', 'a': self.scalar(v.start) or {'t': 'opaque', 'type': 'slicebound'},
                    'b': self.scalar(v.stop) or {'t': 'opaque', 'type': 'slicebound'},
                    'c': self.scalar(v.step) or {'t': 'opaque', 'type': 'slicebound'}}
        if isinstance(v, (list, dict, tuple)):
            return None
        if callable(v):
            if id(v) in self.hostfns:
                return {'t': 'hostfn', 'name': self.hostfns[id(v)]}
            if id(v) in self.builtin:
                return {'t': 'builtin', 'name': self.builtin[id(v)]}
            qn = getattr(v, '__qualname__', '')
            if id(v) in self.lamobjs or qn == 'LambdaOp.eval.<locals>.f':
                return {'t': 'lambda', 'lid': self.lambda_id(v)}
        return self.opaque(v)

    def opaque(self, v, why=None):
        """An object the specification does not model: its type and a digest of its printed state (the frame rule of the
        specification - a non-mutator leaves its arguments as they were - is checked on the digest)."""
        try:
            text = repr(v)
        except Exception as e:      # noqa
            text = 'repr raised ' + type(e).__name__
        import hashlib
        out = {'t': 'opaque', 'type': why or (type(v).__module__ + '.' + type(v).__qualname__),
               'digest': hashlib.sha1(text.encode('utf-8', 'replace')).hexdigest()[:16]}
        if why is None and not isinstance(v, (int, float, decimal.Decimal, str, bytes)):
            try:
                import copy
                copy.deepcopy(v)
            except Exception:       # noqa  (a lock, a generator, an open file, a view: deepcopy refuses)
                out['nocopy'] = True
        return out

    def is_opaque(self, v):
        """Does the projection of v (as an argument) have type opaque?  Cheap for the common types."""
        t = type(v)
        if t in (list, tuple, str, type(None), bool):
            return False
        if t is dict:
            return any(not _key_ok(k) for k in v)
        s = self.scalar(v)
        if s is not None:
            return s['t'] == 'opaque'
        return True

    # -- deep (observed) form -----------------------------------------------------
    RLE_MIN = 48

    def deep(self, v, seen=None, depth=0):
        if seen is None:
            seen = set()
        s = self.scalar(v)
        if s is not None:
            return s
        if depth > 40:
            return {'t': 'opaque', 'type': 'too-deep'}
        if type(v) is tuple:
            return {'t': 'tuple', 'items': [self.deep(x, seen, depth + 1) for x in v]}
        if type(v) is list:
            a = self.address(v)
            if a in seen:
                return {'t': 'list', 'addr': a, 'seen': True}
            seen.add(a)
            if len(v) >= self.RLE_MIN:
                runs = []
                for x in v:
                    dx = self.deep(x, seen, depth + 1)
                    if runs and runs[-1][0] == dx and dx.get('t') not in ('list', 'dict', 'tuple'):
                        runs[-1][1] += 1
                    else:
                        runs.append([dx, 1])
                if len(runs) <= max(4, len(v) // 8):
                    return {'t': 'list', 'addr': a, 'n': len(v), 'runs': [{'v': r[0], 'c': r[1]} for r in runs]}
                # not compressible: plain items (TraceVM compares long flat sequences without recursion)
                return {'t': 'list', 'addr': a, 'items': [r[0] for r in runs for _ in range(r[1])]}
            return {'t': 'list', 'addr': a, 'items': [self.deep(x, seen, depth + 1) for x in v]}
        if type(v) is dict:
            if any(not _key_ok(k) for k in v):
                return self.opaque(v, 'dict-with-non-str-keys')
            a = self.address(v)
            if a in seen:
                return {'t': 'dict', 'addr': a, 'seen': True}
            seen.add(a)
            if len(v) >= self.RLE_MIN:
                # long dicts: keys/values summarised (only used around the size cap)
                items = list(v.items())
                return {'t': 'dict', 'addr': a, 'n': len(v),
                        'head': [[_key(k), self.deep(x, seen, depth + 1)] for k, x in items[:3]],
                        'tail': [[_key(k), self.deep(x, seen, depth + 1)] for k, x in items[-3:]]}
            return {'t': 'dict', 'addr': a, 'items': [[_key(k), self.deep(x, seen, depth + 1)] for k, x in v.items()]}
        return self.opaque(v)

    # -- initial heap: host-supplied objects --------------------------------------
    def initial(self, names_list):
        """names_list: list of dicts (host names mappings).  Returns (names0, heap0) where
        heap0[i] is the object with address i+1 and values reference the heap."""
        heap = []

        def ref(v):
            s = self.scalar(v)
            if s is not None:
                return s
            if type(v) is tuple:
                return {'t': 'tuple', 'items': [ref(x) for x in v]}
            if type(v) is list:
                if id(v) in self.addr:
                    return {'t': 'list', 'addr': self.addr[id(v)]}
                a = self.address(v)
                heap.append(None)
                assert len(heap) == a
                items = [ref(x) for x in v]
                if len(items) >= 64:
                    # long host lists travel run-length encoded (TraceVM expands them)
                    runs = []
                    for x in items:
                        if runs and runs[-1]['v'] == x:
                            runs[-1]['c'] += 1
                        else:
                            runs.append({'v': x, 'c': 1})
                    if len(runs) <= len(items) // 8:
                        heap[a - 1] = {'t': 'list', 'runs': runs}
                        return {'t': 'list', 'addr': a}
                heap[a - 1] = {'t': 'list', 'items': items}
                return {'t': 'list', 'addr': a}
            if type(v) is dict:
                if any(not _key_ok(k) for k in v):
                    return self.opaque(v, 'dict-with-non-str-keys')
                if id(v) in self.addr:
                    return {'t': 'dict', 'addr': self.addr[id(v)]}
                a = self.address(v)
                heap.append(None)
                ks = list(v)
                if len(ks) >= 64 and all(type(k) is str for k in ks) and ks == ['k%d' % i for i in range(len(ks))] and len(set(map(repr, v.values()))) == 1:
                    # long uniform host dicts {"k0": x, "k1": x, ...} travel as a bulk record
                    heap[a - 1] = {'t': 'dict', 'kbulk': len(ks), 'v': ref(v[ks[0]])}
                    return {'t': 'dict', 'addr': a}
                if len(ks) >= 64 and all(type(k) is int for k in ks) and ks == list(range(len(ks))) and len(set(map(repr, v.values()))) == 1:
                    # long uniform host dicts with the int keys 0 .. n-1
                    heap[a - 1] = {'t': 'dict', 'ibulk': len(ks), 'v': ref(v[0])}
                    return {'t': 'dict', 'addr': a}
                heap[a - 1] = {'t': 'dict', 'items': [[_key(k), ref(x)] for k, x in v.items()]}
                return {'t': 'dict', 'addr': a}
            return self.opaque(v)

        names0 = []
        for nm in names_list:
            names0.append({k: ref(v) for k, v in nm.items()})
        return names0, heap

    def exc(self, e):
        E = self.impl['exceptions']
        if type(e) is E.ParserError:
            return {'exc': 'ParserError', 'name': 'ParserError'}
        if type(e) is E.OpsExecutionLimitExceededError:
            return {'exc': 'OpsLimit', 'name': 'OpsExecutionLimitExceededError'}
        if isinstance(e, E.ParserError):
            return {'exc': 'ParserError', 'name': type(e).__name__}
        if isinstance(e, Exception):
            return {'exc': 'Other', 'name': type(e).__name__}
        return {'exc': 'Base', 'name': type(e).__name__}


KINDS = [('NoOp', 'noop'), ('ValueOp', 'val'), ('CodeOp', 'code'), ('BinOp', 'bin'), ('UnaryOp', 'un'),
         ('AssignOp', 'assign'), ('ShortOp', 'short'), ('NameOp', 'name'), ('IfExprOp', 'if'),
         ('SliceOp', 'slice'), ('CallOp', 'call'), ('DictOp', 'dict'), ('LambdaOp', 'lambda')]

FRAME_BUILTINS = ('len', 'int', 'float', 'str', 'dict', 'list', 'startswith', 'endswith', 'lower', 'upper', 'strip', 'replace', 'pretty',
                  'keys', 'values', 'items', 'sum', 'get', 'join', 'split', 'round', 'floor', 'ceil', 'abs', 'min', 'max',
                  'reversed', 'enumerate', 'index_of')


def _inner_containers(v, out, d):
    """ids of the mutable containers reachable inside an unmodelled object."""
    if d > 6 or id(v) in out and d > 0:
        return
    import collections.abc as abc
    if d > 0 and isinstance(v, (list, dict, set, bytearray)):
        out.add(id(v))
    try:
        if isinstance(v, abc.Mapping):
            for x in list(v.values())[:2000]:
                _inner_containers(x, out, d + 1)
        elif isinstance(v, (list, tuple, set, frozenset)):
            for x in list(v)[:2000]:
                _inner_containers(x, out, d + 1)
        elif hasattr(v, '__dict__'):
            for x in list(vars(v).values())[:200]:
                _inner_containers(x, out, d + 1)
    except Exception:
        pass


def _key_ok(k):
    return type(k) is str or (type(k) is int and abs(k) < 10 ** 15)


def _key(k):
    """Dict key as the specification writes it: text = its code points; int key = <<-2>> o code points of str(key)."""
    return common.cps(k) if type(k) is str else [-2] + common.cps(str(k))


ORACLE_BUILTINS = ('rand', 'shuffle', 'match', 'match_groups', 'match_all', 'float')


class Tracer:
    """One per process.  `start(conv, nodeids)` begins recording into self.events."""

    def __init__(self):
        self.impl = None
        self.active = False
        self.events = []
        self.conv = None
        self.nodeids = {}
        self.stack = []      # [node, charged, children that returned a value]
        self.installed = False
        self.maxevents = 20000

    # -- installation ---------------------------------------------------------------
    def install(self):
        if self.installed:
            return self.impl
        assert os.environ.get(GUARD) == '1', 'instrumentation is guarded by %s=1' % GUARD
        common.import_impl()
        import smartquery.ast_ops as ast_ops
        import smartquery.functions as functions
        import smartquery.exceptions as exceptions
        import smartquery.custom_types as custom_types
        import smartquery.sq_parser as sq_parser
        import smartquery.scoped_dict as scoped_dict
        self.impl = dict(ast_ops=ast_ops, functions=functions, exceptions=exceptions, custom_types=custom_types,
                         sq_parser=sq_parser, scoped_dict=scoped_dict)
        T = self
        Op = ast_ops.Op
        orig_base = Op.eval

        def base_eval(self_, state):
            if not T.active:
                return orig_base(self_, state)
            try:
                r = orig_base(self_, state)
            except BaseException:
                T.on_charge(self_, state, True)
                raise
            T.on_charge(self_, state, False)
            return r

        Op.eval = base_eval
        self.kind_of = {}
        for cname, kind in KINDS:
            cls = getattr(ast_ops, cname)
            self.kind_of[cls] = kind
            if 'eval' in cls.__dict__:
                orig = cls.__dict__['eval']
            else:
                def orig(self_, state):
                    return Op.eval(self_, state)

            def make(orig):
                def wrapped(self_, state):
                    if not T.active:
                        return orig(self_, state)
                    T.on_enter(self_)
                    try:
                        v = orig(self_, state)
                    except BaseException as e:
                        T.on_exit_exc(self_, e)
                        raise
                    if T.kind_of.get(type(self_)) == 'lambda' and callable(v) and T.conv is not None:
                        # whatever callable the evaluation of a lambda node returns IS the lambda value
                        # (recognised by where it comes from, not by how the implementation builds it)
                        T.conv.lamobjs.add(id(v))
                        T.conv.keep.append(v)
                    T.on_exit(self_, v)
                    return v
                return wrapped
            cls.eval = make(orig)
        # relational builtins: record the observed result (the table of the snapshot copy)
        F = functions.FUNCTIONS
        self.orig_functions = dict(F)
        for name in ORACLE_BUILTINS:
            if name in F:
                F[name] = self.make_oracle_wrapper(name, F[name])
        for name in FRAME_BUILTINS:
            if name in F and name not in ORACLE_BUILTINS:
                F[name] = self.make_frame_wrapper(name, F[name])
        self.functions_digest0 = self.functions_digest()
        self.installed = True
        return self.impl

    def functions_digest(self):
        F = self.impl['functions'].FUNCTIONS
        return sorted((k, id(v)) for k, v in F.items())

    def make_frame_wrapper(self, name, f):
        """A non-mutating builtin applied to an object the specification does not model: the specification says nothing
        about the result (it adopts the observed one) but it does say that nothing else changes."""
        T = self

        def w(*args):
            if not T.active or T.conv is None or not any(T.conv.is_opaque(a) for a in args):
                return f(*args)
            inner = set()
            for a in args:
                if T.conv.is_opaque(a):
                    _inner_containers(a, inner, 0)
            try:
                r = f(*args)
            except BaseException as e:
                T.emit({'e': 'o', 'name': name, 'orc': {'t': 'raise', 'e': T.conv.exc(e)}})
                raise
            T.emit({'e': 'o', 'name': name, 'orc': T.frame_value(r, inner)})
            return r
        w.__name__ = 'frame_' + name
        w.__wrapped__ = f
        return w

    def frame_value(self, r, inner):
        c = self.conv
        bad = []

        def conv(v, d=0):
            s = c.scalar(v)
            if s is not None:
                return s
            if d > 6 or id(v) in inner:
                bad.append(1)           # part of the unmodelled object itself: the specification cannot follow it
                return {'t': 'none'}
            if type(v) is tuple:
                return {'t': 'tuple', 'items': [conv(x, d + 1) for x in v]}
            if type(v) in (list, dict) and id(v) in c.addr:
                return {'t': 'list' if type(v) is list else 'dict', 'addr': c.addr[id(v)], 'obs': True}
            if type(v) is list:
                return {'t': 'ilist', 'items': [conv(x, d + 1) for x in v]}
            bad.append(1)
            return {'t': 'none'}
        v = conv(r)
        return {'t': 'unknown'} if bad else {'t': 'val', 'v': v}

    def make_oracle_wrapper(self, name, f):
        T = self

        def w(*args):
            if not T.active:
                return f(*args)
            try:
                r = f(*args)
            except BaseException as e:
                T.emit({'e': 'o', 'name': name, 'orc': {'t': 'raise', 'e': T.conv.exc(e)}})
                raise
            T.emit({'e': 'o', 'name': name, 'orc': T.oracle_value(name, args, r)})
            return r
        w.__name__ = 'oracle_' + name
        return w

    def oracle_value(self, name, args, r):
        c = self.conv
        if name == 'rand' and len(args) == 1 and isinstance(args[0], list):
            for i, x in enumerate(args[0]):
                if x is r:
                    return {'t': 'elem', 'i': i + 1}
            return {'t': 'val', 'v': {'t': 'opaque', 'type': 'not-an-element'}}

        def inline(v):
            if type(v) is list:
                return {'t': 'ilist', 'items': [inline(x) for x in v]}
            if type(v) is tuple:
                return {'t': 'tuple', 'items': [inline(x) for x in v]}
            if type(v) is dict:
                return {'t': 'opaque', 'type': 'dict'}
            s = c.scalar(v)
            return s if s is not None else c.opaque(v)      # (subclasses of list / dict / tuple)
        if name == 'shuffle' and type(r) is list:
            # elements by identity: references stay references
            return {'t': 'val', 'v': {'t': 'ilist', 'items': [self.ref(x) for x in r]}, 'new': id(r) not in c.addr}
        return {'t': 'val', 'v': inline(r)}

    def ref(self, v):
        s = self.conv.scalar(v)
        if s is not None:
            return s
        if type(v) is tuple:
            return {'t': 'tuple', 'items': [self.ref(x) for x in v]}
        if type(v) is list:
            return {'t': 'list', 'addr': self.conv.address(v), 'obs': True}
        if type(v) is dict:
            return {'t': 'dict', 'addr': self.conv.address(v), 'obs': True}
        return {'t': 'opaque', 'type': type(v).__qualname__}

    # -- recording --------------------------------------------------------------------
    def start(self, conv, nodeids):
        self.conv = conv
        self.nodeids = nodeids
        self.events = []
        self.stack = []
        self.active = True
        self.overflow = False

    def stop(self):
        self.active = False
        return self.events

    def emit(self, ev):
        if len(self.events) >= self.maxevents:
            self.overflow = True
            return
        self.events.append(ev)

    def nid(self, node):
        return self.nodeids.get(id(node), 0)

    def flush_uncharged(self):
        if self.stack and not self.stack[-1][1]:
            self.stack[-1][1] = True
            self.emit({'e': 'nc', 'id': self.nid(self.stack[-1][0])})

    def on_enter(self, node):
        self.flush_uncharged()
        self.stack.append([node, False, 0])

    def on_charge(self, node, state, raised):
        if self.stack and self.stack[-1][0] is node:
            self.stack[-1][1] = True
        ops = getattr(state, 'ops_evaluated', -1)
        self.emit({'e': 'c', 'id': self.nid(node), 'vm': self.conv.vm_id(state), 'ops': ops, 'r': raised})

    def on_exit(self, node, v):
        self.flush_uncharged()
        if self.stack and self.stack[-1][0] is node:
            self.stack.pop()
            if self.stack:
                self.stack[-1][2] += 1
        if self.kind_of.get(type(node)) == 'bin' and getattr(node, 'op', None) == '**':
            self.emit({'e': 'o', 'name': 'pow', 'orc': {'t': 'val', 'v': self.conv.scalar(v) or {'t': 'opaque', 'type': 'container'}}})
        self.emit({'e': 'x', 'id': self.nid(node), 'v': self.conv.deep(v)})

    def on_exit_exc(self, node, e):
        self.flush_uncharged()
        done = 0
        if self.stack and self.stack[-1][0] is node:
            done = self.stack.pop()[2]
        ex = self.conv.exc(e)
        if self.kind_of.get(type(node)) == 'bin' and getattr(node, 'op', None) == '**' and done == 2:
            self.emit({'e': 'o', 'name': 'pow', 'orc': {'t': 'raise', 'e': ex}})
        self.emit({'e': 'e', 'id': self.nid(node), 'cls': ex['exc'], 'name': ex['name']})


TRACER = Tracer()


# ---------------------------------------------------------------------------------------
# trees
# ---------------------------------------------------------------------------------------
def tree_to_spec(impl, op, conv, counter, nodeids):
    """Dataclass tree -> CONVENTIONS.md record with preorder ids (counter is a 1-element list)."""
    A = impl['ast_ops']
    counter[0] += 1
    i = counter[0]
    nodeids[id(op)] = i
    conv.keep.append(op)

    def ch(xs):
        return [tree_to_spec(impl, x, conv, counter, nodeids) for x in xs]
    t = type(op)
    if t is A.ValueOp:
        return {'k': 'val', 'id': i, 'v': conv.scalar(op.v) or {'t': 'opaque', 'type': 'container-literal'}}
    if t is A.NoOp:
        return {'k': 'noop', 'id': i}
    if t is A.CodeOp:
        return {'k': 'code', 'id': i, 'ch': ch(op.lines)}
    if t is A.BinOp:
        return {'k': 'bin', 'id': i, 'op': op.op, 'ch': ch([op.op1, op.op2])}
    if t is A.UnaryOp:
        return {'k': 'un', 'id': i, 'op': op.op, 'ch': ch([op.op1])}
    if t is A.AssignOp:
        return {'k': 'assign', 'id': i, 'name': op.name, 'ch': ch([op.value])}
    if t is A.ShortOp:
        return {'k': 'short', 'id': i, 'name': op.name, 'op': op.op, 'ch': ch([op.value])}
    if t is A.NameOp:
        return {'k': 'name', 'id': i, 'name': op.name}
    if t is A.IfExprOp:
        return {'k': 'if', 'id': i, 'ch': ch([op.cond, op.op1, op.op2])}
    if t is A.SliceOp:
        return {'k': 'slice', 'id': i, 'ch': ch([op.start, op.stop, op.step])}
    if t is A.CallOp:
        return {'k': 'call', 'id': i, 'name': op.name, 'ch': ch(op.args)}
    if t is A.DictOp:
        flat = []
        for k, v in op.d:
            flat += [k, v]
        return {'k': 'dict', 'id': i, 'ch': ch(flat)}
    if t is A.LambdaOp:
        params = [a.name if type(a) is A.NameOp else '?' for a in op.args]
        return {'k': 'lambda', 'id': i, 'params': params, 'ch': ch([op.expr])}
    return {'k': 'unknown:' + t.__name__, 'id': i}


class RecordingNames(dict):
    """A names mapping that records which keys the evaluator asks for (property C18)."""

    def __init__(self, *a, **k):
        super().__init__(*a, **k)
        self.asked = []

    def __contains__(self, key):
        self.asked.append(key)
        return super().__contains__(key)


def build_op(impl, t):
    """Specification tree (JSON form) -> dataclass tree, for host-supplied ASTs (ast_names)."""
    from .unparse import py_value
    A = impl['ast_ops']
    k = t['k']
    ch = [build_op(impl, c) for c in t.get('ch', [])]
    if k == 'val':
        v = t['v']
        if v['t'] == 'dec':
            import decimal
            return A.ValueOp(impl['custom_types'].Decimal(decimal.Decimal((v['sign'], tuple(v['digs']), v['exp']))))
        return A.ValueOp(py_value(v, [], {}))
    if k == 'noop':
        return A.NoOp()
    if k == 'code':
        return A.CodeOp(ch)
    if k == 'bin':
        return A.BinOp(t['op'], ch[0], ch[1])
    if k == 'un':
        return A.UnaryOp(t['op'], ch[0])
    if k == 'assign':
        return A.AssignOp(t['name'], ch[0])
    if k == 'short':
        return A.ShortOp(t['name'], t['op'], ch[0])
    if k == 'name':
        return A.NameOp(t['name'])
    if k == 'if':
        return A.IfExprOp(cond=ch[0], op1=ch[1], op2=ch[2])
    if k == 'slice':
        return A.SliceOp(ch[0], ch[1], ch[2])
    if k == 'call':
        return A.CallOp(t['name'], ch)
    if k == 'dict':
        return A.DictOp([(ch[i], ch[i + 1]) for i in range(0, len(ch), 2)])
    if k == 'lambda':
        return A.LambdaOp(args=[A.NameOp(p) for p in t['params']], expr=ch[0])
    raise ValueError(k)
