"""Property C05: the regex builtins cannot hang the host.

Each probe (function, subject, pattern, flags) is executed through SqParser.eval in an
isolated worker process under a kill-after watchdog; the worker's copy of the builtin module
sees a proxy of the `regex` module that records, for every entry into the engine, whether a
timeout was passed and how large.  The recorded calls are validated by TLC against
spec/SQRegexTimer.tla (RegexBegin / RegexEnd with the timer envelope).
"""
import json
import multiprocessing as mp
import os
import random
import sys
import time

from . import common

KILL_AFTER_S = 6.0


# ---------------------------------------------------------------------------------------------
# corpus
# ---------------------------------------------------------------------------------------------
def corpus(tier, seed):
    r = random.Random(seed)
    big = 100000 if tier != 'quick' else 30000
    fams = []

    def add(family, pattern, subject, flags=None, **kw):
        fams.append(dict({'family': family, 'pattern': pattern, 'subject': subject, 'flags': flags}, **kw))
    for n in (25, 40, 5000):
        a = 'a' * n
        add('nested quantifier', r'(a+)+b', a + 'c')
        add('nested quantifier', r'(a*)*b', a + 'c')
        add('nested quantifier', r'^(a+)+$', a + 'b')
        add('overlapping alternation', r'(a|aa)+$', a + 'b')
        add('overlapping alternation', r'(a|a)*b', a + 'c')
        add('overlapping alternation', r'^(a|aa|aaa)+$', a + 'b', 'm')
        add('counted repeat', r'(a{1,30}){1,30}b', a + 'c')
        add('counted repeat', r'(?:a{0,100}){0,100}$', a + 'b')
        add('back-reference', r'(a*)\1*b', a + 'c')
        add('back-reference', r'^(a+)\1+$', a + 'b')
        add('lookaround', r'(?=(a+))a*b\1', a + 'c')
        add('lookaround', r'(?<=a+)(a+)+b', a + 'c')
        add('possessive/atomic', r'(?>a+)+b', a + 'c')
        add('possessive/atomic', r'(a++)+b', a + 'c')
        add('deep nesting', r'((((a*)*)*)*)*b', a + 'c')
        add('fuzzy', r'(?:(a+)+b){e<=3}', a + 'c')
        add('fuzzy', r'(abc){e<=5}', ('ab' * n)[:n])
        add('reverse', r'(?r)(a+)+b', 'c' + a)
        add('star-height', r'(.*a){12}', a + 'b', 's')
        add('many matches', r'^(a|aa)+$', ('a' * 18 + 'b\naa\n') * (n // 10 + 1), 'm')
    add('many matches', r'^(a|aa)+$', ('a' * 18 + 'b\naa\n') * 1500, 'm')
    add('many matches', r'(a|aa)+b|c', ('a' * 20 + 'c') * 1200)
    for n in (1000, big):
        add('long subject benign', r'\d+', 'x' * n + '123')
        add('long subject benign', r'needle', 'hay' * (n // 3) + 'needle')
        add('long subject quadratic', r'a*b', 'a' * n)
        add('long subject quadratic', r'(x+x+)+y', 'x' * n)
        add('long subject quadratic', r'.*.*=.*', 'a' * n)
        add('long alternation', '|'.join('w%d' % i for i in range(min(n, 20000) // 5)), 'w' * n)
        add('long pattern', 'a?' * min(n, 2000) + 'a' * min(n, 2000), 'a' * min(n, 2000))
    for n in (500, 1000, 4000):
        add('periodic literal', 'a' * n, 'a' * n)
        add('periodic literal', 'ab' * (n // 2), 'ab' * (n // 2) + 'x')
    for n in (22, 30, 45):
        add('word run then metacharacter', 'a' * n + '+', 'a' * n)
        add('word run then metacharacter', 'a' * n + '$', 'b' * n)
        add('word run then metacharacter', ' '.join(['word'] * (n // 2)) + '?', 'word ' * n)
    add('word run then metacharacter', 'transaction_identifier_number_of_the_payment$', 'transaction_identifier_number_of_the_payment')
    add('word run then metacharacter', 'the quick brown fox jumps over the lazy dog again and again and again.', 'the quick brown fox')
    for n in (3000, 6000) if tier == 'quick' else (3000, 6000, 12000):
        alt = '|'.join('w%d' % i for i in range(n))
        add('long pattern with a backtracking part', '(?:' + alt + ')|(a|aa)+$', 'a' * 44 + 'b!')
        add('long pattern with a backtracking part', '(a+)+$|' + alt, 'a' * 40 + '!')
    for k in (22, 26, 32):
        # a group holding many escapes next to a part that runs into the timeout (what happens AFTER the timeout fired is part of the call)
        add('escapes in a group + backtracking', '(' + '\\d' * k + ')?(a|aa)+$', 'a' * 40 + 'b')
        add('escapes in a group + backtracking', '(' + '\\d\\d\\d\\d-\\d\\d-\\d\\d \\d\\d:\\d\\d:\\d\\d\\.' + '\\d' * (k - 14) + ')|(a+)+$', 'a' * 40 + '!')
        add('escapes in a group + backtracking', '(?:' + '\\w\\s' * (k // 2) + ')*(x+x+)+y', 'x' * 60)
    for x in (None, -1, 0, 3600, 'i', 0.5):
        add('a fourth argument', r'(a|aa)+$', 'a' * 45 + '!', None, extra=x)
        add('a fourth argument', r'(a+)+b', 'a' * 40 + 'c', 'i', extra=x, extra2=(x == 3600))
    add('invalid pattern', r'(a', 'aaa')
    add('invalid pattern', r'a{2,1}', 'aaa')
    add('non-string', None, 'aaa')
    # random regexes over a small grammar
    atoms = ['a', 'b', '.', r'\d', r'\w', '[ab]', '[^a]', '(a|b)', '(ab)', 'a?', 'x']
    for _ in range(60 if tier == 'quick' else 600):
        parts = []
        for _ in range(r.randrange(1, 6)):
            at = r.choice(atoms)
            q = r.choice(['', '*', '+', '?', '{1,3}', '*?', '+?', '{2,}', '*+'])
            grp = '(%s%s)%s' % (at, q, r.choice(['', '*', '+', '{1,5}']))
            parts.append(r.choice([at + q, grp]))
        pat = ''.join(parts) + r.choice(['', '$', 'c', r'\b'])
        subj = ''.join(r.choice('ab1 ') for _ in range(r.choice([5, 30, 200]))) + r.choice(['', 'a' * 30, 'ab' * 20])
        add('random regex', pat, subj, r.choice([None, 'i', 'm', 's', 'ims', 'x']))
    probes = []
    pid = 0
    for f in fams:
        for fn in ('match', 'match_groups', 'match_all'):
            pid += 1
            probes.append(dict(f, fn=fn, id=pid))
    return probes


def periodic_run(pattern):
    """Length of the longest run in which the pattern repeats a unit of length <= 4 as a literal."""
    if not isinstance(pattern, str):
        return 0
    best = 0
    for p in (1, 2, 3, 4):
        run = 0
        for i in range(p, len(pattern)):
            if pattern[i] == pattern[i - p] and pattern[i].isalnum():
                run += 1
                best = max(best, run + p)
            else:
                run = 0
    return best


# ---------------------------------------------------------------------------------------------
# isolated worker
# ---------------------------------------------------------------------------------------------
ENGINE_ENTRIES = ('search', 'findall', 'match', 'fullmatch', 'finditer', 'sub', 'subn', 'split', 'splititer')


class PatternProxy:
    """A compiled pattern whose matching methods are recorded as entries into the engine."""

    def __init__(self, real, log):
        self._real = real
        self._log = log

    def __getattr__(self, name):
        v = getattr(self._real, name)
        if name in ENGINE_ENTRIES:
            log = self._log

            def wrapped(*a, **k):
                to = k.get('timeout')
                log.append({'entry': 'pattern.' + name, 'timeoutMs': -1 if to is None else int(round(float(to) * 1000)) if float(to) > 0
                            else min(-1, int(round(float(to) * 1000)))})
                return v(*a, **k)
            return wrapped
        return v


class RegexProxy:
    """The regex module as seen by smartquery.functions: every entry into the matching engine (module-level function or
    method of a compiled pattern) is recorded with the timeout it was given.  Compiling a pattern is not an entry into
    the matching engine (it takes no timeout; its duration counts towards the envelope of the call)."""

    def __init__(self, real, log):
        self._real = real
        self._log = log

    def __getattr__(self, name):
        v = getattr(self._real, name)
        if name in ENGINE_ENTRIES:
            log = self._log

            def wrapped(*a, **k):
                to = k.get('timeout')
                log.append({'entry': name, 'timeoutMs': -1 if to is None else int(round(float(to) * 1000)) if float(to) > 0
                            else min(-1, int(round(float(to) * 1000)))})
                return v(*a, **k)
            return wrapped
        if name == 'compile':
            log = self._log

            def compiled(*a, **k):
                return PatternProxy(v(*a, **k), log)
            return compiled
        return v


def _worker(conn, repo):
    os.environ['VERIF_REPO'] = repo
    common.REPO = repo
    common.import_impl()
    import smartquery.functions as functions
    from smartquery.sq_parser import SqParser
    import regex
    log = []
    functions.regex = RegexProxy(regex, log)
    parser = SqParser()
    parser.eval('match("a", "a")')        # warm up (imports, caches)
    while True:
        job = conn.recv()
        if job is None:
            return
        del log[:]
        names = {'s': job['subject'], 'p': job['pattern'], 'f': job['flags']}
        src = '%s(s, p, f)' % job['fn'] if job['flags'] is not None else '%s(s, p)' % job['fn']
        if 'extra' in job:
            # more arguments than (subject, pattern, flags): whatever the builtin makes of them, the call is bounded
            names['f'] = job['flags'] if job['flags'] is not None else ''
            names['x'] = job['extra']
            src = '%s(s, p, f, x)' % job['fn'] if not job.get('extra2') else '%s(s, p, f, x, x)' % job['fn']
        t0 = time.perf_counter()
        try:
            r = parser.eval(src, names=names, max_ops_evaluated=50)
            out = 'value'
        except TimeoutError:
            out = 'TimeoutError'
        except regex.error:
            out = 'error'
        except Exception as e:      # noqa
            out = 'Exception'
        except BaseException as e:  # noqa
            out = 'BaseException:' + type(e).__name__
        ms = (time.perf_counter() - t0) * 1000.0
        conn.send({'id': job['id'], 'ms': ms, 'outcome': out, 'engine': list(log)})


class Runner:
    """One isolated worker at a time; killed and restarted when a probe exceeds the watchdog."""

    def __init__(self):
        self.ctx = mp.get_context('spawn')
        self.proc = None
        self.conn = None

    def start(self):
        parent, child = self.ctx.Pipe()
        self.proc = self.ctx.Process(target=_worker, args=(child, common.REPO), daemon=True)
        self.proc.start()
        self.conn = parent

    def stop(self):
        if self.proc is not None:
            try:
                self.conn.send(None)
            except Exception:
                pass
            self.proc.join(1)
            if self.proc.is_alive():
                self.proc.kill()
            self.proc = None

    def run(self, job):
        if self.proc is None or not self.proc.is_alive():
            self.start()
        self.conn.send(job)
        if self.conn.poll(KILL_AFTER_S):
            return self.conn.recv()
        self.proc.kill()
        self.proc.join(2)
        self.proc = None
        return {'id': job['id'], 'ms': KILL_AFTER_S * 1000.0, 'outcome': 'killed', 'engine': [{'entry': '?', 'timeoutMs': 50}], 'killed': True}


def run_probes(probes, nrunners=4):
    """Timing runs are NOT parallelised with TLC; a few isolated workers side by side."""
    from concurrent.futures import ThreadPoolExecutor
    chunks = [probes[i::nrunners] for i in range(nrunners)]

    def work(chunk):
        rn = Runner()
        out = []
        try:
            for p in chunk:
                out.append(rn.run(p))
        finally:
            rn.stop()
        return out
    with ThreadPoolExecutor(max_workers=nrunners) as ex:
        res = list(ex.map(work, chunks))
    by_id = {r['id']: r for chunk in res for r in chunk}
    return [by_id[p['id']] for p in probes]


def remeasure(probe, times=3):
    """Quiet single worker, repeated: a duration violation must reproduce every time."""
    rn = Runner()
    out = []
    try:
        for _ in range(times):
            out.append(rn.run(probe))
    finally:
        rn.stop()
    return out


def validate(records):
    """TLC: every recorded call against SQRegexTimer."""
    d = common.scratch_dir('regex')
    path = os.path.join(d, 'regex_%d.json' % os.getpid())
    calls = []
    for p, r in records:
        calls.append({'id': p['id'], 'fn': p['fn'], 'engine': r['engine'], 'plen': len(p['pattern']) if isinstance(p['pattern'], str) else 0,
                      'slen': len(p['subject']) if isinstance(p['subject'], str) else 0, 'ms': int(r['ms']) + 1,
                      'outcome': r['outcome'] if r['outcome'] in ('value', 'TimeoutError', 'error', 'Exception') else 'other'})
    json.dump({'calls': calls}, open(path, 'w'))
    res = common.run_tlc('SQRegexTimer.tla', cfg='SQRegexTimer.cfg', workers=4, env={'CASES_FILE': path}, timeout=600)
    verdicts = {v['id']: v['v'] for v in res.printed() if 'id' in v}
    return verdicts, res
