"""One function per property: check_<ID>(tier, seed) -> exit code."""
import json
import os
import sys

from . import common, engine, families, vmrun
from .engine import Report


def _emitted(res):
    return [r for r in res.printed() if 'calls' in r and 'summary' in r]


def check_C01(tier, seed):
    rep = Report('C01', tier, seed)
    devs = engine.open_deviations()
    quick = tier == 'quick'
    rep.notes['rule'] = ('TLC: product machine (budget N x unlimited) over all programs of MC_C01 (every node kind, lambdas '
                         'driven by map/filter/reduce/sorted, host callbacks propagating/swallowing, recursion, 2-call '
                         'histories) x N in 1..MaxN; code: the same scenarios replayed and random programs at the boundary '
                         'budgets need-1..need+2, each trace validated event by event; distinct = distinct (sources, budgets)')
    consts = {'Tier': '"quick"' if quick else '"thorough"', 'MaxN': '12' if quick else '16'}
    # 1. the normative model satisfies the property (all invariants, action properties)
    res = engine.model_check(rep, 'MC_C01.tla', 'MC_C01.cfg', consts=consts, coverage=not quick, timeout=1500 if quick else 3400)
    rep.exhaustive = True
    # 2. the invariants can fail: deviation model must violate them
    engine.model_check(rep, 'MC_C01.tla', 'MC_C01.cfg', consts=consts, deviations=['ClosureChargesCreator'], expect_violation=True)
    # 3. direction A: the scenarios TLC explored, replayed on the real code
    if not rep.machinery:
        recs = _emitted(res)
        engine.replay_emitted(rep, recs, devs, sample=1500 if quick else 12000, seed=seed, what='TLC scenario')
    # 4. direction B: boundary budgets of random programs; closure histories
    base = families.budget_sweep(seed, 120 if quick else 1500)
    measured = vmrun.run_scenarios(base)
    sweep = []
    for s, c in zip(base, measured):
        if 'harness_error' in c:
            rep.machinery.append(c['harness_error'])
            continue
        ops = [e for e in c['events'] if e['e'] == 'end'][0]['ops']
        sweep += families.boundary_budgets(s, ops)
    sweep += families.closure_sessions(seed, 150 if quick else 1500)
    cases = [c for c in vmrun.run_scenarios(sweep) if 'harness_error' not in c]
    engine.judge_cases(rep, cases, devs, what='recorded run')
    rep.assumptions += ['host functions are the probes/callbacks of harness/vmrun.py (a Python host that catches the limit error is '
                        'modelled by the swallowing callback)', 'TLC bounds: MaxN and the program sets of spec/MC_C01.tla']
    return rep.finish()


def replay(prop, path):
    """Re-execute a replay file: run the recorded sources again and print the verdict."""
    v = json.load(open(path))
    print(json.dumps(v.get('what'), indent=1))
    case = v.get('payload', {}).get('case')
    if not case:
        print('(no executable payload)')
        return 0
    print(json.dumps(case['calls'], indent=1))
    return 0
