"""One function per property: check_<ID>(tier, seed) -> exit code."""
import json
import os
import random
import sys

from . import common, engine, families, vmrun
from .engine import Report


def _emitted(res):
    return [r for r in res.printed() if 'calls' in r and 'summary' in r]


def check_C01(tier, seed):
    rep = Report('C01', tier, seed)
    devs = engine.open_deviations()
    quick = tier == 'quick'
    rep.notes['rule'] = ('TLC: product machine (budget N x unlimited) over all programs of MC_C01 (every node kind, lambdas '
                         'driven by map/filter/reduce/sorted, host callbacks propagating/swallowing, recursion, 2-call '
                         'histories) x N in 1..MaxN; code: the same scenarios replayed and random programs at the boundary '
                         'budgets need-1..need+2, each trace validated event by event; distinct = distinct (sources, budgets)')
    consts = {'Tier': '"quick"' if quick else '"thorough"', 'MaxN': '12' if quick else '16'}
    # 1. the normative model satisfies the property (all invariants, action properties)
    res = engine.model_check(rep, 'MC_C01.tla', 'MC_C01.cfg', consts=consts, coverage=not quick, timeout=1500 if quick else 3400)
    rep.exhaustive = True
    # 2. the invariants can fail: deviation model must violate them
    engine.model_check(rep, 'MC_C01.tla', 'MC_C01.cfg', consts=consts, deviations=['ClosureChargesCreator'], expect_violation=True)
    # 3. direction A: the scenarios TLC explored, replayed on the real code
    if not rep.machinery:
        recs = _emitted(res)
        engine.replay_emitted(rep, recs, devs, sample=1500 if quick else 12000, seed=seed, what='TLC scenario')
    # 4. direction B: boundary budgets of random programs; closure histories
    base = families.budget_sweep(seed, 120 if quick else 1500)
    measured = vmrun.run_scenarios(base)
    sweep = []
    for s, c in zip(base, measured):
        if c.get('timeout'):
            rep.violation('program did not finish within the wall-clock guard under a budget of 10^6: %r' % (c.get('sources'),), {'calls': c.get('sources')})
            continue
        if 'harness_error' in c:
            rep.machinery.append(c['harness_error'])
            continue
        ops = [e for e in c['events'] if e['e'] == 'end'][0]['ops']
        sweep += families.boundary_budgets(s, ops)
    sweep += families.closure_sessions(seed, 150 if quick else 1500)
    sweep += families.cached_repeat_sessions(seed + 3, 150 if quick else 1500)
    sweep += families.reentrant_sessions(seed + 5, 150 if quick else 1500)
    cases = engine.run_family(rep, sweep)
    engine.judge_cases(rep, cases, devs, what='recorded run')
    rep.assumptions += ['host functions are the probes/callbacks of harness/vmrun.py (a Python host that catches the limit error is '
                        'modelled by the swallowing callback)', 'TLC bounds: MaxN and the program sets of spec/MC_C01.tla']
    return rep.finish()


def replay(prop, path):
    """Re-execute a replay file: run the recorded sources again and print the verdict."""
    v = json.load(open(path))
    print(json.dumps(v.get('what'), indent=1))
    case = v.get('payload', {}).get('case')
    if not case:
        print('(no executable payload: the replay file names the input; see "what" above)')
        return 0
    print(json.dumps(case['calls'], indent=1))
    # re-execute: rebuild the host objects from the recorded projection, run the calls on the code under test, validate with TLC
    from . import unparse
    try:
        heap, memo = case.get('heap0') or [], {}
        nids = sorted(case.get('names0') or {})
        names_py = [{k: unparse.py_value(x, heap, memo) for k, x in case['names0'][nid].items() if x.get('t') != 'hostfn'} for nid in nids]
        host = {}
        for k, b in (case.get('host') or {}).items() if isinstance(case.get('host'), dict) else []:
            b2 = dict(b)
            if b.get('h') == 'probe':
                b2['ret'] = unparse.py_value(b['ret'], heap, memo)
            host[k] = b2
        calls = [{'src': c['src'], 'n': nids.index(c['nid']) if c['nid'] in nids else None, 'max': c['max']} for c in case['calls']]
        scn = {'names': names_py, 'host': host, 'calls': calls, 'fresh': True}
        cases = [c for c in vmrun.run_scenarios([scn]) if 'harness_error' not in c]
        if not cases:
            print('replay: the scenario could not be executed')
            return 2
        cases[0]['tid'] = 1
        verdicts, res = vmrun.validate(cases, deviations=[])
        vd = verdicts.get(1, {})
        print('replay verdict of the specification: %s %s' % (vd.get('v'), vd.get('why', '')))
        if vd.get('v') == 'rejected':
            print('VIOLATION property=%s replay=%s' % (prop, path))
            return 1
        return 0
    except Exception as e:      # noqa
        print('replay: could not rebuild the scenario (%s: %s)' % (type(e).__name__, e))
        return 2


def check_C09(tier, seed):
    rep = Report('C09', tier, seed)
    devs = engine.open_deviations()
    quick = tier == 'quick'
    rep.notes['rule'] = ('TLC: all expression shapes (depth <= MaxDepth, <= MaxLeaves leaves) over every construct with operands, a '
                         'distinct probe per leaf, all outcome assignments {truthy, falsy, host list, raises}; order/laziness/once '
                         'invariants on the event history; code: the same scenarios replayed plus random deeper probe programs '
                         '(method/pipe sugar, slices, dict literals, index/compound/del statements), every event validated by TLC; '
                         'distinct = distinct (source, outcome assignment)')
    consts = {'MaxLeaves': '3', 'MaxDepth': '2'}
    res = engine.model_check(rep, 'MC_C09.tla', 'MC_C09.cfg', consts=consts, timeout=900 if quick else 3400, coverage=not quick)
    rep.exhaustive = True
    if not quick:
        # the wide constructs (4-leaf dict literals, 3-part slices, max/push with nested operands) at depth 1
        engine.model_check(rep, 'MC_C09.tla', 'MC_C09.cfg', consts={'MaxLeaves': '4', 'MaxDepth': '1'}, timeout=3400)
    engine.model_check(rep, 'MC_C09.tla', 'MC_C09.cfg', consts={'MaxLeaves': '3', 'MaxDepth': '1'}, deviations=['MutIfBoth'],
                       expect_violation=True, timeout=600)
    if not rep.machinery:
        engine.replay_emitted(rep, _emitted(res), devs, sample=2000 if quick else 15000, seed=seed, what='TLC scenario',
                              always=lambda r: any(n in json.dumps(r['calls']) for n in ('"t5"', '"nn"', '"hl"')))
    scns = families.probe_programs(seed, 1500 if quick else 12000, depth=3 if quick else 4)
    cases = engine.run_family(rep, scns)
    engine.judge_cases(rep, cases, devs, what='probe program')
    _reference_parse_component(rep, [cl['src'] for c in cases[:400 if quick else 4000] for cl in c['calls']], 'probe program')
    rep.assumptions += ['probe outcomes are drawn from {1, 0, 2, "a", None, host list, host dict, raise}', 'TLC bounds: MaxDepth, MaxLeaves of spec/MC_C09.tla']
    return rep.finish()


def check_C10(tier, seed):
    rep = Report('C10', tier, seed)
    devs = engine.open_deviations()
    quick = tier == 'quick'
    rep.notes['rule'] = ('TLC: a name bound at every subset of {builtin, host/top-level, parameter/local}; host-supplied AST lambdas '
                         'whose bodies assign, nested/recursive calls, bodies raising under map/sorted/filter and under a swallowing '
                         'callback (MC_C10); code: the same scenarios replayed + random scoping programs incl. host mappings equal to a '
                         'parameter binding and 2-call histories; scope depth, host names, FUNCTIONS digest compared after every call')
    res = engine.model_check(rep, 'MC_C10.tla', 'MC_C10.cfg', timeout=900, coverage=not quick)
    rep.exhaustive = True
    engine.model_check(rep, 'MC_C10.tla', 'MC_C10.cfg', deviations=['MutNoPopOnRaise'], expect_violation=True, timeout=600)
    if not rep.machinery:
        cases = engine.replay_emitted(rep, _emitted(res), devs, sample=2000 if quick else 16128, seed=seed, what='TLC scenario')
        _functions_frozen(rep, cases)
    scns = families.scoping_programs(seed, 2000 if quick else 15000)
    cases = engine.run_family(rep, scns)
    engine.judge_cases(rep, cases, devs, what='scoping program')
    _functions_frozen(rep, cases)
    # sessions of the interactive loop (smartquery/repl.py, spec/SQRepl.tla): one names mapping over many evals
    from . import repl_conf
    r = random.Random(seed + 5)
    scns = [repl_conf.random_script(r, r.choice([4, 8, 12])) for _ in range(150 if quick else 1500)]
    cases = engine.run_family(rep, scns)
    engine.judge_cases(rep, cases, devs, what='interactive session', side_clauses={'property REPL Printed': 'repl_printed_text_differences'})
    lv, res = repl_conf.validate_loops(cases)
    rep.add_tlc(res, 'TraceRepl on %d recorded sessions' % len(cases))
    nd = sum(1 for v in lv.values() if v['v'] != 'accepted')
    if res.rc != 0 or len(lv) != len(cases):
        rep.machinery.append('TraceRepl failed: ' + res.out[-800:])
    if nd:
        rep.notes['repl_loop_differences'] = {'sessions': nd, 'note': 'the loop of repl.py differs from SQRepl (not part of this property; see tools/repl_check.py)'}
    rep.assumptions += ['lambda bodies that assign exist only as host-supplied ASTs (ast_names), as in tests/test_sq_parser.py::test_custom_ast_functions']
    return rep.finish()


def _functions_frozen(rep, cases):
    for c in cases or []:
        if not c.get('functions_frozen', True):
            rep.violation('the builtin table FUNCTIONS was modified by an evaluation: %r' % [cl['src'] for cl in c['calls']],
                          {'case': engine.slim(c)})


def check_C12(tier, seed):
    rep = Report('C12', tier, seed)
    devs = engine.open_deviations()
    quick = tier == 'quick'
    rep.notes['rule'] = ('TLC: host object of 6 nested shapes (lists, dicts, tuple holding a list, shared inner list) x 11 store forms '
                         '(name, index, compound name, compound index, via items/enumerate, chains, literals holding variables) x all '
                         'sequences of <= 2 mutations through the stored or the source side (MC_C12): Separation / HostOnlyDirect; '
                         'code: the same scenarios replayed + random aliasing programs; object identities compared up to a bijection')
    res = engine.model_check(rep, 'MC_C12.tla', 'MC_C12.cfg', timeout=900, coverage=not quick)
    rep.exhaustive = True
    engine.model_check(rep, 'MC_C12.tla', 'MC_C12.cfg', deviations=['MutAssignNoCopy'], expect_violation=True, timeout=600)
    if not rep.machinery:
        engine.replay_emitted(rep, _emitted(res), devs, sample=2500 if quick else 19074, seed=seed, what='TLC scenario')
    scns = families.alias_programs(seed, 2000 if quick else 20000)
    cases = engine.run_family(rep, scns)
    engine.judge_cases(rep, cases, devs, what='aliasing program')
    return rep.finish()


def check_C13(tier, seed):
    rep = Report('C13', tier, seed)
    devs = engine.open_deviations()
    quick = tier == 'quick'
    rep.notes['rule'] = ('TLC: every deterministic non-mutator of the table x all argument tuples (<= 2, some 3) from a universe of host '
                         'lists/dicts/strings/numbers/flags/key functions + all two-stage pipelines of unary builtins (MC_C13): '
                         'ArgsPreserved (action property on the builtin application step and on every own step of map/filter/reduce/'
                         'sorted) and HostIntact; code: the same programs replayed + random calls incl. shuffle/rand/match*; the host '
                         'objects are compared (contents and identity) after every call')
    res = engine.model_check(rep, 'MC_C13.tla', 'MC_C13.cfg', timeout=900, coverage=not quick)
    rep.exhaustive = True
    engine.model_check(rep, 'MC_C13.tla', 'MC_C13.cfg', deviations=['MutSortedInPlace'], expect_violation=True, timeout=600)
    _table_domain(rep)
    if not rep.machinery:
        engine.replay_emitted(rep, _emitted(res), devs, sample=2500 if quick else 9000, seed=seed, what='TLC scenario')
    scns = families.nonmutator_calls(seed, 2500 if quick else 20000)
    cases = engine.run_family(rep, scns)
    engine.judge_cases(rep, cases, devs, what='builtin call')
    # every table entry x every pair of host values of every plain type and shape (sampled in the quick tier)
    scns = families.builtin_matrix(seed, 2500 if quick else None)
    cases = engine.run_family(rep, scns)
    engine.judge_cases(rep, cases, devs, what='builtin x argument matrix')
    return rep.finish()


SPEC_BUILTINS = ["len", "int", "float", "str", "dict", "list", "startswith", "endswith", "lower", "upper", "strip", "replace", "match",
                 "match_groups", "match_all", "pretty", "keys", "values", "items", "sum", "get", "__getitem__", "__delitem__",
                 "__setitem__", "__setitem_with_op__", "map", "filter", "reduce", "join", "split", "round", "floor", "ceil", "abs",
                 "min", "max", "rand", "push", "pop", "insert", "remove", "sorted", "reversed", "enumerate", "shuffle", "index_of"]


def _table_domain(rep):
    """The domain of the specification's builtin table must be the key set of FUNCTIONS of the tree
    under test; an entry unknown to the specification is exercised only relationally and reported."""
    from .vmtrace import TRACER
    impl = TRACER.install()
    keys = set(impl['functions'].FUNCTIONS)
    extra = sorted(keys - set(SPEC_BUILTINS))
    missing = sorted(set(SPEC_BUILTINS) - keys)
    rep.notes['builtin_table'] = {'entries': len(keys), 'unknown_to_spec': extra, 'absent_from_code': missing}
    return extra, missing


# ---------------------------------------------------------------------------------------------
# lexer / parser layer (spec/SQLexer.tla, SQGrammar.tla, TraceParse.tla; harness/lexparse.py)
# ---------------------------------------------------------------------------------------------
def _lexparse():
    import importlib
    hp = os.path.join(common.VERIF, 'harness')
    if hp not in sys.path:
        sys.path.insert(0, hp)
    return importlib.import_module('lexparse')


def _lexparse_check(prop, fn, tier, seed, rule, extra=None, session_clauses=None, session_what=''):
    rep = Report(prop, tier, seed)
    lp = _lexparse()
    open_devs = [d for d in engine.open_deviations() if d in lp.ALL_DEVIATIONS] + list(lp.IMPL_DETAIL)
    rep.notes['rule'] = rule
    try:
        st = getattr(lp, fn)(tier, seed, tuple(open_devs))
        if extra:
            for e in extra:
                lp._merge(st, e(lp, tier, seed, tuple(open_devs)))
            st = lp._view(st, prop)
    except lp.MachineryError as e:
        rep.machinery.append(str(e)[-2000:])
        return rep.finish()
    rep.states = int(st.get('states', 0))
    rep.transitions = int(st.get('transitions', 0)) or rep.states
    rep.traces = int(st.get('traces_validated', 0))
    rep.evaluations = int(st.get('evaluations', 0))
    rep.distinct = set(range(int(st.get('distinct', 0))))
    rep.samples = list(st.get('samples', []))[:8]
    rep.exhaustive = True
    rep.notes['runs'] = st.get('runs', [])[:40]
    rep.notes['by_explanation'] = st.get('by_explanation', {})
    mine = {f['deviation'] for f in engine.load_known_findings() if f.get('property') == prop and f.get('status') == 'open'}
    other = {}
    for m in st.get('mismatches', []):
        ex = m.get('explained_by')
        if ex:
            if m.get('non_defect'):
                continue
            for d in str(ex).split('+'):
                if d in mine:
                    rep.known.append((d, engine.finding_text(d)))
        else:
            clause = str(m.get('kind') or m.get('clause'))
            if clause not in RELEVANT_CLAUSES[prop]:
                # differences in observables this property does not speak about (internal lexer residue, number of
                # tokens read ahead, another property's clause, a listed deviation that the code no longer shows)
                # are recorded, not reported: they are the business of the checks that own them
                other[clause] = other.get(clause, 0) + 1
                continue
            rep.violation('%s: clause %s on %r: specified %s, observed %s' % (m.get('origin'), clause, m.get('input'),
                                                                         str(m.get('expected'))[:200], str(m.get('observed'))[:200]), m)
    if other:
        rep.notes['differences_outside_this_property'] = other
    if session_clauses:
        # the same question asked of a parser with a history (earlier calls that failed or were abandoned, a parse cache)
        _session_component(rep, seed + 31, tier == 'quick', session_clauses, session_what)
    return rep.finish()


def _reference_parse_component(rep, sources, what):
    """The trees the evaluator-level traces are validated on come from the real parser.  For families whose property
    depends on WHAT is evaluated (arithmetic nodes, operand order), the texts are also parsed by the specification
    (TraceParse: lexer + normative parser in TLA+): the real tree must be the grammar's tree - constants folded, operands
    merged or reordered at parse time would otherwise bypass the evaluator the property is about."""
    lp = _lexparse()
    devs = [d for d in engine.open_deviations() if d in lp.ALL_DEVIATIONS] + list(lp.IMPL_DETAIL)
    cases = [{'text': s, 'origin': 'vm-family'} for s in sorted(set(sources))]
    if not cases:
        return
    st = lp._new_stats()
    try:
        lp.run_cases_b(cases, tuple(devs), st)
    except lp.MachineryError as e:
        rep.machinery.append(str(e)[-1500:])
        return
    rep.states += int(st.get('states', 0))
    rep.transitions += int(st.get('states', 0))
    rep.notes.setdefault('reference_parse', []).append({'texts': len(cases), 'mismatches': st.get('mismatch_count', 0)})
    for m in st.get('mismatches', []):
        clause = str(m.get('kind') or m.get('clause'))
        if m.get('explained_by') or clause not in ('accept', 'tree'):
            continue
        rep.violation('%s: the parser does not build the tree of the grammar for %r: specified %s, observed %s' %
                      (what, m.get('input'), str(m.get('expected'))[:200], str(m.get('observed'))[:200]), m)


def _session_component(rep, seed, quick, clauses, what, kinds=(None, 'dict')):
    """Recorded sessions of long-lived parsers (plain and caching; parse / eval / list_names full and abandoned, the same text
    again, near-duplicates, faulty texts) validated by TLC against SQSession; a rejection is a violation of the calling
    check's property only if the differing part of the outcome is one of `clauses`."""
    from . import session
    for kind in kinds:
        sessions, verdicts, results = session.validate_sessions(seed, 100 if quick else 1200, 6, cache_kind=kind, observe_keys=False)
        for res in results:
            rep.add_tlc(res, 'TraceSession cache=%s' % kind)
            if res.rc != 0:
                rep.machinery.append('TraceSession failed: ' + res.out[-800:])
        for sess, vd in verdicts:
            rep.evaluations += 1
            if vd is None:
                rep.machinery.append('TraceSession dropped a session')
                continue
            if vd['v'] == 'accepted':
                rep.traces += 1
                continue
            i = vd['at'] - 1
            clause = vd['clause']
            obs = sess[i]['obs']
            if clause in ('outcome.kind', 'outcome.rejected') and obs.get('cls') not in (None, 'ParserError', 'ParserOpsLimitError'):
                clause = 'outcome.class'
            if clause in clauses:
                rep.violation('session (cache=%s): %s at call %d (%s): %r' % (kind, what, vd['at'], clause, [(c['op'], c['text']) for c in sess[:i + 1]]),
                              {'cache': kind, 'calls': [(c['op'], c['text'], c['k']) for c in sess[:i + 1]], 'clause': clause, 'observed': obs})
            else:
                d = rep.notes.setdefault('session_differences_outside_this_property', {})
                d[clause] = d.get(clause, 0) + 1


RELEVANT_CLAUSES = {
    'C06': {'accept', 'tree', 'lex.tokens'},
    'C15': {'accept', 'tree', 'layout.want', 'lex.tokens'},
    'C16': {'kind', 'class', 'illegalchar', 'lex.err', 'lex.errchar', 'crash', 'names.err'},
    'C18': {'names.list', 'names.err', 'names.intree'},
    'C20': {'token', 'line'},
}


def check_C06(tier, seed):
    return _lexparse_check('C06', 'check_C06', tier, seed,
                           'TLC: all token strings up to a length bound over 18 alphabet groups (MC_Parse) parsed by the normative '
                           'precedence-climbing parser of SQGrammar.tla, itself model-checked against the declarative grammar+table '
                           'reading (SQGrammarValid: Sound/Complete/Unique); every string rendered to text and parsed by the real '
                           'SqParser (accept/reject, tree, offending token); random sentences, one-token mutations and the test-suite '
                           'sources validated by TLC (TraceParse)',
                           extra=[lambda lp, tier, seed, devs: lp.check_C06_spec(tier, seed, devs)] if tier != 'quick' else None,
                           session_clauses={'outcome.accepted', 'outcome.rejected', 'outcome.tree'},
                           session_what='acceptance / tree differs from the grammar on a parser with a history')


def check_C15(tier, seed):
    return _lexparse_check('C15', 'check_C15', tier, seed,
                           'TLC: token strings with layout variants (MC_Parse suite C15) + layout rewrites (spaces/tabs, comments, line '
                           'breaks in brackets, ; vs newline vs CRLF, blank statements, trailing commas, redundant parentheses, the '
                           'three call spellings) of random trees: Parse(Lex(Unparse(t, layout))) = t checked by TLC per record and '
                           'against the real parser; multi-line / bracketed texts on parsers with a history (SQSession)',
                           session_clauses={'outcome.accepted', 'outcome.rejected', 'outcome.tree'},
                           session_what='a layout-only difference changed acceptance / tree on a parser with a history')


def check_C20(tier, seed):
    return _lexparse_check('C20', 'check_C20', tier, seed,
                           'TLC: token strings with separators and brackets before a stray token (MC_Parse suite C20); valid programs '
                           'made invalid by a stray token at every position with mixtures of newline/CRLF/; and multi-line literals, '
                           'truncations: message must name the token and its physical line (ErrMsg of SQGrammar.tla); the same on '
                           'long-lived and caching parsers (recorded sessions validated against SQSession)',
                           session_clauses={'outcome.token', 'outcome.line'},
                           session_what='syntax-error message names another token / line on a parser with a history')


def check_C14(tier, seed):
    import random
    rep = Report('C14', tier, seed)
    devs = engine.open_deviations()
    quick = tier == 'quick'
    rep.notes['rule'] = ('TLC: model-based exploration of one list and one dict under an alphabet of 297 operations (push pop insert remove '
                         'read write compound-write del get index_of keys/values/items len in; keys 0 1 1.0 1.7 -1 -1.5 5 "1" "a" True '
                         'None), all sequences up to MaxOps; algebraic laws (WriteRead, ReadGet, DelGone, FailedNoChange, IndexLaw, '
                         'Observers, ParserError classes) evaluated in every reachable container state for every operation; code: one '
                         'path to each explored state plus every/sampled next operation, and random sequences up to length 12, one eval '
                         'call per operation on persistent names, validated by TLC; distinct = distinct operation sequences')
    res = engine.model_check(rep, 'MC_C14.tla', 'MC_C14.cfg', consts={'MaxOps': '3' if quick else '4'}, timeout=900 if quick else 3400,
                             coverage=not quick)
    rep.exhaustive = True
    engine.model_check(rep, 'MC_C14.tla', 'MC_C14.cfg', consts={'MaxOps': '2'}, deviations=['MutGetNoCast'], expect_violation=True, timeout=600)
    scns = []
    if not rep.machinery:
        paths = [r['hist'] for r in res.printed() if 'hist' in r]
        rng = random.Random(seed)
        ops = families.c14_all_ops()
        rep.notes['direction_a'] = {'container_states_explored_by_tlc': len(paths)}
        pick = rng.sample(paths, min(len(paths), 700 if quick else 6000))
        for p in pick:
            # the path to the state, then a few operations of the alphabet applied in that state
            for o in rng.sample(ops, 2 if quick else 3):
                scns.append(families.c14_scenario(list(p) + [o]))
        rep.notes['direction_a']['replayed'] = len(scns)
    scns += families.c14_random(seed, 600 if quick else 6000)
    cases = engine.run_family(rep, scns)
    engine.judge_cases(rep, cases, devs, what='operation sequence')
    return rep.finish()


def _c03_scenario(desc, optrees, real=True):
    from . import unparse
    from decimal import Decimal
    lens = [0, 1, 9998, 9999, 10000, 10001]
    n = lens[desc['ni'] - 1]
    lines = [unparse.stmt(optrees[i - 1]) for i in (desc['o1'], desc.get('o2', 0), desc.get('o3', 0)) if i]
    names = {'a': [0] * n, 'd': {'k%d' % i: 0 for i in range(n)}, 'b': [5], 's': 'a' * n, 'k': 2, 'm': Decimal(2),
             'e': [[5] if i == 0 else 0 for i in range(n)], 'di': {i: 0 for i in range(n)}}
    return {'names': [names], 'host': {}, 'calls': [{'src': '\n'.join(lines), 'n': 0, 'max': 10 ** 9}], 'desc': desc}


def check_C03(tier, seed):
    import random
    rep = Report('C03', tier, seed)
    devs = engine.open_deviations()
    quick = tier == 'quick'
    rep.notes['rule'] = ('TLC: the cap logic of the specification (parametric in Cap) explored exhaustively at Cap = 6: host list/dict/string '
                         'of length 0, 1, Cap-2, Cap-1, Cap, Cap+1 x all sequences of <= MaxLen operations from an alphabet of 51 '
                         '(every builtin/operator that returns or mutates a container): SizeInv on every heap object incl. transient '
                         'results, AtCapFails (ParserError, container unchanged); code: the same scenario descriptors rendered at the true '
                         'constant (lengths 0, 1, 9998, 9999, 10000, 10001) and validated by TLC with Cap = 10000')
    # (all sequences of three of the 68 operations are 1.9 million scenarios - more than an hour of TLC; the thorough tier explores
    #  the pairs exhaustively like the quick tier and validates random triples at real scale instead)
    consts = {'MaxLen': '2'}
    res = engine.model_check(rep, 'MC_C03.tla', 'MC_C03.cfg', consts=consts, timeout=900 if quick else 3400, coverage=not quick)
    rep.exhaustive = True
    for dev in ('ConcatUnchecked', 'ShortAddUnchecked', 'StrToListUnchecked'):
        engine.model_check(rep, 'MC_C03.tla', 'MC_C03.cfg', consts={'MaxLen': '1'}, deviations=[dev], expect_violation=True, timeout=600)
    engine.model_check(rep, 'MC_C03.tla', 'MC_C03.cfg', consts={'MaxLen': '1'}, deviations=['ShortMulRepeats', 'ShortMulNative'],
                       expect_violation=True, timeout=600)
    if not rep.machinery:
        recs = res.printed()
        optrees = [r['optrees'] for r in recs if 'optrees' in r]
        descs = [r['sc'] for r in recs if 'sc' in r and 'summary' in r]
        if not optrees or not descs:
            rep.machinery.append('MC_C03 printed no operation table / scenarios')
            return rep.finish()
        rng = random.Random(seed)
        pick = rng.sample(descs, min(len(descs), 400 if quick else 2400))
        scns = [_c03_scenario(d, optrees[0]) for d in pick]
        if not quick:
            nops = len(optrees[0])
            scns += [_c03_scenario({'ni': rng.randrange(1, 7), 'o1': rng.randrange(1, nops + 1), 'o2': rng.randrange(1, nops + 1), 'o3': rng.randrange(1, nops + 1)},
                                   optrees[0]) for _ in range(800)]
        rep.notes['direction_a'] = {'scenarios_explored_by_tlc': len(descs), 'replayed_at_real_scale': len(scns)}
        # in batches: the recorded traces of 10000-element scenarios are large
        for start in range(0, len(scns), 400):
            cases = engine.run_family(rep, scns[start:start + 400])
            engine.judge_cases(rep, cases, devs, what='cap scenario')
            del cases
    return rep.finish()


def check_C16(tier, seed):
    """Syntax part (lexer/parser layer) + evaluator part (MC_C16 and failing programs); one evidence file."""
    from . import vmgen
    quick = tier == 'quick'
    rep = Report('C16', tier, seed)
    devs = engine.open_deviations()
    rep.notes['rule'] = ('evaluator: TLC model MC_C16 plants each language-level failure (undefined variable / function, compound assignment '
                         'to an undefined name, missing key or index read, compound index assignment on a missing key, empty / out-of-range '
                         'pop, size cap, op budget, non-container arguments) in each of 26 expression contexts x 8 statement contexts, and as '
                         'statements inside host AST lambdas: ClassInv (outcome is ParserError or its ops-limit subclass); replay on the code '
                         '+ random failing programs validated by TLC; syntax: all character/token strings up to a bound, truncations at every '
                         'token boundary, character soup, hostile inputs in a subprocess (lexparse layer)')
    res = engine.model_check(rep, 'MC_C16.tla', 'MC_C16.cfg', timeout=900, coverage=not quick)
    rep.exhaustive = True
    engine.model_check(rep, 'MC_C16.tla', 'MC_C16.cfg', deviations=['ShortOpKeyError'], expect_violation=True, timeout=600)
    engine.model_check(rep, 'MC_C16.tla', 'MC_C16.cfg', deviations=['SetWithOpLookupError'], expect_violation=True, timeout=600)
    if not rep.machinery:
        recs = _emitted(res)
        for r in recs:      # the model's full list holds Cap (=5) elements; the code's cap is 10000
            r['heap0'][3]['items'] = [r['heap0'][3]['items'][0]] * 10000
        engine.replay_emitted(rep, recs, devs, sample=1500 if quick else 4000, seed=seed, what='TLC scenario')
    scns = vmgen.failing_programs(seed, 1500 if quick else 12000)
    cases = engine.run_family(rep, scns)
    engine.judge_cases(rep, cases, devs, what='failing program')
    _base_exceptions(rep, cases)
    # the budget exhausted inside a lambda that earlier calls left in the names mapping, again and again (3-4 call histories)
    scns = families.closure_sessions(seed + 21, 200 if quick else 2000, more_calls=True)
    cases = engine.run_family(rep, scns)
    engine.judge_cases(rep, cases, devs, what='closure history')
    _base_exceptions(rep, cases)
    # the same faulty text submitted repeatedly to long-lived parsers (plain and caching): SQSession says it fails every time
    _session_component(rep, seed + 77, quick, {'outcome.accepted', 'outcome.class'},
                       'a text the specification rejects with ParserError was accepted / failed with another class')
    # syntax layer
    lp = _lexparse()
    open_devs = [d for d in devs if d in lp.ALL_DEVIATIONS] + list(lp.IMPL_DETAIL)
    try:
        st = lp.check_C16_syntax(tier, seed, tuple(open_devs))
        rep.states += int(st.get('states', 0))
        rep.transitions += int(st.get('transitions', 0)) or int(st.get('states', 0))
        rep.traces += int(st.get('traces_validated', 0))
        rep.evaluations += int(st.get('evaluations', 0))
        rep.distinct |= set('lp%d' % i for i in range(int(st.get('distinct', 0))))
        rep.samples += list(st.get('samples', []))[:3]
        rep.notes['syntax_runs'] = st.get('runs', [])[:30]
        mine = {f['deviation'] for f in engine.load_known_findings() if f.get('property') == 'C16' and f.get('status') == 'open'}
        other = {}
        for m in st.get('mismatches', []):
            ex = m.get('explained_by')
            if ex:
                if not m.get('non_defect'):
                    for d in str(ex).split('+'):
                        if d in mine:
                            rep.known.append((d, engine.finding_text(d)))
                continue
            clause = str(m.get('kind') or m.get('clause'))
            if clause not in RELEVANT_CLAUSES['C16']:
                other[clause] = other.get(clause, 0) + 1
                continue
            rep.violation('%s: clause %s on %r: specified %s, observed %s' % (m.get('origin'), clause, m.get('input'),
                                                                         str(m.get('expected'))[:200], str(m.get('observed'))[:200]), m)
        if other:
            rep.notes['differences_outside_this_property'] = other
    except lp.MachineryError as e:
        rep.machinery.append(str(e)[-2000:])
    return rep.finish()


def _base_exceptions(rep, cases):
    """Nothing that is not an ordinary Exception may escape from eval."""
    for c in cases or []:
        for e in c['events']:
            if e['e'] == 'end' and e['out']['t'] == 'exc' and e['out']['e']['exc'] == 'Base':
                rep.violation('eval raised a non-Exception BaseException %s: %r' % (e['out']['e']['name'], [cl['src'] for cl in c['calls']]),
                              {'case': engine.slim(c)})


def check_C18(tier, seed):
    """list_names: token-level conformance (lexer layer) + the evaluator never asks the host for an unlisted name."""
    from . import vmgen
    quick = tier == 'quick'
    rep = Report('C18', tier, seed)
    devs = engine.open_deviations()
    rep.notes['rule'] = ('lexer: all character strings up to a bound over representative characters + the lexer as a state machine (one '
                         'action per token rule) - ListNames(text) = names of NAME tokens in order, error at the first illegal character; '
                         'evaluator: TLC invariant LookedInv (names requested from the host are names of the tree or implicit) on the '
                         'program spaces of MC_C01 and MC_C10; code: list(list_names(src)) compared with the specification, and for random '
                         'programs the keys requested from a recording names mapping are validated by TLC against list_names(src)')
    consts = {'Tier': '"quick"', 'MaxN': '6' if quick else '12'}
    cfg = engine.mc_cfg('MC_C01.cfg', consts=consts)
    open(cfg, 'a').write('INVARIANT LookedInv\nINVARIANT LookedNow\n')
    res = common.run_tlc('MC_C01.tla', cfg=cfg, workers=16, timeout=900)
    rep.add_tlc(res, 'MC_C01 + LookedInv')
    if res.rc != 0:
        rep.machinery.append('MC_C01 + LookedInv: the specification violates %s or TLC failed: %s' % (res.invariant_violated, res.out[-1200:]))
    rep.exhaustive = True
    # evaluator side on the real code
    scns = [vmgen.random_scenario(seed * 31337 + i, ncalls=1) for i in range(1200 if quick else 10000)]
    for s in scns:
        s['list_names'] = True
    cases = engine.run_family(rep, scns)
    engine.judge_cases(rep, cases, devs, what='program')
    # on a caching parser: texts that differ only in the blanks inside a %...% name, list_names recorded for every call
    scns = families.near_duplicate_name_sessions(seed + 6, 200 if quick else 2000)
    cases = engine.run_family(rep, scns)
    engine.judge_cases(rep, cases, devs, what='near-duplicate %name% texts on a caching parser')
    # lexer side
    lp = _lexparse()
    open_devs = [d for d in devs if d in lp.ALL_DEVIATIONS] + list(lp.IMPL_DETAIL)
    try:
        st = lp.check_C18_names(tier, seed, tuple(open_devs))
        rep.states += int(st.get('states', 0))
        rep.transitions += int(st.get('transitions', 0)) or int(st.get('states', 0))
        rep.traces += int(st.get('traces_validated', 0))
        rep.evaluations += int(st.get('evaluations', 0))
        rep.distinct |= set('lp%d' % i for i in range(int(st.get('distinct', 0))))
        rep.samples += list(st.get('samples', []))[:3]
        rep.notes['lexer_runs'] = st.get('runs', [])[:30]
        other = {}
        for m in st.get('mismatches', []):
            if m.get('explained_by'):
                continue
            clause = str(m.get('kind') or m.get('clause'))
            if clause not in RELEVANT_CLAUSES['C18']:
                other[clause] = other.get(clause, 0) + 1
                continue
            rep.violation('%s: clause %s on %r: specified %s, observed %s' % (m.get('origin'), clause, m.get('input'),
                                                                         str(m.get('expected'))[:200], str(m.get('observed'))[:200]), m)
        if other:
            rep.notes['differences_outside_this_property'] = other
    except lp.MachineryError as e:
        rep.machinery.append(str(e)[-2000:])
    return rep.finish()


def check_C07(tier, seed):
    from . import vmgen
    quick = tier == 'quick'
    rep = Report('C07', tier, seed)
    devs = engine.open_deviations()
    rep.notes['rule'] = ('the TLA+ specification is the reference semantics; TLC: type-directed generator MC_C07 (Num Str Bool List Dict Fun; '
                         'every operator, statement form, slice form, deterministic builtin; host ints/Decimals/strings/containers) - generic '
                         'invariants (ops charged = node evaluations, plain values, scope balance, size); code: every generated program '
                         'replayed, plus random type-directed programs of arbitrary nesting with multi-line bodies and host names; value, '
                         'names afterwards, error class and op count of every node validated by TLC')
    res = engine.model_check(rep, 'MC_C07.tla', 'MC_C07.cfg', consts={'Tier': '"quick"' if quick else '"thorough"'}, timeout=1500,
                             coverage=not quick)
    rep.exhaustive = True
    if not rep.machinery:
        recs = _emitted(res)
        rep.notes['generator_left_domain'] = sum(1 for r in recs if r.get('end') == 'unspec')
        engine.replay_emitted(rep, recs, devs, sample=None if quick else 20000, seed=seed, what='generated program')
    scns = [vmgen.random_scenario(seed * 1000003 + i) for i in range(2500 if quick else 25000)]
    cases = engine.run_family(rep, scns)
    engine.judge_cases(rep, cases, devs, what='random program')
    _reference_parse_component(rep, [cl['src'] for c in cases[:500 if quick else 5000] for cl in c['calls']], 'random program')
    # every eval call the repository's own tests make, recorded and validated event by event
    tscns = families.repo_test_evals()
    rep.notes['repository_test_evals_recorded'] = len(tscns)
    tcases = engine.run_family(rep, tscns)
    engine.judge_cases(rep, tcases, devs, what='eval call of the repository test-suite')
    rep.assumptions += ['programs that leave the specified part of Python semantics (binary float arithmetic, int/int division, '
                        'non-ASCII case mapping, ...) are counted as left-domain and not as validated']
    return rep.finish()


def check_C08(tier, seed):
    from . import decimal_conf
    quick = tier == 'quick'
    rep = Report('C08', tier, seed)
    devs = engine.open_deviations()
    rep.notes['rule'] = ('TLC: SQDecimal (the decimal arithmetic of the specification, parametric in the precision) checked exhaustively at '
                         'precisions 1-2 (quick) / 1-3 (thorough) against the independent CorrectlyRounded oracle (half-even, exact '
                         'rational order, sign-of-zero and ideal-exponent rules); conformance of the same module with Python decimal at '
                         'precision 28 on boundary + random cases (TraceDecimal); code: expression trees over + - * / unary minus, '
                         'comparisons, round/floor/ceil/abs/int/sum/min/max with boundary literals (carries, ties at the 28th digit, '
                         '27/28/29-digit operands, long fractions) - every arithmetic node validated by TLC; the NUMBER tokens the '
                         'long-lived lexer yields for each text are recorded and must equal DecFromLiteral(text) (LiteralExact), also '
                         'in 2-3 call histories where an earlier call made the same value through float()')
    cfg = engine.write_cfg('MC_Decimal_%d.cfg' % os.getpid(), ['INIT Init', 'NEXT Next', 'INVARIANT Correct', 'CHECK_DEADLOCK FALSE'] +
                           (['CONSTANT Precs <- QuickPrecs'] if quick else []))
    res = common.run_tlc('MC_Decimal.tla', cfg=cfg, workers=16, timeout=3000)
    rep.add_tlc(res, 'MC_Decimal (CorrectlyRounded, precisions %s)' % ('1-2' if quick else '1-3'))
    if res.rc != 0 or 'Error:' in res.out:
        rep.machinery.append('MC_Decimal: SQDecimal violates its rounding oracle or TLC failed: %s' % res.out[-1200:])
    rep.exhaustive = True
    dc = decimal_conf.run(1500 if quick else 40000, seed + 1)
    rep.notes['sqdecimal_vs_python_decimal'] = {k: dc.get(k) for k in ('cases', 'ok', 'states', 'wall_s')}
    rep.states += int(dc.get('states') or 0)
    rep.transitions += int(dc.get('states') or 0)
    if not dc.get('ok'):
        rep.machinery.append('SQDecimal disagrees with Python decimal: %r' % (dc,))
    scns = families.numeric_programs(seed, 2500 if quick else 25000, host_types=False)
    for s in scns:
        s['literals'] = True
    cases = engine.run_family(rep, scns)
    engine.judge_cases(rep, cases, devs, what='numeric program')
    _reference_parse_component(rep, [cl['src'] for c in cases[:400 if quick else 4000] for cl in c['calls']], 'numeric program')
    scns = families.literal_history_programs(seed + 2, 400 if quick else 5000)
    cases = engine.run_family(rep, scns)
    engine.judge_cases(rep, cases, devs, what='literal-after-float history')
    rep.assumptions += ['** and float() of non-integral values are specified relationally (Decimal of <= 28 digits); float results are exact '
                        'binary expansions by definition and excluded from the exactness claim']
    return rep.finish()


def check_C04(tier, seed):
    quick = tier == 'quick'
    rep = Report('C04', tier, seed)
    devs = engine.open_deviations()
    rep.notes['rule'] = ('TLC: 26 x 26 operand pairs from a boundary universe of every host type (ints of 1..41 digits, bool, floats, '
                         'Decimals with 28/40-digit coefficients and exponents up to +-10^6, non-numbers) x 25 operations (+ - * / '
                         'compound and compound-index forms, unary minus, int float round floor ceil abs sum min max, two-step chains): '
                         'DigitBound (linear growth) and NoRepeat; code: the same scenarios replayed + random chains over host values '
                         'of all numeric types, every numeric node validated by TLC (so a natively computed product/power shows as a '
                         'value mismatch); each replay runs under the op budget and a wall-clock guard')
    res = engine.model_check(rep, 'MC_C04.tla', 'MC_C04.cfg', timeout=900, coverage=not quick)
    rep.exhaustive = True
    engine.model_check(rep, 'MC_C04.tla', 'MC_C04.cfg', deviations=['IntViaPyInt'], expect_violation=True, timeout=600)
    engine.model_check(rep, 'MC_C04.tla', 'MC_C04.cfg', deviations=['ShortMulNative'], expect_violation=True, timeout=600)
    if not rep.machinery:
        engine.replay_emitted(rep, _emitted(res), devs, sample=1500 if quick else 16900, seed=seed, what='TLC scenario')
    scns = families.numeric_programs(seed + 7, 1200 if quick else 20000, host_types=True)
    cases = engine.run_family(rep, scns)
    engine.judge_cases(rep, cases, devs, what='numeric chain')
    srcs = [cl['src'] for c in cases for cl in c['calls']]
    scns = families.shadowed_cast_programs(seed + 9, 500 if quick else 6000)
    cases = engine.run_family(rep, scns)
    engine.judge_cases(rep, cases, devs, what='program with shadowed numeric casts')
    scns = families.literal_arithmetic_programs(seed + 11, 400 if quick else 4000)
    cases = engine.run_family(rep, scns)
    engine.judge_cases(rep, cases, devs, what='arithmetic over literals')
    _reference_parse_component(rep, srcs[:300 if quick else 3000] + [cl['src'] for c in cases for cl in c['calls']], 'arithmetic program')
    return rep.finish()


def check_C19(tier, seed):
    import random as _random
    quick = tier == 'quick'
    rep = Report('C19', tier, seed)
    devs = engine.open_deviations()
    rep.notes['rule'] = ('TLC: rand / shuffle as nondeterministic actions (MC_C19): every candidate result incl. candidates just outside the '
                         'range is tried; the specification must refuse the outside ones and accepted draws must keep programs that rely '
                         'on the range free of range errors; code: trace validation - each observed draw of rand(), rand(a, b), rand(list), '
                         'shuffle(list) must be a value the corresponding action allows (integer-valued bounds of every numeric type, '
                         'a == b, negative and large bounds, lists of length 0..4 with nested and duplicate elements), many draws per input')
    res = common.run_tlc('MC_C19.tla', cfg='MC_C19.cfg', workers=8, timeout=600, coverage=not quick)
    rep.add_tlc(res, 'MC_C19')
    if res.rc != 0:
        rep.machinery.append('MC_C19: %s %s' % (res.invariant_violated, res.out[-1000:]))
    else:
        ends = {}
        for r in res.printed():
            if 'sc' in r:
                ends.setdefault(r['sc'], set()).add(r['end'])
        rep.notes['mc_c19_outcomes'] = {str(k): sorted(v) for k, v in sorted(ends.items())}
        if not all('halt' in v for v in ends.values()) or not any('badoracle' in v for v in ends.values()):
            rep.machinery.append('MC_C19: vacuous (no accepted or no refused draw)')
    rep.exhaustive = True
    _random.seed(seed)
    scns = families.random_builtin_programs(seed, 1500 if quick else 15000, draws=12 if quick else 40)
    cases = engine.run_family(rep, scns)
    engine.judge_cases(rep, cases, devs, what='draws')
    # observation only (not demanded by the property): do both end points occur?
    seen = {}
    for c in cases:
        for e in c['events']:
            if e['e'] == 'o' and e['name'] == 'rand' and e['orc'].get('t') == 'val' and e['orc']['v'].get('t') == 'dec':
                seen.setdefault(c['calls'][0]['src'][:40], set()).add(''.join(map(str, e['orc']['v']['digs'])) + ('-' if e['orc']['v']['sign'] else ''))
    rep.notes['distinct_draws_per_program_sample'] = {k: sorted(v)[:8] for k, v in list(seen.items())[:12]}
    rep.assumptions += ['draws come from the process-global RNG seeded with VERIF_SEED in every worker']
    return rep.finish()


PLAIN_BUT_UNREPRESENTABLE = ('Decimal:', 'int:huge', 'float:', 'too-deep', 'dict-with-non-str-keys', 'slicebound')
AUDIT_DENY = ('open', 'os.', 'subprocess.', 'socket.', 'import', 'exec', 'compile', 'ctypes.', 'shutil.', 'urllib.', 'http.', 'ftplib.',
              'smtplib.', 'webbrowser.', 'marshal.', 'pickle.', 'sqlite3.', 'pty.', 'fcntl.', 'mmap.', 'glob.', 'tempfile.', 'pathlib.',
              'code.__new__', 'function.__new__', 'builtins.input', 'cpython.run', 'sys.settrace', 'sys.setprofile', 'sys._getframe',
              'signal.', 'syslog.', 'telnetlib.', 'nntplib.', 'imaplib.', 'poplib.', 'resource.', 'gc.get_',
              'stream.write')      # text written to the process's stdout / stderr while a program is evaluated (recorded by harness/vmrun.py)


def _opaque_values(v, path=''):
    """Yield (path, type) of every value outside the specification's universe in a deep observed value."""
    if isinstance(v, dict):
        if v.get('t') == 'opaque':
            yield path, v.get('type')
        elif v.get('t') == 'hostfn':
            yield path, 'host function ' + str(v.get('name'))
        for k, x in v.items():
            if k in ('items', 'runs', 'head', 'tail', 'v', 'a', 'b', 'c', 'out', 'names') or (path.endswith('names') or path.endswith('n1')):
                yield from _opaque_values(x, path + '/' + str(k))
    elif isinstance(v, list):
        for i, x in enumerate(v):
            yield from _opaque_values(x, path + '[%d]' % i)


def check_C02(tier, seed):
    quick = tier == 'quick'
    os.environ['VERIF_AUDIT'] = '1'
    rep = Report('C02', tier, seed)
    devs = engine.open_deviations()
    rep.notes['rule'] = ('TLC: every deterministic builtin of the table x argument tuples from a shape universe (None, bools, numbers, '
                         'attribute-like / format-like strings, nested containers, a lambda, builtins as values, slice results) and two-stage '
                         'compositions: AllPlain in every state (MC_C02); the grammar has no attribute access (NoAttrAccess over the '
                         'production set, TLC ASSUME in MC_Parse); code: the same programs replayed + random programs incl. %a.b% names with '
                         'bound heads: the projection of observed values is total only on the specification universe, so any other object '
                         '(module, class, bound method, match object, view, iterator, frame, code) is reported; Python audit events raised '
                         'while eval runs are checked against a deny list (file, process, network, import, exec/compile, ctypes, ...)')
    res = engine.model_check(rep, 'MC_C02.tla', 'MC_C02.cfg', timeout=1500, coverage=not quick)
    rep.exhaustive = True
    extra, missing = _table_domain(rep)
    if extra:
        rep.violation('the builtin table exposes entries the specification does not know: %s (their results cannot be vouched for)' % extra,
                      {'unknown_builtins': extra})
    cases_all = []
    if not rep.machinery:
        cases_all += engine.replay_emitted(rep, _emitted(res), devs, sample=2000 if quick else 16000, seed=seed, what='TLC scenario') or []
    scns = families.confinement_programs(seed, 2500 if quick else 25000)
    cases = engine.run_family(rep, scns)
    engine.judge_cases(rep, cases, devs, what='program')
    cases_all += cases
    # every table entry with every pair of host values and with more arguments than it takes (lambdas, flag strings ...)
    scns = families.builtin_matrix(seed, 2000 if quick else 12000, plain_only=True)
    cases = engine.run_family(rep, scns)
    engine.judge_cases(rep, cases, devs, what='builtin x argument matrix')
    cases_all += cases
    audit_seen = {}
    for c in cases_all:
        hostnames = set((c.get('host') or {}).keys())
        for ev in c['events']:
            if ev['e'] in ('x', 'end', 'p'):
                for path, ty in _opaque_values(ev):
                    if ty and not any(str(ty).startswith(p) for p in PLAIN_BUT_UNREPRESENTABLE) and not str(ty).startswith('host function'):
                        rep.violation('a program obtained an object that is not plain data: %s (at %s); calls %r' %
                                      (ty, path, [cl['src'] for cl in c['calls']]), {'case': engine.slim(c), 'type': ty})
                        break
        for cl in c['calls']:
            for a in cl.get('audit', []):
                audit_seen[a] = audit_seen.get(a, 0) + 1
                if any(a == d or a.startswith(d) for d in AUDIT_DENY):
                    rep.violation('evaluation raised the audit event %r (file/process/network/import/dynamic code): %r' % (a, cl['src']),
                                  {'case': engine.slim(c), 'event': a})
    rep.notes['audit_events_seen'] = audit_seen
    rep.assumptions += ['audit events are recorded after one warm-up evaluation per worker (lazy imports of the first use excluded)',
                        'side channels (timing, memory) are outside the property']
    return rep.finish()


# ---------------------------------------------------------------------------------------------
# session layer (spec/SQSession.tla, TraceSession.tla; harness/session.py)
# ---------------------------------------------------------------------------------------------
SESSION_DEVS = ['ReservedNeedsLookahead', 'NotInBindsTight', 'ParenSingleParamRejected']


def _session_mc(rep, cache_kind, maxcalls, deviations=(), expect_violation=False, label=None):
    base = open(os.path.join(common.SPEC, 'MC_C11.cfg')).read()
    cfg = base.replace('CacheKind = "none"', 'CacheKind = "%s"' % cache_kind).replace('MaxCalls = 3', 'MaxCalls = %d' % maxcalls)
    if deviations:
        cfg = cfg.replace('Deviations = {', 'Deviations = {%s, ' % ', '.join('"%s"' % d for d in deviations))
    p = engine.write_cfg('sess_%s_%d_%s_%d.cfg' % (cache_kind, maxcalls, '_'.join(deviations), os.getpid()), cfg.splitlines())
    res = common.run_tlc('SQSession.tla', cfg=p, workers=16, timeout=1500, env={'SOURCES_FILE': os.path.join(common.SPEC, 'session_sources.json')})
    label = label or 'SQSession cache=%s calls<=%d %s' % (cache_kind, maxcalls, '+'.join(deviations))
    if expect_violation:
        rep.notes.setdefault('deviation_models', []).append({'model': label, 'violated': res.invariant_violated, 'states': res.distinct})
        if not res.invariant_violated:
            rep.machinery.append('%s: expected a violated invariant (vacuous model?)' % label)
    else:
        rep.add_tlc(res, label)
        if res.rc != 0:
            rep.machinery.append('%s: %s %s' % (label, res.invariant_violated, res.out[-1000:]))
    return res


def check_C11(tier, seed):
    from . import session
    quick = tier == 'quick'
    rep = Report('C11', tier, seed)
    devs = engine.open_deviations()
    rep.notes['rule'] = ('TLC: SQSession - one parser over time (lexer residue, tree slot), every call = explicit Reset step + lexing from the '
                         'residue; all sequences of <= MaxCalls calls (parse / eval / list_names complete / list_names abandoned after one '
                         'name) over 11 sources (valid multi-line with brackets, premature end, illegal character inside brackets, unbalanced, '
                         'syntax error on line 3, unterminated string, reserved word, ...): HistInd, ResetCovers; code: random call sequences '
                         'on one long-lived SqParser - every call also made on a brand-new parser with equal arguments (results, messages, '
                         'names compared) and every recorded session validated by TLC (outcome and lexer residue after each call); evals '
                         'of several names mappings interleaved; usability after every exception')
    _session_mc(rep, 'none', 3 if quick else 4)
    rep.exhaustive = True
    _session_mc(rep, 'none', 2, deviations=['MutNoParenReset'], expect_violation=True)
    _session_mc(rep, 'none', 2, deviations=['MutNoLinenoResetInListNames'], expect_violation=True)
    # code -> spec: recorded sessions
    sessions, verdicts, results = session.validate_sessions(seed, 300 if quick else 3000, 6 if quick else 8)
    for res in results:
        rep.add_tlc(res, 'TraceSession')
        if res.rc != 0:
            rep.machinery.append('TraceSession failed: ' + res.out[-800:])
    for sess, vd in verdicts:
        rep.evaluations += 1
        rep.distinct.add(json.dumps([(c['op'], c['text']) for c in sess]))
        if vd is None:
            rep.machinery.append('TraceSession dropped a session')
        elif vd['v'] == 'accepted':
            rep.traces += 1
            if len(rep.samples) < 4:
                rep.samples.append({'calls': [(c['op'], c['text']) for c in sess], 'verdict': 'accepted'})
        elif vd['clause'] == 'residue':
            # the residual lexer state is internal: a difference there is recorded, not reported (only results count)
            rep.notes['sessions_with_different_lexer_residue'] = rep.notes.get('sessions_with_different_lexer_residue', 0) + 1
        else:
            i = vd['at'] - 1
            rep.violation('session rejected by SQSession at call %d (%s): %r; observed %s' % (vd['at'], vd['clause'],
                          [(c['op'], c['text']) for c in sess[:i + 1]], json.dumps(sess[i]['obs'])[:300]),
                          {'calls': [(c['op'], c['text'], c['k']) for c in sess[:i + 1]], 'clause': vd['clause'], 'observed': sess[i]['obs']})
    # differential: long-lived vs fresh parser
    hist = session.run_histories(seed, 250 if quick else 3000, 6 if quick else 9)
    ncalls = 0
    for recs, diffs in hist:
        ncalls += len(recs or [])
        for d in diffs:
            if 'harness_error' in d:
                rep.machinery.append(d['harness_error'])
            else:
                rep.violation('call %d of a sequence on a long-lived parser differs from the same call on a fresh parser: %r -> long-lived %s, '
                              'fresh %s' % (d['index'] + 1, [(c['op'], c['src']) for c in d['calls']], str(d['long_lived'])[:200], str(d['fresh'])[:200]), d)
    rep.evaluations += ncalls
    rep.notes['differential_calls'] = ncalls
    # evaluations inside histories are validated against the (history-free) evaluator specification as well
    scns = families.closure_sessions(seed + 3, 60 if quick else 600)
    cases = engine.run_family(rep, scns)
    engine.judge_cases(rep, cases, devs, what='eval history')
    # results must not depend on how an equal number was spelled by an earlier call of the process (dict keys, str(), join ...)
    scns = families.spelling_histories(seed + 4, 300 if quick else 3000)
    cases = engine.run_family(rep, scns)
    engine.judge_cases(rep, cases, devs, what='history of differently spelled equal numbers')
    rep.assumptions += ['random builtins are outside the property (their results depend on the global RNG by definition)',
                        'resuming a half-consumed list_names generator after an intervening call is not judged (the property speaks of '
                        'earlier calls)']
    return rep.finish()


def check_C17(tier, seed):
    from . import session
    quick = tier == 'quick'
    rep = Report('C17', tier, seed)
    rep.notes['rule'] = ('TLC: SQSession with a cache of kind dict / pre-warmed / LRU(1) / always-evicting: all sequences of <= MaxCalls calls '
                         'over sources incl. near-duplicates differing in surrounding whitespace: Transparent (= HistInd against the '
                         'cache-less fresh parser) and CacheKeys (exact text of successful parses only); code: a cached and an uncached '
                         'SqParser driven in lock-step (results, errors, names), cache key set and structural snapshots of every cached '
                         'tree before/after each eval (TreeFrozen), host mutation of returned values incl. nested containers '
                         '(NoResultAlias); recorded cached sessions validated by TLC incl. the key set after every call')
    for kind in ('dict', 'warm', 'lru1', 'evict'):
        _session_mc(rep, kind, 3 if quick else 4)
    rep.exhaustive = True
    _session_mc(rep, 'dict', 2, deviations=['MutCacheStripKey'], expect_violation=True)
    _session_mc(rep, 'dict', 2, deviations=['MutCacheFailures'], expect_violation=True)
    for kind in ('dict', 'lru1', 'evict'):
        sessions, verdicts, results = session.validate_sessions(seed + hash(kind) % 1000, 120 if quick else 1500, 6, cache_kind=kind)
        for res in results:
            rep.add_tlc(res, 'TraceSession cache=%s' % kind)
            if res.rc != 0:
                rep.machinery.append('TraceSession failed: ' + res.out[-800:])
        for sess, vd in verdicts:
            rep.evaluations += 1
            rep.distinct.add(json.dumps([kind] + [(c['op'], c['text']) for c in sess]))
            if vd is None:
                rep.machinery.append('TraceSession dropped a session')
            elif vd['v'] == 'accepted':
                rep.traces += 1
                if len(rep.samples) < 4:
                    rep.samples.append({'cache': kind, 'calls': [(c['op'], c['text']) for c in sess], 'verdict': 'accepted'})
            elif vd['clause'] == 'residue':
                rep.notes['sessions_with_different_lexer_residue'] = rep.notes.get('sessions_with_different_lexer_residue', 0) + 1
            else:
                i = vd['at'] - 1
                rep.violation('cached session (%s) rejected at call %d (%s): %r' % (kind, vd['at'], vd['clause'], [(c['op'], c['text']) for c in sess[:i + 1]]),
                              {'cache': kind, 'calls': [(c['op'], c['text'], c['k']) for c in sess[:i + 1]], 'clause': vd['clause'], 'observed': sess[i]['obs']})
    # the same text parsed several times and handed to eval as ast_names (with a retaining cache: one tree object under several names)
    devs17 = engine.open_deviations()
    scns = families.cached_ast_sessions(seed + 8, 200 if quick else 2000)
    cases = engine.run_family(rep, scns)
    engine.judge_cases(rep, cases, devs17, what='ast_names built from repeated parses')
    out = session.run_cache_sequences(seed, 400 if quick else 5000, 8)
    ncalls = 0
    for n, diffs in out:
        ncalls += n
        for d in diffs:
            if 'harness_error' in d:
                rep.machinery.append(d['harness_error'])
            else:
                rep.violation('cache (%s) not transparent - %s: %r' % (d.get('kind'), d.get('clause'), [(c['op'], c['src']) for c in d.get('calls', [])][-4:]), d)
    rep.evaluations += ncalls
    rep.notes['lockstep_calls'] = ncalls
    return rep.finish()


def check_C05(tier, seed):
    from . import regex_timing as rt
    quick = tier == 'quick'
    rep = Report('C05', tier, seed, level='exploration')
    rep.notes['rule'] = ('corpus of adversarial (pattern, subject, flags) triples - nested / overlapping quantifiers, alternations, counted '
                         'repeats, back-references, lookarounds, possessive/atomic groups, fuzzy and reverse matching, deep nesting, long '
                         'alternations / literals / patterns, subjects up to 10^5 characters, invalid patterns, random regexes over a small '
                         'grammar - for each of match / match_groups / match_all, executed through eval in an isolated worker under a '
                         'kill-after watchdog; every recorded call validated by TLC against SQRegexTimer (RegexBegin: every entry into the '
                         'engine carries a timeout in (0, 50 ms]; RegexEnd: duration within 500 ms + 5 us/char, outcome a value or an '
                         'ordinary Exception); duration failures must reproduce in 3 of 3 re-measurements in a quiet single worker; '
                         'non-trivial = the engine was entered (distinct (function, family, sizes))')
    probes = rt.corpus(tier, seed)
    results = rt.run_probes(probes, nrunners=4)
    verdicts, res = rt.validate(list(zip(probes, results)))
    rep.add_tlc(res, 'SQRegexTimer on %d recorded calls' % len(probes))
    if res.rc != 0 or len(verdicts) != len(probes):
        rep.machinery.append('SQRegexTimer run failed (%d verdicts for %d calls): %s' % (len(verdicts), len(probes), res.out[-800:]))
        return rep.finish()
    findings = [f for f in engine.load_known_findings() if f.get('property') == 'C05' and f.get('status') == 'open']
    slow = []
    for p, r in zip(probes, results):
        rep.evaluations += 1
        if r['engine']:
            rep.distinct.add((p['fn'], p['family'], len(p['pattern'] or ''), len(p['subject'] or '')))
        v = verdicts[p['id']]
        if len(rep.samples) < 6 and r['engine']:
            rep.samples.append({'fn': p['fn'], 'family': p['family'], 'pattern': (p['pattern'] or '')[:40], 'subject_len': len(p['subject'] or ''),
                                'flags': p['flags'], 'ms': round(r['ms'], 1), 'outcome': r['outcome'], 'engine': r['engine'][:2], 'verdict': v})
        if v == 'accepted':
            rep.traces += 1
        elif 'duration' in v or r.get('killed'):
            slow.append((p, r, v))
        else:
            rep.violation('%s(%r..., pattern %r...): %s; engine entries %s' % (p['fn'], (p['subject'] or '')[:20], (p['pattern'] or '')[:40], v, r['engine'][:3]),
                          {'probe': {k: (x if not isinstance(x, str) else x[:200]) for k, x in p.items()}, 'observed': r, 'clause': v})
    # duration failures: re-measure quietly; classify against the known finding (cause-keyed)
    for p, r, v in slow[:40]:
        again = rt.remeasure(p, 3)
        env_ms = 500 + (len(p['pattern'] or '') + len(p['subject'] or '')) / 200.0
        if not all(a.get('killed') or a['ms'] > env_ms for a in again):
            rep.notes['timing_noise_discarded'] = rep.notes.get('timing_noise_discarded', 0) + 1
            continue
        run = rt.periodic_run(p['pattern'])
        known = [f for f in findings if f.get('cause') == 'periodic-literal' and run >= f.get('min_run', 400) and len(p['subject'] or '') >= run // 2]
        if known:
            rep.known.append((known[0]['deviation'], known[0]['what']))
            rep.notes.setdefault('known_finding_witnesses', []).append({'fn': p['fn'], 'pattern_len': len(p['pattern']), 'periodic_run': run,
                                                                        'ms': [round(a['ms']) for a in again]})
        else:
            rep.violation('%s: duration %s ms outside the envelope %.0f ms (3 of 3 re-measurements): family %s, pattern %r..., subject length %d' %
                          (p['fn'], [round(a['ms']) for a in again], env_ms, p['family'], (p['pattern'] or '')[:40], len(p['subject'] or '')),
                          {'probe': {k: (x if not isinstance(x, str) else x[:300]) for k, x in p.items()}, 'remeasured': again})
    # which table entries reach the regex engine at all?
    rep.assumptions += ['wall-clock measurements in this sandbox; constants chosen with wide margins (500 ms + 5 us per character)',
                        'that the third-party engine honours its timeout for ALL patterns is explored on the corpus, not proved']
    return rep.finish()
