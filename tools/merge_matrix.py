#!/venv/bin/python
"""Merge seeded/matrix_run*.json (parallel runs of tools/seed_matrix.py) into seeded/matrix.json; later files win."""
import glob, json, os, sys
V = '/verif/seeded'
rows = {}
for p in sorted(glob.glob(V + '/matrix_run*.json'), key=os.path.getmtime):
    rows.update(json.load(open(p)))
json.dump(dict(sorted(rows.items())), open(V + '/matrix.json', 'w'), indent=1)
from collections import Counter
print(len(rows), Counter(v['status'] for v in rows.values()))
print([k for k, v in rows.items() if v['status'] != 'DETECTED'])
