#!/venv/bin/python
"""Run every seeded change against the quick check of the property it targets; write seeded/matrix.json."""
import json, os, subprocess, sys, glob
V = '/verif'
only = sys.argv[1:]
# the checks run from a frozen copy of the committed /verif, so that editing the working tree meanwhile cannot disturb them
import tempfile, atexit, shutil
SNAP = tempfile.mkdtemp(prefix='verif_snap_')
atexit.register(lambda: shutil.rmtree(SNAP, ignore_errors=True))
subprocess.run('git -C %s archive HEAD | tar -x -C %s' % (V, SNAP), shell=True, check=True)
os.environ['VERIF_SNAP'] = SNAP
rows = {}
ALT = {'C15': ['C11', 'C06'], 'C06': ['C15'], 'C20': ['C06'], 'C16': ['C17', 'C11'], 'C11': ['C17'], 'C17': ['C11'], 'C07': ['C10', 'C18'],
       'C08': ['C04'], 'C13': ['C12'], 'C12': ['C13'], 'C02': ['C13'], 'C09': ['C07'], 'C14': ['C13'], 'C18': ['C07'], 'C10': ['C07'], 'C01': ['C07'],
       'C03': ['C16'], 'C04': ['C08'], 'C19': ['C13'], 'C05': []}
if os.path.exists(os.environ.get('MATRIX_OUT', V + '/seeded/matrix.json')):
    rows = json.load(open(os.environ.get('MATRIX_OUT', V + '/seeded/matrix.json')))
for d in sorted(glob.glob(V + '/seeded/C*-*')):
    name = os.path.basename(d)
    prop = name.split('-')[0]
    if only and name not in only and prop not in only:
        continue
    patch = d + '/patch_rebased.diff' if os.path.exists(d + '/patch_rebased.diff') else d + '/patch.diff'
    def run(p):
        r = subprocess.run([V + '/tools/try_patch.py', patch, p], capture_output=True, text=True, cwd=V)
        first = (r.stdout.strip().splitlines() or ['?'])[0]
        status = 'DETECTED' if ' DETECTED ' in first else 'MISSED' if ' MISSED ' in first else 'MACHINERY' if 'MACHINERY' in first else first[:80]
        lines = [l.strip() for l in r.stdout.splitlines() if l.strip().startswith('VIOLATION') is False and l.startswith('      ')]
        return status, (lines[0][:300] if lines else '')
    status, rep = run(prop)
    rows[name] = {'property': prop, 'patch': os.path.basename(patch), 'status': status, 'first_report': rep}
    if status == 'MISSED':
        # the change may still be seen by the check of a neighbouring property (same layer)
        for alt in ALT.get(prop, []):
            st2, rep2 = run(alt)
            rows[name].setdefault('other_checks', {})[alt] = st2
            if st2 == 'DETECTED':
                rows[name]['first_report_other'] = rep2
                break
    print(name, status, flush=True)
    json.dump(rows, open(os.environ.get('MATRIX_OUT', V + '/seeded/matrix.json'), 'w'), indent=1)
