#!/venv/bin/python
"""Run every seeded change against the quick check of the property it targets; write seeded/matrix.json."""
import json, os, subprocess, sys, glob
V = '/verif'
only = sys.argv[1:]
rows = {}
if os.path.exists(V + '/seeded/matrix.json'):
    rows = json.load(open(V + '/seeded/matrix.json'))
for d in sorted(glob.glob(V + '/seeded/C*-*')):
    name = os.path.basename(d)
    prop = name.split('-')[0]
    if only and name not in only and prop not in only:
        continue
    patch = d + '/patch_rebased.diff' if os.path.exists(d + '/patch_rebased.diff') else d + '/patch.diff'
    r = subprocess.run([V + '/tools/try_patch.py', patch, prop], capture_output=True, text=True, cwd=V)
    first = (r.stdout.strip().splitlines() or ['?'])[0]
    status = 'DETECTED' if ' DETECTED ' in first else 'MISSED' if ' MISSED ' in first else 'MACHINERY' if 'MACHINERY' in first else first[:80]
    lines = [l.strip() for l in r.stdout.splitlines() if l.strip().startswith('VIOLATION') is False and l.startswith('      ')]
    rows[name] = {'property': prop, 'patch': os.path.basename(patch), 'status': status, 'first_report': (lines[0][:300] if lines else '')}
    print(name, status, flush=True)
    json.dump(rows, open(V + '/seeded/matrix.json', 'w'), indent=1)
