#!/venv/bin/python
"""Write seeded/<id>/meta.json from notes.md, verify.json and matrix.json."""
import json, os, glob, re
V = '/verif'
matrix = json.load(open(V + '/seeded/matrix.json')) if os.path.exists(V + '/seeded/matrix.json') else {}
# the first run of each seed, before the checks were strengthened with what it taught (kept for the record)
first = json.load(open(V + '/seeded/matrix_first_runs.json')) if os.path.exists(V + '/seeded/matrix_first_runs.json') else {}
for d in sorted(glob.glob(V + '/seeded/C*-*')):
    name = os.path.basename(d)
    prop = name.split('-')[0]
    notes = open(d + '/notes.md').read() if os.path.exists(d + '/notes.md') else ''
    ver = json.load(open(d + '/verify.json')) if os.path.exists(d + '/verify.json') else {}
    m = matrix.get(name, {})
    needs = ''
    mm = re.search(r'(?is)(needs? (?:in order )?to manifest|what it needs)[^\n]*\n(.*?)(\n\s*\n|\n#|\Z)', notes)
    if mm:
        needs = ' '.join(mm.group(2).split())[:600]
    meta = {'property': prop, 'origin': 'independent sub-agent given only the property text and a scratch worktree (round %s)' % {'a': '1', 'b': '2', 'c': '3', 'd': '4', 'e': '5', 'f': '6'}[name[-1]],
            'breaks': prop, 'needs_to_manifest': needs or notes[:600],
            'confirmed': {'base_commit': ver.get('base'), 'suite_with_change': ver.get('suite'), 'demo_without_change_rc': ver.get('demo_pristine_rc'),
                          'demo_with_change_rc': ver.get('demo_patched_rc'), 'confirmed': ver.get('confirmed'),
                          'how': 'tools/verify_seed.py: fresh scratch worktree of /repo HEAD; demo.py passes; git apply patch; repository suite; demo.py fails; worktree removed'},
            'rebased_patch': os.path.exists(d + '/patch_rebased.diff'),
            'check_run': {'command': 'tools/try_patch.py seeded/%s/%s %s  (VERIF_REPO = scratch worktree with the patch; ./check %s --tier quick)' %
                                      (name, m.get('patch', 'patch.diff'), prop, prop), 'status': m.get('status'), 'first_report': m.get('first_report'),
                          'other_checks': m.get('other_checks')},
            'first_run_before_strengthening': first.get(name)}
    json.dump(meta, open(d + '/meta.json', 'w'), indent=1)
print('meta written for', len(glob.glob(V + '/seeded/C*-*')))
