#!/venv/bin/python
"""Regenerate /verif/MANIFEST.json from the table below (keeps it schema-valid)."""
import json, os
V = os.path.dirname(os.path.dirname(os.path.abspath(__file__)))
props = [json.loads(l) for l in open(os.path.join(V, 'properties.jsonl'))]
CHECKS = {
 'C01': dict(engine='vm', level='model_checking', design='4/C01',
   technique='TLA+ product machine (budget N x unlimited) model-checked with TLC; TLC-generated scenarios replayed on the code; recorded traces validated by TLC (TraceVM)',
   text='TLC checks exhaustively, over all programs of spec/MC_C01.tla x all budgets 1..MaxN x propagating/swallowing hosts x 2-call histories, that the specified evaluator charges every node evaluation to the call in progress, raises exactly at the N-th operation with no effect, is identical to the unbounded run until then (monotone in N) and that the effects of the aborted run are a prefix. The code is bound to the specification in both directions: every explored scenario is replayed on the real SqParser, and recorded executions (boundary budgets need-1..need+2 of random programs, closures crossing eval calls) are validated event by event (node, VM record, op count, raised flag, values, names) by TLC.',
   note='Trusted: TLC, the external tracer (harness/vmtrace.py wraps Op.eval and the 13 subclass evals), the bounds of MC_C01. Unbounded programs are covered by trace validation of sampled runs only.'),
 'C09': dict(engine='vm', level='model_checking', design='4/C09',
   technique='TLA+ evaluator model-checked with TLC over all probe-leaf expression shapes x outcome assignments (order invariants on the event history); replay of TLC scenarios on the code; TLC trace validation of recorded runs',
   text='TLC checks on the specified evaluator, for all expression shapes up to depth 2 / 3-4 leaves over every construct that has operands, with a distinct host probe at each leaf and all assignments of probe outcomes (truthy, falsy, host list, raises), that and/or/if-else are lazy and yield the deciding operand, and that all other operands are evaluated exactly once, left to right, before the operation is applied (invariants over the recorded event history). The code is bound by replaying those scenarios and by validating recorded runs of deeper random probe programs (method/pipe sugar, slices, dict literals, index/compound/del statements) event by event, including the ordered probe log.',
   note='Trusted: TLC, external tracer, probe functions of the harness; bounds MaxDepth/MaxLeaves of spec/MC_C09.tla.'),
 'C10': dict(engine='vm', level='model_checking', design='4/C10',
   technique='TLA+ evaluator with explicit scope stacks model-checked with TLC (scope balance / frame correspondence / host written only at top level); replay + TLC trace validation incl. scope depth, host names and FUNCTIONS digest after every call',
   text='TLC checks scope-stack invariants (balanced at every call end, one local scope per active lambda frame also when bodies raise under map/sorted/filter or under a swallowing host callback, host mapping written only by top-level stores, locals vanish) over 16k scenarios binding one name at every subset of builtin / host / parameter-local levels with host-supplied AST lambdas whose bodies assign, nested and recursive calls. Conformance: replay of the scenarios and of random scoping programs (including host mappings equal to a parameter binding and 2-call histories); the tracer compares scope depth per VM record, host names contents and a digest of FUNCTIONS after every call.',
   note='Trusted: TLC, external tracer. Lambda bodies that assign exist only as host-supplied ASTs (ast_names).'),
 'C12': dict(engine='vm', level='model_checking', design='4/C12',
   technique='TLA+ heap model with object identity; TLC checks Separation/HostOnlyDirect over all store forms x mutation sequences; replay + TLC trace validation comparing object identities up to a bijection',
   text='TLC checks over 19k scenarios (6 nested host object shapes incl. tuples and shared substructure x 11 store forms x all sequences of <= 2 mutations through either side) that stored values never share a mutable object with their source or with another variable and that a host object changes only under a mutator applied directly to it. Conformance compares, for every node exit and the final names, contents and object identity (address bijection) between the real run and the specification, so an aliasing store is rejected at the store itself.',
   note='Trusted: TLC, external tracer (first-seen numbering of id() with strong references).'),
 'C13': dict(engine='vm', level='model_checking', design='4/C13',
   technique='TLA+ builtin semantics; TLC action property ArgsPreserved over every deterministic non-mutator x argument tuples and two-stage pipelines; replay + TLC trace validation of host objects after every call (relational envelope for shuffle/rand/match*)',
   text='TLC checks that the step applying a non-mutating builtin, and every own step of map/filter/reduce/sorted, leaves every existing heap object unchanged, for every deterministic non-mutator of the table applied to every argument tuple from a universe of host lists/dicts/strings/numbers/flags/key functions and all two-stage pipelines (8970 programs). The programs and random further calls (including shuffle, rand, match*) are run on the real code and the host objects compared (contents and identity) with the specification after each call. The key set of FUNCTIONS is compared with the specification table and recorded.',
   note='Trusted: TLC, external tracer. Builtins unknown to the specification would only be exercised relationally (reported in the evidence).'),
 'C06': dict(engine='lexparse', level='model_checking', design='4/C06',
   technique='TLA+ lexer + normative precedence-climbing parser (SQGrammar.tla), model-checked against the declarative grammar-and-table reading; TLC enumerates all token strings up to a bound and every string is parsed by the real SqParser; TLC trace validation of recorded parses',
   text='The reference parser is written in TLA+ from the productions and the operator table (not from the LALR tables) and is itself checked by TLC to be sound, complete and unique w.r.t. the declarative reading (thorough tier). TLC enumerates all token strings up to a length bound over 18 alphabet groups (hundreds of thousands), each is rendered to text and parsed by the real parser: accept/reject, tree and offending token must agree. Random deep sentences, their one-token mutations and the test-suite sources are parsed by the real code and validated by TLC.',
   note='Trusted: TLC, tree conversion harness/treeconv.py. Bounds: string lengths per alphabet group.'),
 'C15': dict(engine='lexparse', level='model_checking', design='4/C15',
   technique='TLA+ lexer/parser; TLC checks Parse(Lex(render(tree, layout))) = tree on enumerated token strings with layout variants and on recorded layout rewrites; every rendering parsed by the real parser',
   text='Layout rewrites (spaces/tabs, comments, line breaks inside brackets, ; vs newline vs CRLF, blank statements, trailing commas, redundant parentheses, the three call spellings) are applied at every applicable position of enumerated token strings and of random trees; the specification requires the tree to be unchanged, the real parser is run on every rendering and must agree with the specification.',
   note='Trusted: TLC, renderer in harness/lexparse.py (only inserts separators where tokens would fuse).'),
 'C20': dict(engine='lexparse', level='model_checking', design='4/C20',
   technique='TLA+ lexer with physical line numbers and ErrMsg; TLC enumerates erroneous token strings with separators/brackets; recorded error messages validated by TLC',
   text='The specification computes, for every rejected text, the offending token and its physical line (1 + line breaks strictly before it, independent of brackets and of ;). TLC enumerates token strings with every mixture of newline/CRLF/; separators and multi-line brackets before a stray token, plus truncations; the real ParserError message must name that token text and that line, and end of input must be reported as such.',
   note='Trusted: TLC. The token text is compared as the lexer reports it (str(token.value)).'),
 'C14': dict(engine='vm', level='model_checking', design='4/C14',
   technique='TLA+ heap/builtin semantics explored as a state machine over a 297-operation alphabet (model-based testing with the TLA+ model as oracle); algebraic laws checked in every reachable container state; paths replayed on the code and validated by TLC',
   text='TLC explores every sequence of up to 3 (quick) / 4 (thorough) container operations on one list and one dict (push pop insert remove read write compound-write del get index_of keys/values/items len in; integer, decimal, negative, out-of-range, string, bool and None keys) and checks in every reachable state, for every operation: WriteRead (through the same key cast for literal/write/read/get/in), ReadGet, DelGone, FailedNoChange, IndexLaw (truncation, negative positions), Observers (new lists, consistent with the pairs), ParserError classes. One path to each explored state plus sampled next operations, and random sequences up to length 12, are executed on the real code (one eval call per operation on persistent names) and validated by TLC.',
   note='Trusted: TLC, external tracer. Out-of-range del/write error classes are modelled as the code has them (the property leaves them open).'),
 'C03': dict(engine='vm', level='model_checking', design='4/C03',
   technique='TLA+ cap logic parametric in Cap, model-checked exhaustively at Cap=6 (SizeInv on every heap object, AtCapFails); the same scenario descriptors executed on the code at the true constant 10000 and validated by TLC with Cap=10000',
   text='The specification guards every step that creates or grows a list/dict (normative reading of the property); TLC checks SizeInv and AtCapFails for host containers of length 0, 1, Cap-2, Cap-1, Cap, Cap+1 under all sequences of <= 2 (quick) / 3 (thorough) operations from an alphabet of 58 (every builtin and operator that returns or mutates a container, incl. the element-adding builtins reached through aliases, callbacks and lambdas). The explored scenario descriptors are rendered at real scale (0, 1, 9998..10001 elements) and the recorded executions validated by TLC with Cap = 10000; unchecked growth paths of the code are known findings identified by the deviation that reproduces them.',
   note='Trusted: TLC; the cap logic is explored at a small Cap (the specification is parametric), the code always runs at 10000. sorted/map/filter/split/replace/join on 10000-element operands are left-domain in trace validation (specified, but too slow to evaluate stepwise).'),
 'C16': dict(engine='vm+lexparse', level='model_checking', design='4/C16',
   technique='TLA+ evaluator: TLC plants each language-level failure in every expression/statement context (ClassInv); TLA+ lexer/parser: TLC enumerates character and token strings incl. truncations; replay + TLC trace validation of exception classes; hostile inputs in a subprocess',
   text='Evaluator part: MC_C16 plants each runtime failure (undefined variable/function, compound assignment to an undefined name, missing key/index read, compound index assignment on a missing key, empty/out-of-range pop, size cap, budget, non-container arguments) in 26 expression contexts x 8 statement contexts and inside host AST lambdas; TLC checks that the outcome is a ParserError (or the ops-limit subclass). Syntax part: all character strings / token strings up to a bound, truncations of sentences at every token boundary and character soup must be rejected with ParserError by the real lexer/parser exactly where the specification rejects them. Exception classes of every recorded node exit are validated by TLC; a hostile batch (deep nesting, megabyte tokens) runs in a subprocess and must not crash.',
   note='Trusted: TLC, tracer. Exception classes other than ParserError/OpsLimit are compared by name only where the specification pins them.'),
}
NA_REASON = 'check not built yet (construction in progress, see DESIGN.md section 8)'
m = {"version": 1, "setup_cmd": "cd /verif && ./setup.sh",
     "hooks": {"guard": "SMARTQUERY_VERIF",
               "enable": "no source hooks: ./check sets SMARTQUERY_VERIF=1, snapshots /repo/smartquery to a scratch directory and instruments that copy from outside (harness/vmtrace.py)",
               "baseline_off_cmd": "cd /repo && /venv/bin/python -m pytest -ra -q -p no:cacheprovider --timeout=900 --continue-on-collection-errors",
               "source_commits": [], "add_only": True},
     "engines": [{"name": "lexparse", "path": "spec/SQLexer.tla + spec/SQGrammar.tla + spec/TraceParse.tla + harness/lexparse.py", "serves_properties": sorted(k for k, c in CHECKS.items() if c['engine'] == 'lexparse'),
                  "kind_free_text": "TLA+ lexer and normative parser, TLC enumeration of token/character strings replayed on the real lexer/parser, TLC validation of recorded parses"},
                 {"name": "vm", "path": "spec/SQVM.tla + spec/TraceVM.tla + harness/", "serves_properties": sorted(k for k, c in CHECKS.items() if c['engine'] == 'vm'),
                  "kind_free_text": "TLA+ small-step abstract machine of the evaluator, model-checked by TLC; conformance by replay (spec->code) and trace validation (code->spec)"}],
     "checks": [], "not_applicable": [], "notes": "see DESIGN.md"}
for p in props:
    i = p['id']
    if i in CHECKS:
        c = CHECKS[i]
        m['checks'].append({"property_id": i, "quick_cmd": "./check %s --tier quick" % i, "thorough_cmd": "./check %s --tier thorough" % i,
                            "evidence_file": "/verif/evidence/%s.json" % i, "replay_cmd_template": "./check %s --replay {path}" % i,
                            "engine": c['engine'], "level_claimed": {"category": c['level'], "text": c['text'], "design_ref": c['design']},
                            "level_note": c['note'], "technique": c['technique']})
    else:
        m['not_applicable'].append({"property_id": i, "reason": NA_REASON})
json.dump(m, open(os.path.join(V, 'MANIFEST.json'), 'w'), indent=1)
print('checks:', [c['property_id'] for c in m['checks']])
