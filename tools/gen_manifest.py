#!/venv/bin/python
"""Regenerate /verif/MANIFEST.json from the table below (keeps it schema-valid)."""
import json, os
V = os.path.dirname(os.path.dirname(os.path.abspath(__file__)))
props = [json.loads(l) for l in open(os.path.join(V, 'properties.jsonl'))]
CHECKS = {
 'C01': dict(engine='vm', level='model_checking', design='4/C01',
   technique='TLA+ product machine (budget N x unlimited) model-checked with TLC; TLC-generated scenarios replayed on the code; recorded traces validated by TLC (TraceVM)',
   text='TLC checks exhaustively, over all programs of spec/MC_C01.tla x all budgets 1..MaxN x propagating/swallowing hosts x 2-call histories, that the specified evaluator charges every node evaluation to the call in progress, raises exactly at the N-th operation with no effect, is identical to the unbounded run until then (monotone in N) and that the effects of the aborted run are a prefix. The code is bound to the specification in both directions: every explored scenario is replayed on the real SqParser, and recorded executions (boundary budgets need-1..need+2 of random programs, closures crossing eval calls) are validated event by event (node, VM record, op count, raised flag, values, names) by TLC.',
   note='Trusted: TLC, the external tracer (harness/vmtrace.py wraps Op.eval and the 13 subclass evals), the bounds of MC_C01. Unbounded programs are covered by trace validation of sampled runs only.'),
}
NA_REASON = 'check not built yet (construction in progress, see DESIGN.md section 8)'
m = {"version": 1, "setup_cmd": "cd /verif && ./setup.sh",
     "hooks": {"guard": "SMARTQUERY_VERIF",
               "enable": "no source hooks: ./check sets SMARTQUERY_VERIF=1, snapshots /repo/smartquery to a scratch directory and instruments that copy from outside (harness/vmtrace.py)",
               "baseline_off_cmd": "cd /repo && /venv/bin/python -m pytest -ra -q -p no:cacheprovider --timeout=900 --continue-on-collection-errors",
               "source_commits": [], "add_only": True},
     "engines": [{"name": "vm", "path": "spec/SQVM.tla + spec/TraceVM.tla + harness/", "serves_properties": sorted(k for k, c in CHECKS.items() if c['engine'] == 'vm'),
                  "kind_free_text": "TLA+ small-step abstract machine of the evaluator, model-checked by TLC; conformance by replay (spec->code) and trace validation (code->spec)"}],
     "checks": [], "not_applicable": [], "notes": "see DESIGN.md"}
for p in props:
    i = p['id']
    if i in CHECKS:
        c = CHECKS[i]
        m['checks'].append({"property_id": i, "quick_cmd": "./check %s --tier quick" % i, "thorough_cmd": "./check %s --tier thorough" % i,
                            "evidence_file": "/verif/evidence/%s.json" % i, "replay_cmd_template": "./check %s --replay {path}" % i,
                            "engine": c['engine'], "level_claimed": {"category": c['level'], "text": c['text'], "design_ref": c['design']},
                            "level_note": c['note'], "technique": c['technique']})
    else:
        m['not_applicable'].append({"property_id": i, "reason": NA_REASON})
json.dump(m, open(os.path.join(V, 'MANIFEST.json'), 'w'), indent=1)
print('checks:', [c['property_id'] for c in m['checks']])
