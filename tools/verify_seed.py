#!/venv/bin/python
"""Confirm a seeded change: fresh scratch worktree of /repo HEAD, demo passes without the
patch, suite unchanged and demo fails with it.  Usage: verify_seed.py <dir with patch.diff, demo.py> <name>"""
import json, os, subprocess, sys, shutil, re
src, name = sys.argv[1], sys.argv[2]
wt = '/tmp/vseed_' + name
def sh(cmd, cwd=None, t=900):
    p = subprocess.run(cmd, shell=True, cwd=cwd, stdout=subprocess.PIPE, stderr=subprocess.STDOUT, text=True, timeout=t)
    return p.returncode, p.stdout
sh(f'git -C /repo worktree remove --force {wt}'); shutil.rmtree(wt, ignore_errors=True)
rc, out = sh(f'git -C /repo worktree add -q --detach {wt} HEAD'); assert rc == 0, out
res = {'name': name, 'base': sh('git -C /repo rev-parse HEAD')[1].strip()}
try:
    os.makedirs(wt + '/_out', exist_ok=True)
    shutil.copy(src + '/demo.py', wt + '/_out/demo.py')
    rc, out = sh('/venv/bin/python _out/demo.py', wt); res['demo_pristine_rc'] = rc
    rc, out = sh(f'git apply {os.path.abspath(src)}/{'patch_rebased.diff' if os.path.exists(src + '/patch_rebased.diff') else 'patch.diff'}', wt); res['apply_rc'] = rc; res['apply_out'] = out[-500:]
    rc, out = sh('/venv/bin/python -m pytest -q -p no:cacheprovider tests 2>&1 | tail -5', wt)
    m = re.search(r'(\d+) failed, (\d+) passed', out) or re.search(r'(\d+) passed', out); res['suite'] = m.group(0) if m else out[-300:]
    res['suite_failed_tests'] = re.findall(r'FAILED (\S+)', out)
    rc, out = sh('/venv/bin/python _out/demo.py', wt); res['demo_patched_rc'] = rc; res['demo_patched_tail'] = out[-600:]
    res['confirmed'] = (res['demo_pristine_rc'] == 0 and res['apply_rc'] == 0 and res['suite'] in ('1 failed, 99 passed', '100 passed')
                        and res['demo_patched_rc'] != 0)
finally:
    sh(f'git -C /repo worktree remove --force {wt}'); shutil.rmtree(wt, ignore_errors=True)
print(json.dumps(res, indent=1))
