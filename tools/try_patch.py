#!/venv/bin/python
"""Run checks against a patched scratch copy of /repo (never /repo itself).
usage: try_patch.py <patch.diff> <ID> [<ID>...] [--tier quick]
Prints per property: DETECTED (exit 1 + VIOLATION), MISSED (exit 0) or MACHINERY (exit 2)."""
import os, subprocess, sys, shutil, tempfile, json
args = [a for a in sys.argv[1:] if not a.startswith('--')]
tier = 'quick'
if '--tier' in sys.argv:
    tier = sys.argv[sys.argv.index('--tier') + 1]; args.remove(tier)
patch, props = os.path.abspath(args[0]), args[1:]
wt = tempfile.mkdtemp(prefix='mut_')
out = tempfile.mkdtemp(prefix='mutout_')
try:
    subprocess.run('git -C /repo worktree add -q --detach %s HEAD' % wt, shell=True, check=True)
    r = subprocess.run('git apply %s || git apply --3way %s' % (patch, patch), shell=True, cwd=wt, capture_output=True, text=True)
    if r.returncode:
        print('PATCH DOES NOT APPLY', r.stderr); sys.exit(3)
    for p in props:
        env = dict(os.environ, VERIF_REPO=wt, VERIF_OUT=out)
        V = os.environ.get('VERIF_SNAP', '/verif')      # a frozen copy of /verif (tools/seed_matrix.py) or the working tree
        r = subprocess.run([V + '/check', p, '--tier', tier], cwd=V, env=env, capture_output=True, text=True)
        lines = [l for l in r.stdout.splitlines() if l.startswith('VIOLATION') or l.startswith('  ')]
        status = {0: 'MISSED', 1: 'DETECTED', 2: 'MACHINERY'}.get(r.returncode, 'rc=%d' % r.returncode)
        print('%s %s %s' % (p, status, os.path.basename(os.path.dirname(patch))))
        for l in lines[:4]:
            print('   ', l[:400])
        if r.returncode == 2:
            print(r.stderr[-1500:])
finally:
    subprocess.run('git -C /repo worktree remove --force %s' % wt, shell=True)
    shutil.rmtree(wt, ignore_errors=True); shutil.rmtree(out, ignore_errors=True)
