#!/venv/bin/python
"""Conformance of smartquery/repl.py with spec/SQRepl.tla (beyond the listed properties; not in MANIFEST.json).

  1. TLC checks MC_Repl (all scripts of <= MaxLen prompt items): Survives, EvalsAreLines, OneNames, PrintedCount, Termination,
     and the three specification mutants must each violate an invariant.
  2. Direction A: every behaviour TLC enumerated is realised as a concrete script and played through the unmodified repl();
     the observed loop events, printed line count and way out must be the ones TLC computed.
  3. Direction B: random sessions; loop events validated by TraceRepl, every evaluated line by TraceVM (incl. the printed text).
Exit 0: conforms; 1: a difference (line "DIFFERENCE spec=SQRepl ..."); 2: machinery failure.   usage: repl_check.py [quick|thorough]"""
import json, os, random, sys
sys.path.insert(0, '/verif')
from harness import common, vmrun, repl_conf, engine
os.environ.pop('VERIF_SCRATCH_ROOT', None)
common.scratch_root()

tier = sys.argv[1] if len(sys.argv) > 1 else 'quick'
quick = tier == 'quick'
diffs, mach = [], []
summary = {'tier': tier}
try:
    common.snapshot_repo()
    # 1. model
    behaviours, res = repl_conf.model_scripts(3 if quick else 4)
    summary['model'] = {'states': res.distinct, 'behaviours': len(behaviours), 'rc': res.rc}
    if res.rc != 0:
        mach.append('MC_Repl: ' + res.out[-800:])
    for d in ('MutExitOnError', 'MutFreshNames', 'MutEvalEmpty'):
        cfg = open(os.path.join(common.SPEC, 'MC_Repl.cfg')).read().replace('Deviations = {}', 'Deviations = {"%s"}' % d).replace('MaxLen = 4', 'MaxLen = 2')
        p = os.path.join(common.scratch_dir('repl'), 'mut_%s_%d.cfg' % (d, os.getpid()))
        open(p, 'w').write(cfg)
        r2 = common.run_tlc('MC_Repl.tla', cfg=p, workers=4, timeout=600)
        if not r2.invariant_violated:
            mach.append('mutant %s violates nothing (vacuous invariants?)' % d)
    # 2. direction A
    r = random.Random(7)
    sample = behaviours if len(behaviours) <= 1200 else r.sample(behaviours, 1200)
    scns = [repl_conf.scenario_for(b['script'], r) for b in sample]
    cases = vmrun.run_scenarios(scns)
    n_a = 0
    for b, c in zip(sample, cases):
        if 'harness_error' in c:
            mach.append(c['harness_error'][-400:]); continue
        n_a += 1
        obs_script = repl_conf.abstract_script(c)
        evs = c['repl']['events']
        obs = {'phase': c['repl']['final']['phase'], 'code': c['repl']['final']['code'],
               'evals': sum(1 for e in evs if e['e'] == 'eval'),
               'printed': sum(e.get('printed', 0) for e in evs if e['e'] == 'eval') + (1 if any(e['e'] == 'interrupt' for e in evs) else 0),
               'stdout_lines': c['repl']['stdout_lines']}
        exp = {'phase': b['phase'], 'code': b['code'], 'evals': len(b['evals']), 'printed': len(b['out']), 'stdout_lines': len(b['out'])}
        consumed = [dict(x) for x in b['script'][:b['pos']]]
        if obs != exp or obs_script[:len(consumed)] != [{'t': x['t'], 'empty': x['empty'], 'res': x['res']} for x in consumed][:len(obs_script)]:
            diffs.append({'direction': 'A', 'script': c.get('calls') and [cl['src'] for cl in c['calls']], 'abstract': b['script'], 'specified': exp, 'observed': obs})
    summary['direction_A'] = {'behaviours_replayed': n_a}
    # 3. direction B
    r = random.Random(11)
    scns = [repl_conf.random_script(r, r.choice([3, 6, 10, 16])) for _ in range(300 if quick else 3000)]
    cases = [c for c in vmrun.run_scenarios(scns) if 'harness_error' not in c]
    lv, res = repl_conf.validate_loops(cases)
    if res.rc != 0 or len(lv) != len(cases):
        mach.append('TraceRepl: ' + res.out[-800:])
    for c in cases:
        v = lv.get(c['tid'])
        if v and v['v'] != 'accepted':
            diffs.append({'direction': 'B', 'clause': v['v'], 'at': v['at'], 'lines': [x.get('text') for x in c.get('repl_script', [])] or [cl['src'] for cl in c['calls']],
                          'events': c['repl']['events'][:v['at'] + 1]})
    for i, c in enumerate(cases):
        c['tid'] = i + 1
    verd, mr = vmrun.validate(cases, deviations=[])
    rej = [c for c in cases if verd.get(c['tid'], {}).get('v') == 'rejected']
    if rej:
        devs = [d for d in engine.open_deviations() if d in engine.VM_DEVIATIONS]
        v2, _ = vmrun.validate(rej, deviations=devs)
        for c in rej:
            if v2.get(c['tid'], {}).get('v') not in ('accepted', 'leftdomain'):
                v = v2.get(c['tid']) or verd[c['tid']]
                diffs.append({'direction': 'B', 'clause': v.get('why'), 'lines': [cl['src'] for cl in c['calls']], 'at_event': v.get('l')})
    summary['direction_B'] = {'sessions': len(cases), 'loop_accepted': sum(1 for v in lv.values() if v['v'] == 'accepted'),
                              'lines_evaluated': sum(len(c['calls']) for c in cases),
                              'vm_accepted': sum(1 for v in verd.values() if v['v'] == 'accepted'), 'vm_explained_by_known_findings': len(rej) - sum(1 for d in diffs if d.get('at_event') is not None)}
except Exception as e:   # noqa
    import traceback
    mach.append(traceback.format_exc()[-1500:])
summary['differences'] = diffs[:20]
summary['machinery'] = mach[:5]
os.makedirs('/verif/extra', exist_ok=True)
out = os.environ.get('VERIF_OUT')
path = os.path.join(out, 'repl_conformance.json') if out else '/verif/extra/repl_conformance.json'
json.dump(summary, open(path, 'w'), indent=1, default=str)
if mach:
    print('MACHINERY-FAILURE:', mach[0][:600]); sys.exit(2)
for d in diffs[:5]:
    print('DIFFERENCE spec=SQRepl %s' % json.dumps(d, default=str)[:600])
print('%s spec=SQRepl tier=%s model_states=%s behaviours_replayed=%s sessions=%s' % ('DIFFERS' if diffs else 'OK', tier, summary.get('model', {}).get('states'),
      summary.get('direction_A', {}).get('behaviours_replayed'), summary.get('direction_B', {}).get('sessions')))
sys.exit(1 if diffs else 0)
